#!/usr/bin/env python3
"""Mutation analysis of the MODEL side of the tie (development tool; output: notes/model_mutation.md).

The correspondence check constrains the hand-written Lean model only as far as its requests exercise it.  This tool measures that:
it collects the (request, implementation answer) pairs of a quick run of every check, then applies small mechanical mutations to the
`Model/*.lean` files (relational flips, boolean operators, min/max, off-by-one literals, true/false), rebuilds the model in scratch copies
of the lake project, replays the requests through the mutated driver and counts how many mutants the real code's answers reject
("killed").  A surviving mutant is either equivalent on everything the code can do, or marks a place where the tie is thin.

  python3 tools/model_mutation.py collect            # run the implementation stages once, store request/answer pairs
  python3 tools/model_mutation.py run [--per-file N] [--workers W] [--only Model/Rank.lean]
"""
from __future__ import annotations

import argparse
import json
import os
import random
import re
import shutil
import subprocess
import sys
import time
from concurrent.futures import ProcessPoolExecutor
from pathlib import Path

ROOT = Path(__file__).resolve().parent.parent
sys.path.insert(0, str(ROOT / "harness"))
import leanbridge as lb  # noqa: E402
import vcheck  # noqa: E402

WORK = Path(os.environ.get("MM_WORK", "/var/tmp/yaqs_mm"))
PY = "/venv/bin/python"


def props():
    return [c["property_id"] for c in json.loads((ROOT / "MANIFEST.json").read_text())["checks"]]


def collect_one(p):
    out = WORK / f"impl_{p}.json"
    env = dict(os.environ, MQT_YAQS_VERIF="1", OMP_NUM_THREADS="1", OPENBLAS_NUM_THREADS="1", MKL_NUM_THREADS="1",
               PYTHONPATH=str(ROOT / "harness"))
    r = subprocess.run([PY, "-u", str(ROOT / "harness/impl" / f"{p}.py"), "--seed", "0", "--tier", "quick", "--out", str(out)],
                       env=env, capture_output=True, text=True, cwd=str(ROOT), timeout=1500)
    return p, r.returncode


def collect():
    WORK.mkdir(parents=True, exist_ok=True)
    with ProcessPoolExecutor(6) as ex:
        for p, rc in ex.map(collect_one, props()):
            print(p, rc, flush=True)
    by_driver = {}
    for p in props():
        f = WORK / f"impl_{p}.json"
        if not f.exists():
            continue
        d = json.loads(f.read_text())
        for c in d["cases"]:
            if c.get("req") is not None and not c.get("edge") and c.get("impl") is not None:
                by_driver.setdefault(d["driver"], []).append([c["req"], c["impl"]])
    for drv, pairs in by_driver.items():
        # the unchanged model must agree with every pair we keep (they do on a green run); dedupe
        seen, uniq = set(), []
        for r, i in pairs:
            if r not in seen:
                seen.add(r)
                uniq.append([r, i])
        (WORK / f"reqs_{drv}.json").write_text(json.dumps(uniq))
        print(drv, len(uniq), "distinct requests")


MUTATORS = [
    (r" < ", " ≤ "), (r" ≤ ", " < "), (r" > ", " ≥ "), (r" ≥ ", " > "), (r" == ", " != "), (r" != ", " == "),
    (r" && ", " || "), (r" \|\| ", " && "), (r"\bmin\b", "max"), (r"\bmax\b", "min"),
    (r"\btrue\b", "false"), (r"\bfalse\b", "true"),
    (r" \+ 1\b", " + 2"), (r" - 1\b", " - 2"), (r" \+ 1\b", ""), (r" - 1\b", ""),
    (r" \+ ", " - "), (r" \* ", " + "), (r"\.reverse\b", ""), (r" % 2\b", " % 3"), (r" / 2\b", " / 3"),
]


def code_spans(src):
    """character ranges of src that are code (not comments / doc strings / string literals)"""
    stripped = lb.strip_comments(src)
    # strip_comments keeps newlines and drops comment text; map back by aligning line by line (comments only shorten lines)
    spans, pos = [], 0
    for raw, code in zip(src.split("\n"), stripped.split("\n")):
        code = code.rstrip()
        if code.strip():
            k = raw.find(code.strip())
            if k >= 0:
                spans.append((pos + k, pos + k + len(code.strip())))
        pos += len(raw) + 1
    return spans


def mutants_of(path: Path, per_file: int, seed=0):
    src = path.read_text()
    spans = code_spans(src)
    cands = []
    for a, b in spans:
        line = src[a:b]
        if re.match(r"\s*(import|namespace|end|open|deriving|structure|inductive|\|.*:\s*\w+\s*→)", line) or '"' in line:
            continue
        for pat, rep in MUTATORS:
            for m in re.finditer(pat, line):
                cands.append((a + m.start(), a + m.end(), rep, pat))
    rng = random.Random(f"{path.name}:{seed}")
    rng.shuffle(cands)
    out, seen = [], set()
    for a, b, rep, pat in cands:
        key = (a, rep)
        if key in seen:
            continue
        seen.add(key)
        out.append({"file": str(path.relative_to(lb.LEAN)), "start": a, "end": b, "rep": rep, "pat": pat,
                    "line": src.count("\n", 0, a) + 1, "text": src[max(0, a - 40):b + 40].replace("\n", "⏎")})
        if len(out) >= per_file:
            break
    return out


def driver_models():
    res = {}
    for f in sorted((lb.LEAN / "Driver").glob("*.lean")):
        mods = [m for m in re.findall(r"^import\s+(YaqsModel\.Model\.[\w.]+)", f.read_text(), re.M)]
        res[f.stem] = mods
    return res


def model_closure(mods):
    files, todo, seen = [], list(mods), set()
    while todo:
        m = todo.pop()
        if m in seen:
            continue
        seen.add(m)
        f = lb.LEAN / (m.replace(".", "/") + ".lean")
        if f.exists() and "/Model/" in str(f):
            files.append(f)
            todo += re.findall(r"^import\s+(YaqsModel\.Model\.[\w.]+)", f.read_text(), re.M)
    return files


def worker(args):
    wid, jobs, max_reqs = args
    scratch = WORK / f"w{wid}"
    if scratch.exists():
        shutil.rmtree(scratch)
    subprocess.run(["rsync", "-a", "--exclude", ".lake/tmp", str(lb.LEAN) + "/", str(scratch) + "/"], check=True)
    results = []
    reqs_cache = {}
    for job in jobs:
        mut, drivers = job
        f = scratch / mut["file"]
        orig = f.read_text()
        f.write_text(orig[:mut["start"]] + mut["rep"] + orig[mut["end"]:])
        verdict, detail = "survived", ""
        try:
            targets = sorted({m for d in drivers for m in driver_models_cached[d]})
            b = subprocess.run(["lake", "build"] + targets, cwd=scratch, capture_output=True, text=True, timeout=600)
            if b.returncode != 0:
                verdict = "stillborn"
            else:
                for d in drivers:
                    if d not in reqs_cache:
                        p = WORK / f"reqs_{d}.json"
                        pairs = json.loads(p.read_text()) if p.exists() else []
                        random.Random(d).shuffle(pairs)
                        # stratified by request kind (first token): rare kinds must not be sampled away
                        groups = {}
                        for pr in pairs:
                            groups.setdefault(pr[0].split(" ", 1)[0], []).append(pr)
                        cap = max(50, max_reqs // max(len(groups), 1))
                        reqs_cache[d] = [pr for g in groups.values() for pr in g[:cap]]
                    pairs = reqs_cache[d]
                    if not pairs:
                        continue
                    r = subprocess.run(["lake", "env", "lean", "--run", f"Driver/{d}.lean"], cwd=scratch, capture_output=True, text=True,
                                       input="\n".join(p[0] for p in pairs) + "\n", timeout=900)
                    outs = r.stdout.splitlines()
                    if r.returncode != 0 or len(outs) != len(pairs):
                        verdict, detail = "killed", f"driver {d} failed / truncated output"
                        break
                    bad = next((k for k, (o, pr) in enumerate(zip(outs, pairs)) if not vcheck.tokens_agree(o, pr[1])), None)
                    if bad is not None:
                        verdict, detail = "killed", f"{d}: {pairs[bad][0][:80]}"
                        break
        except subprocess.TimeoutExpired:
            verdict, detail = "killed", "timeout (the mutant does not terminate in time)"
        finally:
            f.write_text(orig)
        results.append(dict(mut, verdict=verdict, detail=detail, drivers=drivers))
    shutil.rmtree(scratch, ignore_errors=True)
    return results


driver_models_cached = {}


def run(per_file, workers, only, max_reqs, survivors=False):
    global driver_models_cached
    driver_models_cached = driver_models()
    file_drivers = {}
    for d, mods in driver_models_cached.items():
        if not (WORK / f"reqs_{d}.json").exists():
            continue
        for f in model_closure(mods):
            file_drivers.setdefault(f, set()).add(d)
    jobs = []
    old = []
    if survivors:   # re-test only the survivors of the previous run (after the ties or the sampling changed)
        old = json.loads((WORK / "results.json").read_text())
        keep = [r for r in old if r["verdict"] != "survived"]
        for r in old:
            if r["verdict"] == "survived":
                jobs.append(({k: r[k] for k in ("file", "start", "end", "rep", "pat", "line", "text")}, r["drivers"]))
        old = keep
    else:
        onlys = only.split(",") if only else []
        if onlys and (WORK / "results.json").exists():   # keep the earlier results of every other file
            old = [r for r in json.loads((WORK / "results.json").read_text()) if not any(o in r["file"] for o in onlys)]
        for f, ds in sorted(file_drivers.items()):
            if onlys and not any(o in str(f) for o in onlys):
                continue
            for m in mutants_of(f, per_file):
                jobs.append((m, sorted(ds)))
    random.Random(1).shuffle(jobs)
    chunks = [jobs[k::workers] for k in range(workers)]
    t0 = time.time()
    with ProcessPoolExecutor(workers) as ex:
        allres = old + [r for rs in ex.map(worker, [(k, c, max_reqs) for k, c in enumerate(chunks) if c]) for r in rs]
    (WORK / "results.json").write_text(json.dumps(allres, indent=1))
    report(allres, time.time() - t0)


def classify(allres):
    """annotate every mutant with the definition it sits in and whether that definition is run by a driver (transitively)"""
    defs, bodies = {}, {}
    for f in sorted((lb.LEAN / "YaqsModel/Model").glob("*.lean")):
        src = f.read_text()
        ms = list(re.finditer(r"^\s*(?:@\[[^\]]*\]\s*)?(?:private\s+|protected\s+)?(?:partial\s+)?(?:def|abbrev|instance|structure|inductive)\s+([\w.']+)", src, re.M))
        lst = []
        for i, m in enumerate(ms):
            end = ms[i + 1].start() if i + 1 < len(ms) else len(src)
            name = m.group(1).split(".")[-1]
            lst.append((m.start(), end, name))
            bodies[name] = lb.strip_comments(src[m.start():end])
        defs[str(f.relative_to(lb.LEAN))] = lst
    reach, todo = set(), []
    for f in (lb.LEAN / "Driver").glob("*.lean"):
        dsrc = lb.strip_comments(f.read_text())
        todo += [n for n in bodies if re.search(r"(?<![\w])" + re.escape(n) + r"(?![\w'])", dsrc)]
    while todo:
        n = todo.pop()
        if n in reach:
            continue
        reach.add(n)
        todo += [m for m in bodies if m not in reach and re.search(r"(?<![\w])" + re.escape(m) + r"(?![\w'])", bodies.get(n, ""))]
    for r in allres:
        name = next((n for a, b, n in defs.get(r["file"], []) if a <= r["start"] < b), "?")
        r["def"] = name
        r["cls"] = ("spec-only" if name not in reach else
                    "code-as-found" if re.search(r"Old|AssertLate|roundHalfEven", name) else "tied")
    return allres


def report(allres, wall):
    allres = classify(allres)
    by = {}
    for r in allres:
        by.setdefault(r["file"], []).append(r)
    lines = ["# Mutation analysis of the Lean model against the recorded answers of the real code (generated by tools/model_mutation.py)\n",
             "Each mutant is one mechanical edit of a `Model/*.lean` file (relational flip, boolean operator, min/max, off-by-one, true/false, "
             "`+`/`-`, dropped `.reverse`).  *stillborn* = does not compile; *killed* = some recorded request of a quick run of the checks gets "
             "a different answer from the mutated model than from the real code; *survived* = no recorded request tells the mutant from the "
             "model.  Survivors are split by where the mutated definition lives: **tied** = a current-code definition that a driver runs "
             "(an equivalent mutant, or a place where the tie is thin — these are the ones to look at), *code-as-found* = a second definition "
             "kept only to recognise a regression (`…Old`), *spec-only* = a predicate or helper that only theorems use (no driver runs it, so "
             "the tie cannot and need not constrain it).\n"]
    keys = ["stillborn", "killed", "tied", "code-as-found", "spec-only"]
    tot = dict.fromkeys(keys, 0)
    lines.append("| model file | mutants | stillborn | killed | survived: tied | survived: code-as-found | survived: spec-only | kill rate on tied definitions |")
    lines.append("|---|---|---|---|---|---|---|---|")

    def counts(rs):
        c = dict.fromkeys(keys, 0)
        for r in rs:
            if r["verdict"] == "survived":
                c[r["cls"]] += 1
            else:
                c[r["verdict"]] += 1
        return c

    for f in sorted(by):
        c = counts(by[f])
        for k in keys:
            tot[k] += c[k]
        kt = sum(1 for r in by[f] if r["verdict"] == "killed" and r["cls"] == "tied")
        live = kt + c["tied"]
        lines.append(f"| `{f}` | {len(by[f])} | {c['stillborn']} | {c['killed']} | {c['tied']} | {c['code-as-found']} | {c['spec-only']} | "
                     + (f"{100 * kt / live:.0f} %" if live else "–") + " |")
    kt = sum(1 for r in allres if r["verdict"] == "killed" and r["cls"] == "tied")
    lines.append(f"| **total** | {len(allres)} | {tot['stillborn']} | {tot['killed']} | {tot['tied']} | {tot['code-as-found']} | {tot['spec-only']} | "
                 f"{100 * kt / max(kt + tot['tied'], 1):.0f} % |")
    lines.append(f"\n(wall {wall:.0f} s)\n\n## Surviving mutants in tied definitions\n")
    for f in sorted(by):
        for r in by[f]:
            if r["verdict"] == "survived" and r["cls"] == "tied":
                lines.append(f"- `{f}`:{r['line']} in `{r['def']}`  `{r['pat'].strip()}` → `{r['rep'].strip() or '∅'}`   …{r['text']}…")
    (ROOT / "notes/model_mutation.md").write_text("\n".join(lines) + "\n")
    print("\n".join(lines[3:3 + len(by) + 3]))


if __name__ == "__main__":
    ap = argparse.ArgumentParser()
    ap.add_argument("cmd", choices=["collect", "run", "report"])
    ap.add_argument("--per-file", type=int, default=20)
    ap.add_argument("--workers", type=int, default=10)
    ap.add_argument("--only", default=None)
    ap.add_argument("--max-reqs", type=int, default=4000)
    ap.add_argument("--survivors", action="store_true")
    a = ap.parse_args()
    if a.cmd == "collect":
        collect()
    elif a.cmd == "run":
        run(a.per_file, a.workers, a.only, a.max_reqs, a.survivors)
    else:
        report(json.loads((WORK / "results.json").read_text()), 0)
