#!/bin/bash
# confirm every seeded change that has no "confirmed" record yet (sequential, newest round first; suite with $NP processes, niced)
cd "$(dirname "$(readlink -f "$0")")/.."
NP=${NP:-6}
for pat in '_[78]' '_[56]' '_[34]' '_[12]'; do
for d in seeded/*${pat}/; do
  [ -d "$d" ] || continue
  if ! python3 -c "import json,sys; sys.exit(0 if 'confirmed' in json.load(open('$d/meta.json')) else 1)" 2>/dev/null; then
    echo "== $d"; nice -n 10 python3 tools/seedtool.py confirm $d --np $NP > /tmp/confirm_$(basename $d).log 2>&1; tail -3 /tmp/confirm_$(basename $d).log | head -2
  fi
done
done
echo ALLDONE
