#!/bin/bash
# confirm every seeded change that has no "confirmed" record yet (sequential; suite with 8 processes)
cd "$(dirname "$(readlink -f "$0")")/.."
for d in seeded/*/; do
  if ! python3 -c "import json,sys; sys.exit(0 if 'confirmed' in json.load(open('$d/meta.json')) else 1)" 2>/dev/null; then
    echo "== $d"; python3 tools/seedtool.py confirm $d --np 8 > /tmp/confirm_$(basename $d).log 2>&1
  fi
done
echo ALLDONE
