#!/usr/bin/env python3
"""Regenerates MANIFEST.json from tools/manifest_src.json (claimed checks) — every property of properties.jsonl that is
not claimed there is listed under not_applicable with its reason."""
import json
from pathlib import Path
V = Path(__file__).resolve().parent.parent
src = json.loads((V / "tools" / "manifest_src.json").read_text())
props = [json.loads(l) for l in (V / "properties.jsonl").read_text().splitlines() if l.strip()]
checks, na = [], []
for p in props:
    pid = p["id"]
    c = src["checks"].get(pid)
    if c is None or not (V / "harness" / "impl" / f"{pid}.py").exists() or not (V / "lean" / "YaqsModel" / "Props" / f"{pid}.lean").exists():
        na.append({"property_id": pid, "reason": src.get("not_applicable", {}).get(pid, "check not built yet in this session (planned in DESIGN.md section 5); nothing is claimed for it")})
        continue
    checks.append({
        "property_id": pid,
        "quick_cmd": f"python3 harness/vcheck.py {pid} --tier quick",
        "thorough_cmd": f"python3 harness/vcheck.py {pid} --tier thorough",
        "evidence_file": f"evidence/{pid}.json",
        "replay_cmd_template": f"python3 harness/vcheck.py {pid} --replay {{path}}",
        "engine": "lean4-proof+correspondence",
        "level_claimed": {"category": "proof", "text": c["text"], "design_ref": f"DESIGN.md section 5, {pid}"},
        "level_note": c["note"],
        "technique": c["technique"],
    })
m = {
    "version": 1,
    "setup_cmd": "cd lean && lake build",
    "hooks": {"guard": "MQT_YAQS_VERIF", "enable": "no source hooks: the harness replaces module attributes of the imported package at run time (MQT_YAQS_VERIF=1 is exported for the implementation stage but no code in /repo reads it)",
              "baseline_off_cmd": "cd /repo && /venv/bin/python -m pytest -ra -q -p no:cacheprovider --timeout=900 --continue-on-collection-errors",
              "source_commits": [], "add_only": True},
    "engines": [{"name": "lean4-proof+correspondence", "path": "lean/ + harness/",
                 "serves_properties": [c["property_id"] for c in checks],
                 "kind_free_text": "Lean 4 models and theorems (lake project, no Mathlib require), tied to /repo by differential correspondence through a line-protocol driver; direct dense-linear-algebra oracles for the failing-input search"}],
    "checks": checks,
    "notes": src.get("notes", ""),
    "not_applicable": na,
}
(V / "MANIFEST.json").write_text(json.dumps(m, indent=1) + "\n")
print(f"{len(checks)} checks, {len(na)} not claimed")
