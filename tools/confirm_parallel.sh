#!/bin/bash
# confirm every seeded change that has no "confirmed" record yet, $JOBS at a time (each runs the unedited suite with $NP processes)
cd "$(dirname "$(readlink -f "$0")")/.."
NP=${NP:-5}; JOBS=${JOBS:-3}
ls -d seeded/*_[0-9]/ | sort -t_ -k2 -r | while read d; do
  python3 -c "import json,sys; sys.exit(0 if 'confirmed' in json.load(open('$d/meta.json')) else 1)" 2>/dev/null || echo $d
done | xargs -P $JOBS -I{} sh -c "nice -n 10 python3 tools/seedtool.py confirm {} --np $NP > /tmp/confirm_\$(basename {}).log 2>&1; echo \"\$(basename {}) \$(grep -c '\"ok\": true' /tmp/confirm_\$(basename {}).log)\""
echo ALLDONE
