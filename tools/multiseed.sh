#!/bin/bash
# false-alarm hunt: every check on the unchanged tree with several seeds (development runs: evidence not overwritten)
cd "$(dirname "$(readlink -f "$0")")/.."
for sd in "$@"; do
  for p in $(python3 -c "import json; print(' '.join(c['property_id'] for c in json.load(open('MANIFEST.json'))['checks']))"); do
    out=$(VERIF_SEED=$sd python3 harness/vcheck.py $p --tier quick --skip-lean 2>&1); rc=$?
    echo "seed=$sd $p rc=$rc :: $(echo "$out" | tail -1)"
    echo "$out" | grep '^VIOLATION\|HARNESS'
  done
done
echo MULTIDONE
