#!/usr/bin/env python3
"""prints the prompt for a seeding sub-agent: only the property text and its scratch worktree (nothing from /verif)"""
import json, sys
pid, wt = sys.argv[1], sys.argv[2]
round2 = len(sys.argv) > 3 and sys.argv[3] == "round2"
round3 = len(sys.argv) > 3 and sys.argv[3] == "round3"
round4 = len(sys.argv) > 3 and sys.argv[3] == "round4"
p = next(json.loads(l) for l in open('/verif/properties.jsonl') if json.loads(l)['id'] == pid)
ROUND3 = ("ROUND 3 NOTE: two earlier rounds have already tried the single line that implements the rule, simple module interactions, "
 "boundary sizes and the common optional switches. Look for DEEPER changes now: (a) a slip that only matters for a state-dependent numerical "
 "branch (a near-zero norm or probability, degenerate or exactly-zero singular values, a Krylov breakdown, a vector large enough to take the "
 "compiled path, a site tensor that is not square); (b) an input form that is legal but rare (noise strengths given as distributions, processes "
 "given with explicit 'matrix'/'factors', physical dimension 3, observables built from strings or projectors, custom initial tensors, an MPS that "
 "was padded or already has large bonds, get_state/output_state consumers, show_progress off, a single worker); (c) a lifecycle effect: the second "
 "call on the same object, a call after a caught exception, an object shared between two runs, a deep-vs-shallow copy; (d) two edits in different "
 "functions that are each harmless alone and only break the property together; (e) an arithmetic slip that is invisible for the symmetric / "
 "equal-strength / power-of-two / Hermitian inputs the tests use. Avoid changes that most ordinary inputs would expose. Number your outputs k = 5, 6.")
ROUND4 = ("ROUND 4 NOTE: three earlier rounds have tried the rule's own line, module interactions, boundary sizes, optional switches, "
 "state-dependent numerical branches, rare input forms and reused objects. Look for what is LEFT: (i) code reached only through a rarely used "
 "public entry point or keyword (pool branches of sampling, pad / rotate / to_mps / custom constructors, observables built from strings, "
 "helper methods of result objects, keyword options of run functions, circuit-library utilities); (ii) an off-by-one at the END of a loop "
 "over sites, bonds, layers or time steps that only matters for the last element or for chains of length 2 or 3; (iii) a complex-conjugation "
 "or transpose slip that is invisible for real-valued or symmetric data; (iv) a changed tolerance or threshold constant, or absolute where "
 "relative is meant (or the reverse); (v) caching or memoisation keyed too coarsely, or a default argument evaluated once; (vi) a dtype slip "
 "(a complex value cast to float, integer division, an in-place operation on a view of the caller's array); (vii) two edits in different "
 "files that are each harmless alone. Avoid changes that most ordinary inputs would expose. Number your outputs k = 7, 8.")
print(f"""You are testing how robust a Python library is against subtle regressions. The library is munich-quantum-toolkit/yaqs (a tensor-network
quantum simulator: MPS/MPO, TDVP, Tensor Jump Method, noisy circuits, equivalence checking). You have your OWN scratch git worktree of it at
{wt} (detached HEAD). Work ONLY inside that directory; never touch /repo or /verif (do not read /verif either).
Run Python as:  cd {wt} && PYTHONPATH={wt}/src /venv/bin/python ...   (this shadows the installed copy; verify with
`python -c "import mqt.yaqs; print(mqt.yaqs.__file__)"`). The test suite: `cd {wt} && PYTHONPATH={wt}/src /venv/bin/python -m pytest -q -p no:cacheprovider
--timeout=900 --numprocesses=4 -x` (about 6-8 minutes; all 387 tests pass on the unchanged worktree).

The semantic property under study:

  id: {p['id']} — {p['title']}
  statement: {p['statement']}
  must hold for: {p['quantifier']['text']}
  code it is anchored in: {', '.join(p['anchors']['files'])}

Task: produce TWO different, realistic source changes (each a small edit of files under src/, like a plausible refactoring slip, off-by-one,
wrong index/sign/ordering, missed restore, mis-keyed dictionary, wrong default …) such that EACH of them, applied alone:
  1. still imports and the whole existing test suite still passes (run it — you must actually confirm 387 passed; do not edit tests),
  2. breaks the property above on some input, and
  3. needs something SPECIFIC to manifest — an unusual but legal input (e.g. a non-symmetric state, a process list in unusual order, a cap that is not
     a power of two, a particular angle), a multi-step sequence of operations, a particular completion order / fault at a particular point, or two
     cooperating sites that each look fine alone — NOT something ordinary use would expose at once.
The two changes should touch different mechanisms (different functions/files if possible).
For each change write a demonstration `demo.py` (a small standalone program, exit code 0 = property holds on its input, exit code 1 = property
violated; it should print what it observed) that FAILS (exit 1) with the change and PASSES (exit 0) on the unchanged worktree — check both yourself
(`git stash` / `git stash pop`, or `git diff > patch; git checkout -- .`). Make the demo's pass/fail margin robust (no flaky randomness; fix seeds or
enumerate outcomes).

{("ROUND 2 NOTE: the most obvious spots (the single line that directly implements the rule) have been tried already. Prefer less obvious mechanisms: interactions between two modules, boundary sizes (chain length 1-2, first/last site, a single time step, one trajectory/shot), rarely used options (trunc_mode=" + repr("relative") + ", sample_timesteps=False, get_state=True, evolution_mode BUG, order 1 vs 2, MCWF/Lindblad solvers, parallel vs serial path, sample_layers, reversed gate orientation, long-range gates/processes, physical dimension 3), state left behind on reused objects, and helper functions that the anchored code calls. Number your outputs k = 3, 4 instead of 1, 2.") if round2 else ""}{ROUND3 if round3 else ""}{ROUND4 if round4 else ""}

Deliver, for k = {"7, 8" if round4 else "5, 6" if round3 else ("3, 4" if round2 else "1, 2")}, the files  {wt}/seed_out/{p['id']}_k/patch.diff  (output of `git diff` for that change alone, applicable with `git apply`
from the repository root),  {wt}/seed_out/{p['id']}_k/demo.py,  and  {wt}/seed_out/{p['id']}_k/meta.json  with keys: property, title (one line),
what_changed, needs_to_manifest (what specific input/sequence/schedule triggers it), why_tests_miss_it, commands_run (the exact commands and their
observed results: suite summary line with the change, demo exit code with and without the change).
Leave the worktree's tracked files UNCHANGED at the end (`git checkout -- .`), keep only seed_out/. In your final message list the two changes in
two lines each. Do not spend effort on anything else.""")
