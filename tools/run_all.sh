#!/bin/bash
# full quick run of every claimed check on /repo's current tree; prints one line per check
cd "$(dirname "$(readlink -f "$0")")/.."
for p in $(python3 -c "import json; print(' '.join(c['property_id'] for c in json.load(open('MANIFEST.json'))['checks']))"); do
  s=$(date +%s); out=$(VERIF_SEED=${VERIF_SEED:-0} python3 harness/vcheck.py $p --tier ${1:-quick} 2>&1); rc=$?
  echo "$p rc=$rc $(( $(date +%s) - s ))s $(echo "$out" | grep -c '^KNOWN-FINDING') known :: $(echo "$out" | tail -1)"
  echo "$out" | grep '^VIOLATION'
done
