#!/bin/bash
# every seeded change against the check of its own property (scratch worktree + PYTHONPATH shadowing)
cd "$(dirname "$(readlink -f "$0")")/.."
for d in seeded/*/; do
  s=$(basename $d); p=${s%%_*}
  python3 tools/seedtool.py check $d $p > /tmp/seedm_$s.log 2>&1
  tail -1 /tmp/seedm_$s.log | cut -c1-140
done
echo MATRIXDONE
