#!/bin/bash
# Runs the unedited pinned suite at every commit of /repo after the pinned snapshot, in scratch clones
# outside /repo and /verif (removed afterwards).  Usage: validate_fix_commits.sh [base] [outfile]
BASE=${1:-fbd65b8}
OUT=${2:-/verif/notes/fix_commit_suite_results.txt}
PAR=${PAR:-2}
NP=${NP:-6}
SCR=$(mktemp -d /tmp/fixcheck.XXXXXX)
: > "$OUT.tmp"
run_one() {
  sha=$1
  d=$SCR/$sha
  git clone -q /repo "$d" && git -C "$d" checkout -q "$sha" && cp /repo/src/mqt/yaqs/_version.py "$d/src/mqt/yaqs/_version.py"
  # tests must be the unedited pinned ones
  if ! git -C "$d" diff --quiet "$BASE" -- tests; then echo "$sha TESTS-EDITED" >> "$OUT.tmp"; rm -rf "$d"; return; fi
  res=$(cd "$d" && PYTHONPATH="$d/src" timeout -s KILL 1800 /venv/bin/python -m pytest -q -p no:cacheprovider --timeout=900 --numprocesses=$NP 2>&1 | tail -n 3 | tr '\n' ' ')
  echo "$sha $(git -C /repo log -1 --format=%s "$sha" | cut -c1-70) :: $res" >> "$OUT.tmp"
  rm -rf "$d"
}
export -f run_one; export SCR OUT BASE NP
git -C /repo rev-list --reverse "$BASE"..HEAD | xargs -P "$PAR" -I{} bash -c 'run_one {}'
# order by commit history
for sha in $(git -C /repo rev-list --reverse "$BASE"..HEAD); do grep "^$sha" "$OUT.tmp"; done > "$OUT"
rm -f "$OUT.tmp"; rm -rf "$SCR"
echo done >> "$OUT"
