#!/bin/bash
# development tool: which functions of mqt.yaqs do the implementation stages of the checks execute?
# (numba-compiled kernels and code run in worker subprocesses are not traced.)  Writes notes/coverage_map.md
cd "$(dirname "$(readlink -f "$0")")/.."
D=$(mktemp -d /var/tmp/yaqscov.XXXX)
props=$(python3 -c "import json; print(' '.join(c['property_id'] for c in json.load(open('MANIFEST.json'))['checks']))")
echo $props | tr ' ' '\n' | xargs -P 8 -I{} sh -c "VERIF_COVERAGE_DIR=$D python3 harness/vcheck.py {} --tier quick --skip-lean > $D/{}.log 2>&1; tail -1 $D/{}.log"
cd $D && /venv/bin/python -m coverage combine --data-file=$D/.coverage $D/.coverage.* >/dev/null
/venv/bin/python -m coverage json --data-file=$D/.coverage -o $D/cov.json >/dev/null
cd - >/dev/null
/venv/bin/python tools/coverage_report.py $D/cov.json > notes/coverage_map.md
rm -rf $D
tail -5 notes/coverage_map.md
