#!/usr/bin/env python3
"""Seeded-change tooling.

  seedtool.py confirm <seed_dir> [--np 6]     confirm a seeded change in a scratch worktree of /repo (outside /repo and /verif):
                                             patch applies, demo fails with it (exit 1) and passes without it (exit 0), the unedited
                                             suite passes with it.  Writes the outcome into <seed_dir>/meta.json under "confirmed".
  seedtool.py check <seed_dir> [props…]      run the registered quick checks (default: the seed's property) against a scratch worktree
                                             with the patch applied (PYTHONPATH shadows the editable install), record which fire.
  seedtool.py check-inplace <seed_dir> [props…]   same, but the way the brief describes it: git -C /repo apply, run, git checkout -- .
"""
from __future__ import annotations

import json
import os
import re
import shutil
import subprocess
import sys
import tempfile
import time
from pathlib import Path

VERIF = Path(__file__).resolve().parent.parent
REPO = Path("/repo")
PY = "/venv/bin/python"


def sh(cmd, cwd=None, env=None, timeout=None):
    p = subprocess.run(cmd, cwd=cwd, env=env, capture_output=True, text=True, timeout=timeout, shell=isinstance(cmd, str))
    return p.returncode, p.stdout + p.stderr


def make_worktree():
    d = tempfile.mkdtemp(prefix="seedrun_", dir="/tmp")
    os.rmdir(d)
    rc, out = sh(["git", "-C", str(REPO), "worktree", "add", "--detach", d, "HEAD", "-q"])
    if rc != 0:
        raise RuntimeError(out)
    shutil.copy(REPO / "src/mqt/yaqs/_version.py", Path(d) / "src/mqt/yaqs/_version.py")
    return Path(d)


def drop_worktree(d):
    sh(["git", "-C", str(REPO), "worktree", "remove", "--force", str(d)])
    shutil.rmtree(d, ignore_errors=True)


def env_for(wt):
    e = dict(os.environ)
    e["PYTHONPATH"] = f"{wt}/src"
    return e


def confirm(seed: Path, nproc: int):
    meta_f = seed / "meta.json"
    meta = json.loads(meta_f.read_text()) if meta_f.exists() else {}
    wt = make_worktree()
    res = {"at": time.strftime("%Y-%m-%d %H:%M:%S"), "repo_head": sh(["git", "-C", str(REPO), "rev-parse", "--short", "HEAD"])[1].strip()}
    try:
        env = env_for(wt)
        demo = seed / "demo.py"
        rc0, out0 = sh([PY, "-u", str(demo)], cwd=wt, env=env, timeout=1800)
        res["demo_without_change_exit"] = rc0
        rc, out = sh(["git", "apply", "--whitespace=nowarn", str(seed / "patch.diff")], cwd=wt)
        res["patch_applies"] = rc == 0
        if rc != 0:
            res["apply_error"] = out[-500:]
        else:
            rc1, out1 = sh([PY, "-u", str(demo)], cwd=wt, env=env, timeout=1800)
            res["demo_with_change_exit"] = rc1
            res["demo_with_change_tail"] = out1[-400:]
            rc2, out2 = sh([PY, "-m", "pytest", "-q", "-p", "no:cacheprovider", "--timeout=900", f"--numprocesses={nproc}"], cwd=wt, env=env, timeout=3600)
            m = re.findall(r"(\d+) passed|(\d+) failed|(\d+) error", out2)
            res["suite_summary"] = out2.strip().splitlines()[-1] if out2.strip() else ""
            res["suite_passes"] = rc2 == 0
            res["tests_untouched"] = sh(["git", "diff", "--quiet", "HEAD", "--", "tests"], cwd=wt)[0] == 0
        res["ok"] = bool(res.get("patch_applies") and res.get("demo_without_change_exit") == 0 and
                         res.get("demo_with_change_exit") not in (0, None) and res.get("suite_passes") and res.get("tests_untouched"))
    finally:
        drop_worktree(wt)
    meta["confirmed"] = res
    meta_f.write_text(json.dumps(meta, indent=1))
    print(json.dumps(res, indent=1))
    return 0 if res.get("ok") else 1


def run_checks(seed: Path, props, inplace: bool):
    meta_f = seed / "meta.json"
    meta = json.loads(meta_f.read_text()) if meta_f.exists() else {}
    if not props:
        props = [seed.name.split("_")[0]]
    results = {}
    if inplace:
        rc, out = sh(["git", "-C", str(REPO), "apply", "--whitespace=nowarn", str(seed / "patch.diff")])
        if rc != 0:
            print("patch does not apply:", out)
            return 2
        env = dict(os.environ)
        wt = None
    else:
        wt = make_worktree()
        rc, out = sh(["git", "apply", "--whitespace=nowarn", str(seed / "patch.diff")], cwd=wt)
        if rc != 0:
            drop_worktree(wt)
            print("patch does not apply:", out)
            return 2
        env = env_for(wt)
    try:
        for p in props:
            t0 = time.time()
            rc, out = sh(["python3", "harness/vcheck.py", p, "--tier", "quick", "--skip-lean"], cwd=VERIF, env=env, timeout=3000)
            viol = [l for l in out.splitlines() if l.startswith("VIOLATION")]
            results[p] = {"exit": rc, "violations": viol[:5], "summary": out.strip().splitlines()[-1] if out.strip() else "",
                          "wall_s": round(time.time() - t0, 1),
                          "with_failing_input": any("no-failing-input-found" not in v for v in viol)}
            print(p, rc, viol[:2], results[p]["summary"])
    finally:
        if inplace:
            sh(["git", "-C", str(REPO), "checkout", "--", "."])
        else:
            drop_worktree(wt)
    meta["checks_run"] = {k: v for k, v in meta.get("checks_run", {}).items() if re.fullmatch(r"C\d+", k)}
    meta["checks_run"].update(results)
    meta["caught_by"] = sorted(p for p, r in meta["checks_run"].items() if r["exit"] == 1)
    meta_f.write_text(json.dumps(meta, indent=1))
    return 0


if __name__ == "__main__":
    cmd, seed = sys.argv[1], Path(sys.argv[2]).resolve()
    rest = sys.argv[3:]
    if cmd == "confirm":
        nproc = int(rest[rest.index("--np") + 1]) if "--np" in rest else 6
        sys.exit(confirm(seed, nproc))
    sys.exit(run_checks(seed, [r for r in rest if not r.startswith("-")], cmd == "check-inplace"))
