/-! probe: run_backend_parallel as a transition system -/
inductive Outcome | ok | retryable | fatal deriving DecidableEq, Repr
inductive Status | running | raised (job : Nat) deriving DecidableEq, Repr

structure St where
  nJobs : Nat
  maxInflight : Nat
  maxRetries : Nat
  inflight : List Nat          -- job index of each in-flight attempt, submission order
  next : Nat
  retries : List Nat           -- retries[i]
  yielded : List Nat
  status : Status
  deriving Repr

def fill (s : St) : Nat → St
  | 0 => s
  | fuel+1 =>
    if s.next < s.nJobs ∧ s.inflight.length < s.maxInflight then
      fill { s with inflight := s.inflight ++ [s.next], next := s.next + 1 } fuel
    else s

def init (nJobs workers maxRetries : Nat) : St :=
  fill { nJobs, maxInflight := 2 * workers, maxRetries, inflight := [], next := 0,
         retries := List.replicate nJobs 0, yielded := [], status := .running } nJobs

def step (s : St) (pos : Nat) (o : Outcome) : St :=
  match s.status with
  | .raised _ => s
  | .running =>
    if h : pos < s.inflight.length then
      let i := s.inflight[pos]
      let rest := s.inflight.eraseIdx pos
      match o with
      | .ok =>
        let s1 := { s with inflight := rest, yielded := s.yielded ++ [i] }
        if s1.next < s1.nJobs then { s1 with inflight := s1.inflight ++ [s1.next], next := s1.next + 1 } else s1
      | .retryable =>
        if s.retries.getD i 0 < s.maxRetries then
          { s with inflight := rest ++ [i], retries := s.retries.set i (s.retries.getD i 0 + 1) }
        else { s with inflight := rest, status := .raised i }
      | .fatal => { s with inflight := rest, status := .raised i }
    else s

theorem fill_inflight_le (s : St) (fuel : Nat) (h : s.inflight.length ≤ s.maxInflight) :
    (fill s fuel).inflight.length ≤ (fill s fuel).maxInflight ∧ (fill s fuel).maxInflight = s.maxInflight := by
  induction fuel generalizing s with
  | zero => simp [fill, h]
  | succ n ih =>
    unfold fill
    split
    · rename_i hc
      have := ih { s with inflight := s.inflight ++ [s.next], next := s.next + 1 } (by simp; omega)
      simpa using this
    · simp [h]

theorem step_inflight_le (s : St) (pos : Nat) (o : Outcome)
    (h : s.inflight.length ≤ s.maxInflight) :
    (step s pos o).inflight.length ≤ (step s pos o).maxInflight := by
  unfold step
  split
  · exact h
  · split
    · rename_i hp
      cases o <;> simp only
      · split <;> simp [List.length_eraseIdx, hp] <;> omega
      · split <;> simp [List.length_eraseIdx, hp] <;> omega
      · simp [List.length_eraseIdx, hp]; omega
    · exact h
#print axioms step_inflight_le
#eval (init 5 1 2)
#eval [ (0,Outcome.ok), (0,.retryable), (1,.ok), (0,.ok), (0,.ok),(0,.ok)].foldl (fun s e => step s e.1 e.2) (init 5 1 2)
