import Mathlib.Data.Matrix.Basic
import Mathlib.Algebra.BigOperators.Group.List.Basic
/-! probe (type-checked during the design phase): an MPS gauge move leaves the chain product unchanged,
    for every length, every uniform bond index type, every commutative ring -/
open Matrix
variable {K : Type*} [CommRing K] {ι σ : Type*} [Fintype ι] [DecidableEq ι]
abbrev Site (σ ι K : Type*) := σ → Matrix ι ι K
def chain (ts : List (Site σ ι K)) (cfg : List σ) : Matrix ι ι K :=
  (List.zipWith (fun A s => A s) ts cfg).prod
theorem chain_cons (A : Site σ ι K) (ts : List (Site σ ι K)) (s : σ) (cfg : List σ) :
    chain (A :: ts) (s :: cfg) = A s * chain ts cfg := by simp [chain]
theorem gauge_pair (Q A B : Site σ ι K) (R : Matrix ι ι K) (hA : ∀ s, A s = Q s * R)
    (post : List (Site σ ι K)) (s t : σ) (cfg : List σ) :
    chain (Q :: (fun u => R * B u) :: post) (s :: t :: cfg) = chain (A :: B :: post) (s :: t :: cfg) := by
  simp only [chain_cons, hA, Matrix.mul_assoc]
theorem gauge_any (pre post : List (Site σ ι K)) (Q A B : Site σ ι K) (R : Matrix ι ι K)
    (hA : ∀ s, A s = Q s * R) (cfg : List σ) (hlen : pre.length + 2 ≤ cfg.length) :
    chain (pre ++ Q :: (fun u => R * B u) :: post) cfg = chain (pre ++ A :: B :: post) cfg := by
  induction pre generalizing cfg with
  | nil =>
    match cfg, hlen with
    | s :: t :: cfg, _ => simpa using gauge_pair Q A B R hA post s t cfg
  | cons P pre ih =>
    match cfg, hlen with
    | s :: cfg, h =>
      simp only [List.cons_append, chain_cons]
      rw [ih cfg (by simp at h ⊢; omega)]
