import Mathlib.Tactic.Linarith
import Mathlib.Data.Rat.Defs
/-! probe (type-checked during the design phase, ~1 s after Mathlib load):
    the repaired rank rule is bounded by max(cap, floor) for every spectrum -/
def dropCount (thr : Rat) : List Rat → Rat → Nat → Nat
  | [], _, idx => idx
  | s :: rest, discard, idx =>
    let next := discard + s * s
    if next > thr then idx else dropCount thr rest next (idx + 1)

def keepDW (s : List Rat) (thr : Rat) (minBond maxBond : Nat) : Nat :=
  let len := s.length
  let idx := dropCount thr s.reverse 0 0
  if idx = len then min len maxBond
  else min (max (len - idx) (min len minBond)) (max maxBond (min len minBond))

theorem keepDW_le (s : List Rat) (thr : Rat) (mn mx : Nat) :
    keepDW s thr mn mx ≤ max mx mn := by
  unfold keepDW
  simp only
  split <;> omega
-- NOTE for the real model: return the count directly (`1 + dropN …`) instead of threading `idx`;
-- the weight lemma `d + sqsum (l.take (dropN thr l d)) ≤ thr` is then a plain induction.
