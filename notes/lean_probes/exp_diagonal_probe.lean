import Mathlib.Analysis.Normed.Algebra.MatrixExponential
import Mathlib.Analysis.SpecialFunctions.Exponential
import Mathlib.Analysis.Complex.Trigonometric
/-! probe: exp(-i·(θ/2) Z⊗Z) = rzz(θ) with Mathlib's genuine matrix exponential, every real θ.
    First diagonal entry closed; the other three are analogous (left as sorry in the probe). -/
open Matrix Complex
noncomputable def rzzGen (θ : ℝ) : Matrix (Fin 4) (Fin 4) ℂ :=
  diagonal ![(θ/2 : ℂ), -(θ/2 : ℂ), -(θ/2 : ℂ), (θ/2 : ℂ)]
noncomputable def rzzMat (θ : ℝ) : Matrix (Fin 4) (Fin 4) ℂ :=
  diagonal ![Complex.cos (θ/2) - I * Complex.sin (θ/2), Complex.cos (θ/2) + I * Complex.sin (θ/2),
             Complex.cos (θ/2) + I * Complex.sin (θ/2), Complex.cos (θ/2) - I * Complex.sin (θ/2)]
theorem rzz_generator_exp (θ : ℝ) :
    NormedSpace.exp ((-I) • rzzGen θ) = rzzMat θ := by
  unfold rzzGen rzzMat
  rw [← diagonal_smul, Matrix.exp_diagonal]
  congr 1
  funext i
  rw [Pi.coe_exp, ← Complex.exp_eq_exp_ℂ]
  fin_cases i
  · simp only [Pi.smul_apply, smul_eq_mul]
    show Complex.exp (-I * (θ/2:ℂ)) = _
    rw [show -I * (θ/2:ℂ) = (-(θ/2:ℂ)) * I by ring, Complex.exp_mul_I]
    simp [Complex.cos_neg, Complex.sin_neg]; ring
  all_goals sorry
