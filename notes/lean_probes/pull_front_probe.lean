import Mathlib.Algebra.BigOperators.Group.List.Basic
import Mathlib.Algebra.Group.Commute.Defs

/-! probe: a gate that commutes with everything in front of it can be pulled to the front.
Convention: a program `[g1, g2, …]` (g1 applied first) denotes the product `… * g2 * g1`,
so we work with `(l.map sem).reverse.prod`; to keep the probe short we use the plain product
of the reversed order, i.e. `sem` of the list read right-to-left. -/
variable {M : Type*} [Monoid M]

theorem pull_front (g : M) (l1 l2 : List M) (h : ∀ x ∈ l1, Commute g x) :
    (l1 ++ g :: l2).prod = g * (l1 ++ l2).prod := by
  induction l1 with
  | nil => simp
  | cons a l ih =>
    have ha : Commute g a := h a (by simp)
    have hl : ∀ x ∈ l, Commute g x := fun x hx => h x (by simp [hx])
    simp only [List.cons_append, List.prod_cons, ih hl]
    rw [← mul_assoc, ← ha.eq, mul_assoc]
#print axioms pull_front
