"""Lean side of a check: build, audit (forbidden tokens + axioms), obligations, driver I/O.

Pure stdlib; runs under any python3.
"""
from __future__ import annotations

import json
import os
import re
import subprocess
import time
from pathlib import Path

VERIF = Path(__file__).resolve().parent.parent
LEAN = Path(os.environ.get("VERIF_LEAN_DIR", str(VERIF / "lean")))  # override only for development copies
ALLOWED_AXIOMS = {"propext", "Classical.choice", "Quot.sound"}
FORBIDDEN = re.compile(r"\b(sorry|admit|native_decide|bv_decide|implemented_by|unsafe)\b|^\s*axiom\s|maxHeartbeats\s+0\b", re.M)


def _run(cmd, cwd=None, timeout=None, inp=None):
    t0 = time.time()
    try:
        p = subprocess.run(cmd, cwd=cwd, input=inp, capture_output=True, text=True, timeout=timeout)
        return p.returncode, p.stdout, p.stderr, time.time() - t0
    except subprocess.TimeoutExpired as e:
        return 124, (e.stdout or b"").decode() if isinstance(e.stdout, bytes) else (e.stdout or ""), "timeout", time.time() - t0


def strip_comments(src: str) -> str:
    """Remove Lean block comments (nested) and line comments."""
    out = []
    i, depth, n = 0, 0, len(src)
    while i < n:
        if src.startswith("/-", i):
            depth += 1
            i += 2
            continue
        if depth and src.startswith("-/", i):
            depth -= 1
            i += 2
            continue
        if depth:
            if src[i] == "\n":
                out.append("\n")
            i += 1
            continue
        if src.startswith("--", i):
            j = src.find("\n", i)
            i = n if j < 0 else j
            continue
        out.append(src[i])
        i += 1
    return "".join(out)


def import_closure(module: str) -> list[Path]:
    """Files of this project reachable from `module` through `import YaqsModel.…` lines."""
    seen, todo, files = set(), [module], []
    while todo:
        m = todo.pop()
        if m in seen:
            continue
        seen.add(m)
        f = LEAN / (m.replace(".", "/") + ".lean")
        if not f.exists():
            continue
        files.append(f)
        for mm in re.findall(r"^import\s+((?:YaqsModel|Driver)\.[\w.]+)", f.read_text(), re.M):
            todo.append(mm)
    return files


def theorems_of(path: Path) -> list[str]:
    """Fully qualified names of the `theorem`s declared in a Props file (namespace-aware, private skipped)."""
    src = strip_comments(path.read_text())
    ns: list[str] = []
    names = []
    for line in src.splitlines():
        m = re.match(r"^\s*namespace\s+([\w.]+)", line)
        if m:
            ns.append(m.group(1))
            continue
        m = re.match(r"^\s*end\s+([\w.]+)", line)
        if m and ns and ns[-1] == m.group(1):
            ns.pop()
            continue
        m = re.match(r"^\s*(?:@\[[^\]]*\]\s*)?(private\s+|protected\s+)?theorem\s+([\w.'!?]+)", line)
        if m and not (m.group(1) or "").startswith("private"):
            names.append(".".join(ns + [m.group(2)]))
    return names


def build(module: str, timeout=1500):
    rc, out, err, dt = _run(["lake", "build", module], cwd=LEAN, timeout=timeout)
    return rc == 0, (out + err)[-6000:], dt


def audit_tokens(module: str, extra: list[Path] = ()):  # noqa: B006
    hits = []
    for f in list(import_closure(module)) + list(extra):
        src = strip_comments(f.read_text())
        for m in FORBIDDEN.finditer(src):
            line = src.count("\n", 0, m.start()) + 1
            hits.append(f"{f.name}:{line}: {m.group(0).strip()}")
    return hits


def axioms_of(module: str, names: list[str], timeout=900):
    """`#print axioms` for every name; returns {name: [axioms]} or {name: None} if lean failed on it."""
    tmpdir = LEAN / ".lake" / "tmp"
    tmpdir.mkdir(parents=True, exist_ok=True)
    f = tmpdir / f"axioms_{module.replace('.', '_')}_{os.getpid()}.lean"
    f.write_text(f"import {module}\n" + "".join(f"#print axioms {n}\n" for n in names))
    rc, out, err, _ = _run(["lake", "env", "lean", str(f)], cwd=LEAN, timeout=timeout)
    f.unlink(missing_ok=True)
    res: dict[str, list[str] | None] = {n: None for n in names}
    text = out + err
    for m in re.finditer(r"'([^']+)' depends on axioms: \[([^\]]*)\]", text, re.S):
        res[m.group(1)] = [a.strip() for a in m.group(2).replace("\n", " ").split(",") if a.strip()]
    for m in re.finditer(r"'([^']+)' does not depend on any axioms", text):
        res[m.group(1)] = []
    return res, text[-3000:] if rc != 0 else ""


def leanchecker(module: str, timeout=1800):
    rc, out, err, dt = _run(["lake", "env", "leanchecker", module], cwd=LEAN, timeout=timeout)
    return rc == 0, (out + err)[-2000:], dt


def _run_driver_chunk(args):
    driver, lines, timeout = args
    rc, out, err, _ = _run(["lake", "env", "lean", "--run", f"Driver/{driver}.lean"], cwd=LEAN,
                           timeout=timeout, inp="\n".join(lines) + "\n")
    if rc != 0:
        return None, ("timeout" if rc == 124 else "") + (out + err)[-3000:]
    res = out.splitlines()
    if len(res) != len(lines):
        return None, f"driver returned {len(res)} lines for {len(lines)} requests\n" + (out + err)[-2000:]
    return res, ""


def run_driver(driver: str, lines: list[str], timeout=1800) -> tuple[list[str] | None, str]:
    """Pipe request lines through `lake env lean --run Driver/<driver>.lean` (the requests are independent of each other, so they
    are spread over several interpreter processes; the answers come back in request order)."""
    if not lines:
        return [], ""
    for ln in lines:
        if "\n" in ln:
            raise ValueError("request line contains newline")
    nproc = max(1, min(os.cpu_count() or 1, 12, len(lines) // 150))
    if nproc == 1:
        return _run_driver_chunk((driver, lines, timeout))
    size = -(-len(lines) // nproc)
    chunks = [lines[k:k + size] for k in range(0, len(lines), size)]
    from concurrent.futures import ThreadPoolExecutor

    with ThreadPoolExecutor(len(chunks)) as ex:
        parts = list(ex.map(_run_driver_chunk, [(driver, c, timeout) for c in chunks]))
    outs = []
    for res, err in parts:
        if res is None:
            return None, err
        outs += res
    return outs, ""


def lean_stage(prop: str, tier: str) -> dict:
    """Build Props.<prop>, audit tokens and axioms.  Returns a dict with `ok`, `obligations`, `discharged`, …"""
    module = f"YaqsModel.Props.{prop}"
    pf = LEAN / "YaqsModel" / "Props" / f"{prop}.lean"
    info: dict = {"module": module, "broken": []}
    names = theorems_of(pf) if pf.exists() else []
    info["theorems"] = names
    info["obligations"] = len(names)
    ok, log, dt = build(module)
    info["build_s"] = round(dt, 1)
    if not ok or not names:
        info["ok"] = False
        info["discharged"] = 0
        # which theorems fail?  parse error lines
        info["broken"] = sorted(set(re.findall(r"error: ([^\n]*)", log)))[:20] or ["build failed: " + log[-800:]]
        info["log"] = log
        return info
    hits = audit_tokens(module)
    info["forbidden_tokens"] = hits
    ax, axlog = axioms_of(module, names)
    bad = {n: a for n, a in ax.items() if a is None or not set(a) <= ALLOWED_AXIOMS}
    info["axioms"] = {n: a for n, a in ax.items()}
    info["axioms_used"] = sorted({x for a in ax.values() if a for x in a})
    info["discharged"] = len(names) - len(bad)
    if hits:
        info["broken"] += [f"forbidden token {h}" for h in hits]
    if bad:
        info["broken"] += [f"theorem {n}: axioms {a}" for n, a in bad.items()]
        info["log"] = axlog
    if tier == "thorough":
        okc, logc, dtc = leanchecker(module)
        info["leanchecker_ok"] = okc
        info["leanchecker_s"] = round(dtc, 1)
        if not okc:
            info["broken"].append("leanchecker rejected " + module + ": " + logc[-400:])
    info["ok"] = not info["broken"]
    return info


if __name__ == "__main__":
    import sys

    print(json.dumps(lean_stage(sys.argv[1], sys.argv[2] if len(sys.argv) > 2 else "quick"), indent=1))
