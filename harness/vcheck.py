#!/usr/bin/env python3
"""Entry point of every check:  python3 harness/vcheck.py Cxx --tier quick|thorough   (DESIGN.md §2.4)

 1. Lean stage: build Props/Cxx, audit forbidden tokens and `#print axioms` of every property theorem.
 2. Implementation stage (run by /venv/bin/python against /repo's working tree): corpus + seeded cases, each with
    the request line for the Lean driver, the implementation's canonical answer, and a direct property oracle.
 3. Correspondence: driver output vs implementation output.
 4. Decision: all green -> exit 0.  Anything red -> failing-input search; VIOLATION line with a replay; exit 1.
    Harness trouble / timeouts -> exit 2 (never reported as a violation).
"""
from __future__ import annotations

import argparse
import hashlib
import json
import os
import subprocess
import sys
import tempfile
import time
from fractions import Fraction
from pathlib import Path

HERE = Path(__file__).resolve().parent
VERIF = HERE.parent
sys.path.insert(0, str(HERE))
import leanbridge  # noqa: E402

PY = os.environ.get("YAQS_PYTHON", "/venv/bin/python")
GUARD = "MQT_YAQS_VERIF"

TRUSTED_BASE = [
    "Lean 4.33 kernel (leanchecker re-check in the thorough tier)",
    "axioms: propext, Classical.choice, Quot.sound only (audited per theorem on every run); no sorry/admit/native_decide/bv_decide/own axioms",
    "hand-written Lean model; tied to /repo's working tree by the correspondence harness (harness/impl/*.py + Driver/*.lean parser/printer)",
    "exact-vs-binary64 gap: models are exact over Q on the implementation's own floats; numeric fields compared at 1e-9, razor-edge decisions skipped and counted",
]


def parse_num(tok: str):
    try:
        return Fraction(tok)
    except (ValueError, ZeroDivisionError):
        return None


def tokens_agree(a: str, b: str, rtol=1e-9, atol=1e-11) -> bool:
    ta, tb = a.split(), b.split()
    if len(ta) != len(tb):
        return False
    for x, y in zip(ta, tb):
        if x == y:
            continue
        fx, fy = parse_num(x), parse_num(y)
        if fx is None or fy is None:
            return False
        if "/" not in x and "/" not in y and "." not in x and "." not in y and "e" not in x.lower() and "e" not in y.lower():
            return False  # two different integers
        d = abs(float(fx) - float(fy))
        if d > atol + rtol * max(abs(float(fx)), abs(float(fy))):
            return False
    return True


def run_impl(prop: str, seed: int, tier: str, timeout: int, replay: str | None = None):
    script = HERE / "impl" / f"{prop}.py"
    with tempfile.TemporaryDirectory(prefix=f"vcheck_{prop}_") as td:
        out = Path(td) / "out.json"
        cmd = [PY, "-u", str(script), "--seed", str(seed), "--tier", tier, "--out", str(out)]
        covdir = os.environ.get("VERIF_COVERAGE_DIR")
        if covdir:  # development only (tools/coverage_map.sh): which lines of mqt.yaqs does the tie execute
            cmd = [PY, "-u", "-m", "coverage", "run", f"--data-file={covdir}/.coverage.{prop}.{tier}.{os.getpid()}",
                   "--source=mqt.yaqs"] + cmd[2:]
        if replay:
            cmd += ["--replay", replay]
        env = dict(os.environ)
        env[GUARD] = "1"
        env.setdefault("OMP_NUM_THREADS", "1")
        env.setdefault("OPENBLAS_NUM_THREADS", "1")
        env.setdefault("MKL_NUM_THREADS", "1")
        env["PYTHONPATH"] = str(HERE) + os.pathsep + env.get("PYTHONPATH", "")
        t0 = time.time()
        try:
            p = subprocess.run(cmd, capture_output=True, text=True, timeout=timeout, env=env, cwd=str(VERIF))
        except subprocess.TimeoutExpired:
            return None, f"implementation stage timed out after {timeout}s", time.time() - t0
        if p.returncode != 0 or not out.exists():
            return None, f"implementation stage crashed (rc={p.returncode})\n{p.stdout[-3000:]}\n{p.stderr[-6000:]}", time.time() - t0
        return json.loads(out.read_text()), p.stderr[-2000:], time.time() - t0


def load_known():
    f = VERIF / "known_findings.json"
    if not f.exists():
        return []
    return json.loads(f.read_text()).get("findings", [])


def write_replay(prop: str, payload: dict) -> str:
    d = VERIF / "replays"
    d.mkdir(exist_ok=True)
    h = hashlib.sha1(json.dumps(payload, sort_keys=True, default=str).encode()).hexdigest()[:12]
    f = d / f"{prop}-{h}.json"
    payload = dict(payload)
    payload["property"] = prop
    payload["replay_cmd"] = f"python3 harness/vcheck.py {prop} --replay replays/{f.name}"
    f.write_text(json.dumps(payload, indent=1, default=str))
    return f"replays/{f.name}"


def main() -> int:
    ap = argparse.ArgumentParser()
    ap.add_argument("prop")
    ap.add_argument("--tier", default=os.environ.get("VERIF_TIER", "quick"), choices=["quick", "thorough"])
    ap.add_argument("--replay", default=None)
    ap.add_argument("--skip-lean", action="store_true", help="development only")
    args = ap.parse_args()
    prop, tier = args.prop, args.tier
    try:
        seed = int(os.environ.get("VERIF_SEED", "0"))
    except ValueError:
        seed = 0
    t0 = time.time()
    impl_timeout = 900 if tier == "quick" else 5400

    # ---------------------------------------------------------------- 1. Lean
    if args.skip_lean:
        lean = {"ok": True, "obligations": 0, "discharged": 0, "theorems": [], "broken": [], "axioms_used": []}
    else:
        lean = leanbridge.lean_stage(prop, tier)
    broken_obligations = list(lean.get("broken", []))

    # ---------------------------------------------------------------- 2. implementation
    replay_file = None
    if args.replay:
        replay_file = str((VERIF / args.replay).resolve()) if not os.path.isabs(args.replay) else args.replay
    data, note, impl_s = run_impl(prop, seed, tier, impl_timeout, replay_file)
    if data is None:
        print(f"HARNESS-ERROR property={prop}: {note}", flush=True)
        return 2

    cases = data.get("cases", [])
    driver = data.get("driver")
    # ---------------------------------------------------------------- 3. correspondence
    tied = [c for c in cases if c.get("req") is not None and not c.get("edge")]
    outs, derr = leanbridge.run_driver(driver, [c["req"] for c in tied]) if tied else ([], "")
    broken_corr = []
    if outs is None:
        # the model driver itself did not run to the end (interpreter crash, time limit): that is trouble on the verification side,
        # not an observation about the code — never a violation
        print(f"HARNESS-ERROR property={prop}: model driver {driver} failed: {str(derr)[-1500:]}", flush=True)
        return 2
    mismatches = []
    for c, o in zip(tied, outs):
        c["model"] = o
        if not tokens_agree(o, c["impl"]):
            mismatches.append(c)
    oracle_fail = [c for c in cases if c.get("oracle") and c["oracle"].get("ok") is False]
    spec_fail = [s for s in data.get("spec", []) if not s.get("ok", True)]

    # ---------------------------------------------------------------- 4. decision
    known = [k for k in load_known() if k.get("property") == prop and k.get("status") == "finding"]
    known_keys = {k["key"]: k for k in known}
    violations = []      # (replay_path, suffix)
    known_hit = {}

    def report_failing(c, kind="failing-input"):
        key = c.get("key") or c.get("id")
        if key in known_keys:
            known_hit[key] = known_keys[key]
            return
        path = write_replay(prop, {"kind": kind, "case": c, "expected": "property holds (see oracle.detail)",
                                   "observed": c.get("oracle"), "seed": seed, "tier": tier})
        violations.append((path, ""))

    seen_sigs = set()
    for c in oracle_fail:
        sig = str(c.get("key") or c.get("sig") or c.get("kind"))
        if sig in seen_sigs or len(violations) >= 3:
            key = c.get("key")
            if key in known_keys:
                known_hit[key] = known_keys[key]
            continue
        seen_sigs.add(sig)
        report_failing(c)

    red = bool(broken_obligations or broken_corr or mismatches or spec_fail)
    search_info = None
    if red and not violations:
        # failing-input search: the disagreeing cases first (their oracles ran already), then a seeded neighbourhood
        sdata, snote, _ = run_impl(prop, seed + 7919, "search", impl_timeout)
        found = []
        if sdata is not None:
            found = [c for c in sdata.get("cases", []) if c.get("oracle") and c["oracle"].get("ok") is False]
        search_info = {"searched": len(sdata.get("cases", [])) if sdata else 0, "found": len(found)}
        for c in found[:5]:
            report_failing(c)
        if not violations:
            payload = {
                "kind": "broken-obligation" if broken_obligations else "broken-correspondence",
                "no_longer_checks": broken_obligations or
                [f"correspondence {driver}:{c.get('kind')} id={c.get('id')}" for c in mismatches[:20]] or
                [f"spec tie {s.get('name')}" for s in spec_fail] or [str(b) for b in broken_corr],
                "mismatches": [{k: c.get(k) for k in ("id", "kind", "req", "impl", "model", "input")} for c in mismatches[:10]],
                "spec_failures": spec_fail[:10],
                "driver_error": broken_corr,
                "search": search_info,
                "seed": seed, "tier": tier,
            }
            path = write_replay(prop, payload)
            violations.append((path, " no-failing-input-found"))
    elif red and violations:
        pass  # failing inputs already reported; mismatches are listed in the evidence

    for k in known_hit.values():
        print(f"KNOWN-FINDING: property={prop} {k.get('what', k.get('key'))}", flush=True)

    # ---------------------------------------------------------------- evidence
    wall = time.time() - t0
    nontrivial_keys = {c.get("sig", c.get("req") or c.get("id")) for c in cases if c.get("nontrivial", True)}
    samples = []
    for c in cases[:3] + cases[-2:]:
        samples.append({k: c.get(k) for k in ("id", "kind", "req", "impl", "model", "oracle") if c.get(k) is not None})
    ev = {
        "property_id": prop,
        "tier": tier,
        "seed": seed,
        "level": "proof",
        "coverage": {
            "obligations": max(int(lean.get("obligations", 0)), 0),
            "discharged": int(lean.get("discharged", 0)),
            "checker_cmd": f"cd lean && lake build YaqsModel.Props.{prop}  (+ #print axioms per theorem; leanchecker in thorough)",
            "trusted_base": TRUSTED_BASE + data.get("trusted_base", []),
            "theorems": lean.get("theorems", []),
            "axioms_used": lean.get("axioms_used", []),
            "leanchecker_ok": lean.get("leanchecker_ok"),
            "evaluations": len(cases),
            "distinct_nontrivial": len(nontrivial_keys),
            "rule": data.get("rule", ""),
            "samples": samples or [{"note": "no cases"}],
            "traces_validated_against_impl": len(tied),
            "correspondence_mismatches": len(mismatches),
            "edge_skipped": sum(1 for c in cases if c.get("edge")),
            "oracle_evaluations": sum(1 for c in cases if c.get("oracle")),
            "oracle_failures": len(oracle_fail),
            "spec_ties": data.get("spec", []),
            "distribution": data.get("stats", {}),
            "corpus_cases": sum(1 for c in cases if str(c.get("kind", "")).startswith("corpus")),
            "known_findings_hit": sorted(known_hit),
            "search": search_info,
            "lean_build_s": lean.get("build_s"),
            "impl_s": round(impl_s, 1),
        },
        "assumptions": data.get("assumptions", []),
        "wall_s": round(wall, 2),
        "violations": len(violations),
    }
    (VERIF / "evidence").mkdir(exist_ok=True)
    if args.skip_lean or args.replay:
        # development / replay runs never overwrite the evidence of a full run
        (VERIF / "evidence" / ".dev").mkdir(exist_ok=True)
        (VERIF / "evidence" / ".dev" / f"{prop}.json").write_text(json.dumps(ev, indent=1, default=str))
    else:
        (VERIF / "evidence" / f"{prop}.json").write_text(json.dumps(ev, indent=1, default=str))

    for path, suffix in violations:
        print(f"VIOLATION property={prop} replay={path}{suffix}", flush=True)
    status = "FAIL" if violations else "ok"
    print(f"[{prop}] {status}: obligations {lean.get('discharged')}/{lean.get('obligations')}, "
          f"cases {len(cases)} (tied {len(tied)}, mismatches {len(mismatches)}, oracle failures {len(oracle_fail)}, "
          f"spec failures {len(spec_fail)}), {wall:.1f}s", flush=True)
    return 1 if violations else 0


if __name__ == "__main__":
    sys.exit(main())
