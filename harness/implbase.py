"""Shared plumbing of the implementation-side scripts (run by /venv/bin/python against /repo's working tree).

An impl script defines
    gen(rng, tier)  -> iterable of inputs (JSON-able dicts with at least "kind")
    run(inp)        -> dict with the case fields:
        req        request line for the Lean driver (None = oracle-only case)
        impl       the implementation's canonical answer to the same request
        oracle     {"ok": bool, "detail": str} — direct check of the property on the real code, or None
        edge       True if the decision margin is below the float/exact gap (skipped, counted)
        nontrivial, sig, key  (optional)
and calls main(...).
"""
from __future__ import annotations

import argparse
import json
import os
import random
import sys
import time
import traceback
from fractions import Fraction
from pathlib import Path

HERE = Path(__file__).resolve().parent
VERIF = HERE.parent


class NonFinite(ValueError):
    """a number produced by the real code is NaN or infinite (cannot be shipped to the model as a rational)"""


def frac(x) -> str:
    """Exact rational text of a python/numpy float or int (`num/den`)."""
    if isinstance(x, bool):
        return "1" if x else "0"
    if isinstance(x, int):
        return str(x)
    xf = float(x)
    if xf != xf or xf in (float("inf"), float("-inf")):
        raise NonFinite(f"non-finite value {xf!r}")
    f = Fraction(xf)
    return str(f.numerator) if f.denominator == 1 else f"{f.numerator}/{f.denominator}"


def fracs(xs) -> str:
    return " ".join(frac(x) for x in xs)


def cfrac(z) -> str:
    """complex as two rationals `re im`"""
    z = complex(z)
    return f"{frac(z.real)} {frac(z.imag)}"


def fmt(x, digits=12) -> str:
    """canonical decimal text for a float field of the implementation's answer"""
    x = float(x)
    if x == 0:
        return "0.0"
    return repr(float(f"{x:.{digits}e}"))


def repo_info():
    import mqt.yaqs

    return os.path.dirname(mqt.yaqs.__file__)


class Hist(dict):
    def add(self, k, n=1):
        self[str(k)] = self.get(str(k), 0) + n


def corpus_inputs(prop: str):
    d = HERE / "corpus" / prop
    if not d.is_dir():
        return []
    out = []
    for f in sorted(d.glob("*.json")):
        try:
            inp = json.loads(f.read_text())
        except json.JSONDecodeError:
            continue
        if isinstance(inp, dict) and "input" in inp and "kind" not in inp:
            inp = inp["input"]
        inp = dict(inp)
        inp["corpus_file"] = f.name
        out.append(inp)
    return out


def main(prop, gen, run, *, driver, rule, trusted_base=(), assumptions=(), spec=None, budget_s=None):
    ap = argparse.ArgumentParser()
    ap.add_argument("--seed", type=int, default=0)
    ap.add_argument("--tier", default="quick")
    ap.add_argument("--out", required=True)
    ap.add_argument("--replay", default=None)
    a = ap.parse_args()
    rng = random.Random(f"{prop}:{a.seed}:{a.tier}")
    t0 = time.time()
    if budget_s is None:
        budget_s = {"quick": 150, "thorough": 1500, "search": 300}.get(a.tier, 150)
    cases, stats = [], Hist()
    inputs = []
    if a.replay:
        rp = json.loads(Path(a.replay).read_text())
        c = rp.get("case") or {}
        if "input" in c:
            inputs.append(dict(c["input"], kind="replay:" + str(c["input"].get("kind", ""))))
        for m in rp.get("mismatches", []):
            if m.get("input"):
                inputs.append(dict(m["input"], kind="replay:" + str(m["input"].get("kind", ""))))
    else:
        for inp in corpus_inputs(prop):
            inp["kind"] = "corpus:" + str(inp.get("kind", ""))
            inputs.append(inp)
        inputs = inputs + list(gen(rng, a.tier))
    truncated = 0
    for n, inp in enumerate(inputs):
        if time.time() - t0 > budget_s and not str(inp.get("kind", "")).startswith(("corpus", "replay")):
            truncated += 1
            continue
        kind = str(inp.get("kind", "?"))
        base_kind = kind.split(":", 1)[1] if kind.startswith(("corpus:", "replay:")) else kind
        try:
            res = run(dict(inp, kind=base_kind))
        except NonFinite as e:
            # the implementation handed back NaN/inf where a number was expected: that is an observation about the code
            res = {"req": None, "impl": None, "kind": kind + "-nonfinite", "sig": f"nonfinite:{base_kind}",
                   "oracle": {"ok": False, "detail": f"the real code produced a {e} on input {str(inp)[:300]}"}}
        except Exception as e:  # noqa: BLE001
            # where was it raised?  If the innermost frames are the real package (or a library it called) with no harness frame
            # below them, the implementation raised on an input that the unchanged tree accepts (every check is green there): that
            # is an observation about the code.  Anything raised by harness code itself is a harness crash, never a verdict.
            frames = traceback.extract_tb(e.__traceback__)
            here = str(Path(__file__).resolve().parent)
            last_harness = max((k for k, f in enumerate(frames) if f.filename.startswith(here)), default=-1)
            last_code = max((k for k, f in enumerate(frames) if "/mqt/yaqs/" in f.filename), default=-1)
            if last_code > last_harness:
                where = f"{frames[last_code].filename.split('/mqt/yaqs/')[-1]}:{frames[last_code].lineno}"
                res = {"req": None, "impl": None, "kind": kind + "-raised", "sig": f"raised:{base_kind}:{type(e).__name__}:{where}",
                       "oracle": {"ok": False, "detail": f"the real code raised {type(e).__name__}: {str(e)[:200]} at {where} on input {str(inp)[:300]}"}}
            else:
                sys.stderr.write(f"harness error on input {inp!r}\n{traceback.format_exc()}\n")
                sys.exit(3)
        many = res if isinstance(res, list) else [res]
        for j, r in enumerate(many):
            r = dict(r)
            r.setdefault("id", f"{n}.{j}" if len(many) > 1 else str(n))
            r.setdefault("kind", kind)
            for pre in ("corpus:", "replay:"):
                if kind.startswith(pre) and not str(r["kind"]).startswith(pre):
                    r["kind"] = pre + str(r["kind"])
            r.setdefault("input", dict({k: v for k, v in inp.items() if k != "corpus_file"}, kind=base_kind))
            r.setdefault("edge", False)
            if r.get("edge"):
                stats.add("edge_skipped")
            stats.add("kind=" + str(r["kind"]).split(":")[-1] if not kind.startswith("corpus") else "kind=corpus")
            if r.get("impl") is not None:
                stats.add("impl=" + str(r["impl"]).split()[0][:16])
            cases.append(r)
    impl_keys = [k for k in stats if k.startswith("impl=")]
    if len(impl_keys) > 40:  # numeric answers: the histogram of first tokens is noise
        for k in impl_keys:
            del stats[k]
    out = {
        "property": prop,
        "driver": driver,
        "cases": cases,
        "rule": rule,
        "spec": spec() if callable(spec) else (spec or []),
        "stats": dict(stats, truncated_by_budget=truncated, repo=repo_info()),
        "trusted_base": list(trusted_base),
        "assumptions": list(assumptions),
        "wall_s": round(time.time() - t0, 2),
    }
    Path(a.out).write_text(json.dumps(out, default=str))
