"""C17 — implementation side: process-tensor tomography of the real code vs Model.Tomo, plus direct oracles.

value tie  : get_basis_states / get_choi_basis / calculate_dual_choi_basis (entry by entry against the model's exact
             Gaussian-rational matrices; biorthogonality of the code's duals against the model's exact basis),
             ProcessTensor.predict_final_state on random rational tensors and on tensors produced by the real
             tomography vs the model's contraction (k = 1, 2, 3), _reprepare_site_zero_vector_forced and
             _reprepare_site_zero_forced (probability and the density matrix of the re-prepared state) on random
             small states and on the states seen inside real tomography sequences, ProcessTensor.to_linear_map_matrix
             (C-order position of tensor[o, a_0, …]).
trace tie  : _tomography_sequence_worker run in-process over every sequence of a real tomography (serial executor in
             place of the pool): recorded projection probabilities, number of re-preparations and returned weight
             vs the model's weight walk (product with the `< 1e-15` break).
oracle     : (model-independent) real tomography.run (real process pool, and the serial variant) on 2–3-site Ising /
             Heisenberg chains, 1 and 2 (thorough: 3) segments, TJM (order 1, 2) and MCWF; predict_final_state for
             random held-out preparations and intermediate CP maps (unitary, random CPTP, amplitude damping,
             measure-and-prepare, dephasing, reset, trace-decreasing projection) against dense expm(-iHt) evolution
             with explicit application of the maps and partial trace; every tensor entry against the exact
             unnormalised comb entry for the basis maps |psi_p><psi_m|; synthetic tensors against the multilinear
             extension computed with an independent least-squares expansion in the code's basis.
extension (exact comb, `Model/TomoComb.lean`, theorems C17.5-C17.8 of Props/C17.lean):
  kraus-choi : value tie — the Choi matrix that the builder inside the real predict_final_state computes for a map given
               by Kraus operators (recorded from the `np.kron` calls of process_tensor.py) vs the model's `krausChoiE`.
  applychoi  : value tie — the real code's way of applying a held-out map to site 0 of a joint pure state (table of the 16
               real `_reprepare_site_zero_vector_forced` branches, contracted block by block by the real
               predict_final_state) vs the model's `applyChoiE J (|psi><psi|)`; oracle: block decomposition without any
               Choi convention.
  comb-exact : the real tomography.run / `_tomography_sequence_worker` / re-preparation / aggregation / predict with
               the segment back-end (`mcwf`, `analog_tjm_1/2`) replaced by an exact given matrix `psi -> U_t psi` (rational
               non-unitary and float unitary U_t; dense and MPS path): table entries and held-out Kraus predictions vs the
               model's `physCombT` — the hypothesis `htab` of `c17_exact_dynamics` and its conclusion, with exact segments;
               oracle: Kraus-form evolution with the same U_t.
  comb-real  : inside every real tomography run of kind `heldout` (L <= 3): one table entry and one held-out Kraus
               prediction vs `physCombT` with U_t = scipy expm(-i H t_t) of the independently built dense Hamiltonian;
               oracle: dense comb through the Choi-matrix route (numpy mirror of `physComb`).
An exception or a nan/inf coming out of the code under test is reported as a failing input (`CodeRaised`), never as a
harness crash.  Every real tomography run happens in a forked child with a hard kill.

Known limitation of the domain (reported, see harness/corpus/C17/pending/offgrid_duration.json): segment durations are
generated as integer multiples of dt; the code silently rounds any other duration to the nearest multiple.
"""
from __future__ import annotations

import multiprocessing as mp
import os
import random
import signal
import sys
import time
import warnings

import numpy as np
from scipy.linalg import expm

import implbase as ib

warnings.simplefilter("ignore")

from mqt.yaqs import simulator as sim_mod  # noqa: E402
from mqt.yaqs.characterization.tomography import process_tensor as pt_mod  # noqa: E402
from mqt.yaqs.characterization.tomography import tomography as tomo_mod  # noqa: E402
from mqt.yaqs.characterization.tomography.process_tensor import ProcessTensor  # noqa: E402
from mqt.yaqs.core.data_structures.networks import MPO, MPS  # noqa: E402
from mqt.yaqs.core.data_structures.simulation_parameters import AnalogSimParams  # noqa: E402

SPEC = {"ham_n": 0, "ham_bad": 0, "ham_worst": 0.0}

# tolerances: largest deviations seen on the clean tree over seeds 0..9 (quick + thorough) were
#   held-out prediction / comb entries, L <= 3, any back-end : 1.6e-13
#   TJM on L = 4 (projection error of 2TDVP from a product state, dt = 0.01) : 5e-8   (thorough only)
TOL_EXACT = 1e-9       # L <= 3: every back-end is exact up to rounding (TDVP bonds saturate)
TOL_TJM4 = 1e-5        # L = 4 TJM, dt = 0.01: 200 x the worst deviation seen (5.0e-8 over 60 runs)
TOL_SYN = 1e-9


# ----------------------------------------------------------------------------------------------- helpers
class CodeRaised(Exception):
    """an exception (or a nan/inf) that came out of the code under test — a verdict about the code, not a harness crash"""


def finite(a, what="a value produced by the code under test"):
    arr = np.asarray(a, dtype=complex)
    if not np.all(np.isfinite(arr)):
        raise CodeRaised(f"non-finite number (nan/inf) in {what}: {arr.reshape(-1)[:8]}")
    return arr


def cvec(a) -> str:
    return " ".join(ib.cfrac(z) for z in finite(a).reshape(-1))


def rfracs(xs, what) -> str:
    return ib.fracs([float(x) for x in np.real(finite(xs, what)).reshape(-1)])


def cfmt(a) -> str:
    out = []
    for z in finite(a).reshape(-1):
        out.append(ib.fmt(z.real))
        out.append(ib.fmt(z.imag))
    return " ".join(out)


def real(fn, *a, **kw):
    try:
        return fn(*a, **kw)
    except Exception as e:  # noqa: BLE001
        import traceback

        tb = traceback.extract_tb(e.__traceback__)
        where = "; ".join(f"{os.path.basename(f.filename)}:{f.lineno} {f.name}" for f in tb[-3:])
        raise CodeRaised(f"{getattr(fn, '__qualname__', fn)} raised {type(e).__name__}: {e} [{where}]") from e


def in_child(fn, arg, timeout):
    """run fn(arg) in a forked child (own session, hard kill of the whole group on timeout)"""
    ctx = mp.get_context("fork")
    rd, wr = ctx.Pipe(duplex=False)

    def target():
        os.setsid()
        try:
            res = ("ok", fn(arg))
        except CodeRaised as e:
            res = ("raised", str(e))
        except BaseException as e:  # noqa: BLE001
            import traceback

            res = ("err", f"{type(e).__name__}: {e}\n{traceback.format_exc()}")
        wr.send(res)
        wr.close()

    p = ctx.Process(target=target)
    p.start()
    wr.close()
    res = None
    if rd.poll(timeout):
        try:
            res = rd.recv()
        except EOFError:
            res = ("err", "child died without an answer")
    else:
        res = ("timeout", f"no answer after {timeout}s")
    try:
        os.killpg(p.pid, signal.SIGKILL)
    except (ProcessLookupError, PermissionError):
        pass
    p.join(5)
    if res[0] == "raised":
        raise CodeRaised(res[1])
    if res[0] != "ok":
        raise RuntimeError(f"child {fn.__name__}: {res[0]}: {res[1]}")
    return res[1]


PAULI = {
    "I": np.eye(2, dtype=complex),
    "X": np.array([[0, 1], [1, 0]], dtype=complex),
    "Y": np.array([[0, -1j], [1j, 0]], dtype=complex),
    "Z": np.array([[1, 0], [0, -1]], dtype=complex),
}


def embed(ops, n):
    m = np.array([[1.0 + 0j]])
    for i in range(n):
        m = np.kron(m, ops.get(i, PAULI["I"]))
    return m


def dense_hamiltonian(model, n, c):
    """independent dense Hamiltonian, site 0 = leftmost Kronecker factor (docstrings of MPO.ising / MPO.heisenberg)"""
    h = np.zeros((2**n, 2**n), dtype=complex)
    if model == "pauli":    # site-dependent couplings and fields: not symmetric under reversing the chain
        for i in range(n - 1):
            h += c["zz"][i] * embed({i: PAULI["Z"], i + 1: PAULI["Z"]}, n)
        for i in range(n):
            h += c["x"][i] * embed({i: PAULI["X"]}, n) + c["z"][i] * embed({i: PAULI["Z"]}, n)
            h += c.get("y", [0.0] * 8)[i] * embed({i: PAULI["Y"]}, n)
        for i in range(n - 1):
            h += c.get("xy", [0.0] * 8)[i] * embed({i: PAULI["X"], i + 1: PAULI["Y"]}, n)
        return h
    if model == "ising":
        for i in range(n - 1):
            h += -c["J"] * embed({i: PAULI["Z"], i + 1: PAULI["Z"]}, n)
        for i in range(n):
            h += -c["g"] * embed({i: PAULI["X"]}, n)
    else:
        for i in range(n - 1):
            for k, s in (("Jx", "X"), ("Jy", "Y"), ("Jz", "Z")):
                h += -c[k] * embed({i: PAULI[s], i + 1: PAULI[s]}, n)
        for i in range(n):
            h += -c["h"] * embed({i: PAULI["Z"]}, n)
    return h


def make_operator(model, n, c):
    if model == "pauli":
        terms = [(c["zz"][i], f"Z{i} Z{i + 1}") for i in range(n - 1)]
        terms += [(c["x"][i], f"X{i}") for i in range(n)] + [(c["z"][i], f"Z{i}") for i in range(n)]
        terms += [(c["y"][i], f"Y{i}") for i in range(n)] if "y" in c else []
        terms += [(c["xy"][i], f"X{i} Y{i + 1}") for i in range(n - 1)] if "xy" in c else []
        op = MPO()
        op.from_pauli_sum(terms=terms, length=n)
        return op
    if model == "ising":
        return MPO.ising(length=n, J=c["J"], g=c["g"])
    return MPO.heisenberg(n, c["Jx"], c["Jy"], c["Jz"], c["h"])


def apply_local(rho_full, emap, n):
    """(emap ⊗ id) on site 0 of a dense density matrix — block decomposition, no Choi convention involved"""
    d = 2 ** (n - 1)
    r = rho_full.reshape(2, d, 2, d)
    out = np.zeros_like(r)
    for i in range(2):
        for j in range(2):
            e = np.zeros((2, 2), dtype=complex)
            e[i, j] = 1.0
            out += np.einsum("ab,kl->akbl", emap(e), r[i, :, j, :])
    return out.reshape(2 * d, 2 * d)


def exact_final(h, n, durations, emaps):
    rho = np.zeros((2**n, 2**n), dtype=complex)
    rho[0, 0] = 1.0
    d = 2 ** (n - 1)
    for t, emap in zip(durations, emaps):
        rho = apply_local(rho, emap, n)
        u = expm(-1j * h * t)
        rho = u @ rho @ u.conj().T
    return np.trace(rho.reshape(2, d, 2, d), axis1=1, axis2=3)


def kraus_map(ks):
    ks = [np.asarray(k, dtype=complex) for k in ks]
    return lambda s: sum(k @ s @ k.conj().T for k in ks)


def rand_unitary(g, n=2):
    z = g.normal(size=(n, n)) + 1j * g.normal(size=(n, n))
    q, r = np.linalg.qr(z)
    return q * (np.diag(r) / np.abs(np.diag(r)))


def rand_rho(g, pure=False):
    if pure:
        v = g.normal(size=2) + 1j * g.normal(size=2)
        v /= np.linalg.norm(v)
        return np.outer(v, v.conj())
    z = g.normal(size=(2, 2)) + 1j * g.normal(size=(2, 2))
    r = z @ z.conj().T
    return r / np.trace(r)


def heldout_map(g, slot):
    """(name, callable) — a completely positive single-qubit map that is not one of the 16 probes"""
    kinds = ["prep-pure", "prep-mixed", "unitary", "cptp2", "cptp3", "ampdamp", "measprep", "dephase", "project"]
    if slot == 0:
        kinds = ["prep-pure", "prep-mixed", "prep-mixed", "unitary", "cptp2", "ampdamp", "measprep"]
    kind = kinds[int(g.integers(len(kinds)))]
    if kind.startswith("prep"):
        rho = rand_rho(g, pure=kind == "prep-pure")
        return kind, (lambda s, rho=rho: np.trace(s) * rho)
    if kind == "unitary":
        return kind, kraus_map([rand_unitary(g)])
    if kind in ("cptp2", "cptp3"):
        nk = 2 if kind == "cptp2" else 3
        z = g.normal(size=(2 * nk, 2)) + 1j * g.normal(size=(2 * nk, 2))
        q, _ = np.linalg.qr(z)
        return kind, kraus_map([q[2 * i:2 * i + 2, :] for i in range(nk)])
    if kind == "ampdamp":
        gam = float(g.uniform(0.05, 0.95))
        u = rand_unitary(g)
        k0 = np.array([[1, 0], [0, np.sqrt(1 - gam)]], dtype=complex)
        k1 = np.array([[0, np.sqrt(gam)], [0, 0]], dtype=complex)
        return kind, kraus_map([u @ k0 @ u.conj().T, u @ k1 @ u.conj().T])
    if kind == "measprep":
        a = g.normal(size=(2, 2)) + 1j * g.normal(size=(2, 2))
        m0 = a.conj().T @ a
        m0 = m0 / (np.linalg.eigvalsh(m0)[-1] * float(g.uniform(1.0, 1.5)))
        m1 = np.eye(2) - m0
        t0, t1 = rand_rho(g), rand_rho(g, pure=True)
        return kind, (lambda s: np.trace(m0 @ s) * t0 + np.trace(m1 @ s) * t1)
    if kind == "dephase":
        lam = float(g.uniform(0.1, 0.9))
        u = rand_unitary(g)
        z = u @ PAULI["Z"] @ u.conj().T
        return kind, kraus_map([np.sqrt(1 - lam) * np.eye(2), np.sqrt(lam) * z])
    # trace-decreasing CP map: projection onto a random direction (the property says "completely positive")
    v = g.normal(size=2) + 1j * g.normal(size=2)
    v /= np.linalg.norm(v)
    return kind, kraus_map([np.outer(v, v.conj())])


def own_basis():
    """the probes as the harness understands them (used only for the exact comb entries)"""
    s = 1 / np.sqrt(2)
    return [np.array([1, 0], dtype=complex), np.array([0, 1], dtype=complex),
            np.array([s, s], dtype=complex), np.array([s, 1j * s], dtype=complex)]


def mps_dense(mps):
    """dense vector of an MPS, site 0 most significant (contracted here, not by yaqs)"""
    v = np.ones((1, 1), dtype=complex)
    for t in mps.tensors:
        v = np.einsum("xa,sab->xsb", v, t).reshape(-1, t.shape[2])
    return v.reshape(-1)


def basis_index(vec):
    for i, (_, psi, _) in enumerate(tomo_mod.get_basis_states()):
        if np.allclose(psi, vec, atol=1e-12):
            return i
    return -1


def make_pt(tensor, k):
    choi, idx = real(tomo_mod.get_choi_basis)
    duals = real(tomo_mod.calculate_dual_choi_basis, choi)
    return ProcessTensor(tensor=tensor, weights=np.ones([16] * k), timesteps=[0.1] * k, choi_duals=duals,
                         choi_indices=idx, choi_basis=choi)


def map_of_choi(j):
    j4 = np.asarray(j, dtype=complex).reshape(2, 2, 2, 2)
    return lambda s: np.einsum("aibj,ij->ab", j4, s)


def expansion_in(basis, j):
    f = np.column_stack([b.reshape(-1) for b in basis])
    w, *_ = np.linalg.lstsq(f, np.asarray(j).reshape(-1), rcond=None)
    return w


def multilinear(tensor, ws):
    r = tensor
    for w in reversed(ws):
        r = np.tensordot(r, w, axes=([r.ndim - 1], [0]))
    return r


# ----------------------------------------------------------------------------------------------- generators
def gen(rng, tier):
    yield {"kind": "frame"}
    n = {"quick": 1, "thorough": 16, "search": 2}.get(tier, 1)
    # extension (exact comb): its own stream, derived from the seed without consuming from `rng` (the older kinds keep their inputs)
    ext = random.Random("C17-exact-comb:" + str(hash(rng.getstate()[1])))
    plans = [("MCWF", 1, 2, "rational"), ("MCWF", 2, 2, "rational"), ("TJM", 1, 3, "unitary"), ("MCWF", 2, 3, "unitary"),
             ("TJM", 2, 2, "unitary"), ("MCWF", 1, 3, "rational")]
    if tier != "quick":
        plans += [("MCWF", 3, 2, "rational"), ("TJM", 2, 3, "unitary")]
        plans += [(ext.choice(["MCWF", "TJM"]), ext.choice([1, 2]), ext.choice([2, 3]), ext.choice(["rational", "unitary"]))
                  for _ in range(2 * n)]
    for path, k, length, ukind in plans:
        yield {"kind": "comb-exact", "path": path, "k": k, "L": length, "ukind": ukind, "sub": ext.randrange(1 << 30)}
    for i in range(8 * n):
        yield {"kind": "kraus-choi", "rational": i % 4 == 0, "sub": ext.randrange(1 << 30)}
    for _ in range(16 * n):
        yield {"kind": "applychoi", "sub": ext.randrange(1 << 30)}
    ext_heldout = [{"kind": "heldout", "model": "pauli", "solver": solver, "k": 2, "L": 3, "sub": ext.randrange(1 << 30)}
                   for solver in ("MCWF", "TJM")]
    # the oracle kinds first (they decide the property), the ties after
    heldout = []
    for model in ("ising", "heis"):
        for solver in ("MCWF", "TJM"):
            for k in (1, 2):
                heldout.append({"kind": "heldout", "model": model, "solver": solver, "k": k, "L": rng.choice([2, 3]),
                                "sub": rng.randrange(1 << 30)})
    for solver in ("MCWF", "TJM"):    # a chain that is not mirror symmetric (the dense back-end builds H with its own index convention)
        heldout.append({"kind": "heldout", "model": "pauli", "solver": solver, "k": 1, "L": 3, "sub": rng.randrange(1 << 30)})
    for _ in range(8 if tier == "quick" else 6 * n):
        solver = rng.choice(["MCWF", "TJM"])
        k = rng.choice([1, 2, 2, 3])
        if tier == "quick" and solver == "TJM" and k == 3:
            k = 2  # 16^3 TDVP sequences cost ~40 s on a loaded machine: thorough only
        heldout.append({"kind": "heldout", "model": rng.choice(["ising", "heis", "pauli"]), "solver": solver, "k": k,
                        "L": rng.choice([2, 3, 3] if tier == "quick" else [2, 3, 3, 4]), "sub": rng.randrange(1 << 30)})
    rng.shuffle(heldout)
    traces = [{"kind": "trace", "model": rng.choice(["ising", "heis"]), "solver": s, "k": k, "L": rng.choice([2, 3]),
               "sub": rng.randrange(1 << 30)} for (s, k) in (("MCWF", 2), ("TJM", 1), ("TJM", 2), ("MCWF", 1))]
    if tier == "quick":
        traces = traces[:3]
    else:
        traces += [{"kind": "trace", "model": rng.choice(["ising", "heis"]), "solver": rng.choice(["MCWF", "TJM"]),
                    "k": rng.choice([1, 2]), "L": rng.choice([2, 3]), "sub": rng.randrange(1 << 30)} for _ in range(4 * n)]
    # a classical Ising chain (g = 0): a branch prepared in a Z eigenstate survives the first probe and dies at the second one, so the
    # number of re-preparations before the `break` is 2, not 1 (found thin by tools/model_mutation.py: `seqWalk` count)
    traces.insert(1, {"kind": "trace", "model": "ising", "solver": "MCWF", "k": 2, "L": 2, "couplings": {"J": 0.7, "g": 0.0},
                      "sub": 424242})
    for a, b in zip(heldout, traces + [None] * len(heldout)):
        yield a
        if b:
            yield b
    for _ in range(3 * n):
        yield {"kind": "layout", "sub": rng.randrange(1 << 30)}
    for _ in range(24 * n):
        yield {"kind": "predict", "k": rng.choice([1, 1, 2, 2, 2]), "sub": rng.randrange(1 << 30)}
    yield {"kind": "predict", "k": 3, "sub": rng.randrange(1 << 30)}
    for _ in range(30 * n):
        yield {"kind": "reprep-vec", "sub": rng.randrange(1 << 30)}
    for _ in range(20 * n):
        yield {"kind": "reprep-mps", "sub": rng.randrange(1 << 30)}
    yield from ext_heldout      # two slots on the chain that is not mirror symmetric, both back-ends (last: never starves the cheap ties)


# ----------------------------------------------------------------------------------------------- frame
def run_frame(_inp):
    basis = real(tomo_mod.get_basis_states)
    choi, idx = real(tomo_mod.get_choi_basis)
    duals = real(tomo_mod.calculate_dual_choi_basis, choi)
    out = []
    for p in range(4):
        _, psi, rho = basis[p]
        probs = []
        if abs(np.trace(rho) - 1) > 1e-12 or np.linalg.norm(rho - rho.conj().T) > 1e-12 or np.linalg.norm(rho @ rho - rho) > 1e-12:
            probs.append("preparation is not a pure state")
        if np.linalg.norm(rho - np.outer(psi, psi.conj())) > 1e-12:
            probs.append("density matrix is not |psi><psi|")
        out.append({"req": f"rho {p}", "impl": cfmt(rho), "oracle": {"ok": not probs, "detail": "; ".join(probs) or "pure state"},
                    "kind": "frame-rho", "sig": f"rho:{p}", "key": f"rho:{p}"})
    rank = int(np.linalg.matrix_rank(np.column_stack([b[2].reshape(-1) for b in basis])))
    out.append({"req": None, "impl": None, "kind": "frame-rank", "sig": "rank",
                "oracle": {"ok": rank == 4, "detail": f"rank of the four preparations = {rank}"}})
    for a in range(16):
        p, m = idx[a]
        # independent Choi matrix of sigma -> Tr(E_m sigma) rho_p in the convention of predict_final_state's builder
        j = np.zeros((4, 4), dtype=complex)
        for i in range(2):
            for jj in range(2):
                e = np.zeros((2, 2), dtype=complex)
                e[i, jj] = 1.0
                j += np.kron(np.trace(basis[m][2] @ e) * basis[p][2], e)
        dev = float(np.abs(j - choi[a]).max())
        out.append({"req": f"choi {a}", "impl": f"{p} {m} " + cfmt(choi[a]), "kind": "frame-choi", "sig": f"choi:{a}", "key": f"choi:{a}",
                    "oracle": {"ok": dev < 1e-12, "detail": f"basis element {a} vs Choi matrix of its probe map: {dev:.2e}"}})
        inner = np.array([np.trace(duals[a].conj().T @ choi[b]) for b in range(16)])
        exp = np.zeros(16)
        exp[a] = 1.0
        devd = float(np.abs(inner - exp).max())
        out.append({"req": f"dual {a}", "impl": cfmt(duals[a]), "kind": "frame-dual", "sig": f"dual:{a}", "key": f"dual:{a}",
                    "oracle": {"ok": devd < 1e-10, "detail": f"Tr(D_{a}^dag B_b) - delta: {devd:.2e}"}})
        out.append({"req": "biorth | " + cvec(duals[a]), "impl": cfmt(inner), "kind": "frame-biorth", "sig": f"biorth:{a}",
                    "oracle": None})
    return out


# ----------------------------------------------------------------------------------------------- predict
def rational_c(r, den):
    return complex(r.randint(-den, den) / den, r.randint(-den, den) / den)


def predict_case(pt, k, js, names, kind, sig, tensor_for_req):
    pred = real(pt.predict_final_state, [map_of_choi(j) for j in js])
    req = f"predict {k} | {cvec(tensor_for_req)} | " + " | ".join(cvec(j) for j in js)
    ws = [expansion_in(pt.choi_basis, j) for j in js]
    exp = multilinear(np.asarray(pt.tensor), ws).reshape(2, 2)
    scale = 1.0 + float(np.abs(exp).max())
    dev = float(np.abs(pred - exp).max())
    return {"req": req, "impl": cfmt(pred), "kind": kind, "sig": sig, "nontrivial": True,
            "oracle": {"ok": dev <= TOL_SYN * scale, "detail": f"prediction vs multilinear extension of the table ({'/'.join(names)}): {dev:.2e}"},
            "input_note": names}


def synth_choi(r, g, pt):
    kind = r.choice(["combo", "combo", "basis", "ampdamp", "unitary", "identity", "depol", "measprep", "sparse"])
    if kind == "combo":
        w = np.array([rational_c(r, 4) for _ in range(16)])
        return kind, sum(wi * b for wi, b in zip(w, pt.choi_basis))
    if kind == "sparse":
        j = np.zeros((4, 4), dtype=complex)
        for _ in range(3):
            j[r.randrange(4), r.randrange(4)] = rational_c(r, 8)
        return kind, j
    if kind == "basis":
        return kind, np.array(pt.choi_basis[r.randrange(16)])
    if kind == "identity":
        emap = lambda s: s  # noqa: E731
    elif kind == "depol":
        emap = lambda s: 0.5 * np.trace(s) * np.eye(2)  # noqa: E731
    elif kind == "ampdamp":
        emap = kraus_map([np.array([[1, 0], [0, 0.8]]), np.array([[0, 0.6], [0, 0]])])
    elif kind == "unitary":
        emap = kraus_map([rand_unitary(g)])
    else:
        _, emap = heldout_map(g, 1)
    j = np.zeros((4, 4), dtype=complex)
    for i in range(2):
        for jj in range(2):
            e = np.zeros((2, 2), dtype=complex)
            e[i, jj] = 1.0
            j += np.kron(emap(e), e)
    return kind, j


def run_predict(inp):
    r = random.Random(inp["sub"])
    g = np.random.default_rng(inp["sub"])
    k = int(inp["k"])
    shape = [4] + [16] * k
    if k == 3:
        t = np.zeros(shape, dtype=complex)
        for _ in range(600):
            t[tuple(r.randrange(s) for s in shape)] = rational_c(r, 8)
    else:
        t = np.array([rational_c(r, 8) for _ in range(int(np.prod(shape)))]).reshape(shape)
    pt = make_pt(t, k)
    js, names = [], []
    for _ in range(k):
        nm, j = synth_choi(r, g, pt)
        names.append(nm)
        js.append(j)
    return predict_case(pt, k, js, names, "predict", f"predict:{k}:{'/'.join(names)}", t)


def run_layout(inp):
    """where tensor[o, a_0, …] ends up in to_linear_map_matrix() vs the model's C-order flat index"""
    r = random.Random(inp["sub"])
    k = r.choice([1, 2, 3])
    out = []
    for _ in range(3):
        o, a = r.randrange(4), [r.randrange(16) for _ in range(k)]
        t = np.zeros([4] + [16] * k, dtype=complex)
        t[(o, *a)] = 1.0  # the way run() fills it: process_tensor_data[(slice, *seq)] = rho_vec
        pt = make_pt(t, k)
        mat = real(pt.to_linear_map_matrix)
        hits = np.argwhere(np.asarray(mat) != 0)
        ok = mat.shape == (4, 16**k) and len(hits) == 1 and int(hits[0][0]) == o
        pos = int(hits[0][0]) * 16**k + int(hits[0][1]) if len(hits) == 1 else -1
        out.append({"req": f"flatidx {k} {o} | {' '.join(map(str, a))}", "impl": str(pos), "kind": "layout", "sig": f"layout:{k}:{o}:{a}",
                    "oracle": {"ok": bool(ok), "detail": f"to_linear_map_matrix shape {mat.shape}, marker of [{o},{a}] found at {hits.tolist()}"}})
    return out


# ----------------------------------------------------------------------------------------------- reprepare
def reprep_case(d, m, p, psi_in, prob, psi_out, kind, sig):
    basis = tomo_mod.get_basis_states()
    dens = np.outer(psi_out, psi_out.conj())
    req = f"reprep {d} {m} {p} | {cvec(psi_in)}"
    impl = f"{ib.fmt(finite(prob, 'projection probability').real)} {cfmt(dens)}"
    # direct: prob = <psi|E_m (x) 1|psi>,  state = rho_p (x) <m|psi><psi|m> / prob   (E_m, rho_p: the code's own probes)
    own = [b[1] for b in basis]
    e_m = np.outer(own[m], own[m].conj())
    rho_in = np.outer(psi_in, psi_in.conj())
    pr = float(np.real(np.trace(np.kron(e_m, np.eye(d)) @ rho_in)))
    env = np.einsum("s,sc->c", own[m].conj(), np.asarray(psi_in).reshape(2, d))
    probs = []
    sc = 1.0 + float(np.abs(rho_in).max())
    if abs(pr - prob) > 1e-10 * sc:
        probs.append(f"probability {prob!r} != <psi|E_m x 1|psi> = {pr!r}")
    if pr > 1e-9:
        ref = np.kron(np.outer(own[p], own[p].conj()), np.outer(env, env.conj())) / pr
        dev = float(np.abs(ref - dens).max())
        if dev > 1e-9:
            probs.append(f"re-prepared state deviates from rho_p x <m|rho|m>/prob by {dev:.2e}")
        # weighting by prob gives the unnormalised comb entry (A_pm x id)(rho)
        emap = lambda s: np.trace(e_m @ s) * np.outer(own[p], own[p].conj())  # noqa: E731
        n = int(round(np.log2(2 * d)))
        raw = apply_local(rho_in, emap, n)
        dev2 = float(np.abs(prob * dens - raw).max())
        if dev2 > 1e-9 * sc:
            probs.append(f"prob * state deviates from (A_pm x id)(rho) by {dev2:.2e}")
    edge = abs(pr - 1e-15) < 1e-17 or (0 < pr < 1e-9)
    return {"req": req, "impl": impl, "kind": kind, "sig": sig, "edge": bool(edge), "nontrivial": pr > 1e-9,
            "oracle": {"ok": not probs, "detail": "; ".join(probs) or f"prob={pr:.6g}"}}


def random_state(r, g, d):
    style = r.choice(["int", "int", "float", "dead", "product"])
    if style == "float":
        v = g.normal(size=2 * d) + 1j * g.normal(size=2 * d)
        return style, v / np.linalg.norm(v)
    if style == "int":
        return style, np.array([rational_c(r, 4) for _ in range(2 * d)])
    env = np.array([rational_c(r, 4) for _ in range(d)])
    if not np.any(env):
        env[0] = 1.0
    s0 = r.choice(own_basis()[:2]) if style == "dead" else r.choice(own_basis())
    if style == "product":
        s0 = np.array(r.choice([[1, 0], [0, 1], [1, 1], [1, 1j], [1, -1], [1, -1j]]), dtype=complex)
    return style, np.kron(s0, env)


def run_reprep_vec(inp):
    r = random.Random(inp["sub"])
    g = np.random.default_rng(inp["sub"])
    d = r.choice([1, 2, 2, 4, 4, 8])
    m, p = r.randrange(4), r.randrange(4)
    style, psi = random_state(r, g, d)
    basis = tomo_mod.get_basis_states()
    new_psi, prob = real(tomo_mod._reprepare_site_zero_vector_forced, psi.copy(), basis[m][1], basis[p][1])  # noqa: SLF001
    return reprep_case(d, m, p, psi, prob, new_psi, "reprep-vec", f"vec:{d}:{m}:{p}:{style}:{prob > 1e-9}")


def run_reprep_mps(inp):
    r = random.Random(inp["sub"])
    g = np.random.default_rng(inp["sub"])
    length = r.choice([2, 2, 3, 4])
    chi = r.choice([1, 2, 2, 3])
    dims = [1] + [min(chi, 2 ** min(i, length - i)) for i in range(1, length)] + [1]
    style = r.choice(["float", "float", "int", "dead"])
    tensors = []
    for i in range(length):
        sh = (2, dims[i], dims[i + 1])
        if style == "float":
            t = g.normal(size=sh) + 1j * g.normal(size=sh)
        else:
            t = np.array([rational_c(r, 2) for _ in range(int(np.prod(sh)))]).reshape(sh)
            if not np.any(t):
                t[0, 0, 0] = 1.0
        tensors.append(t)
    m, p = r.randrange(4), r.randrange(4)
    if style == "dead":
        m = r.randrange(2)
        tensors[0][m, :, :] = 0.0  # <m| on site 0 annihilates the state
        if not np.any(tensors[0]):
            tensors[0][1 - m, 0, 0] = 1.0
    mps = MPS(length, tensors=[t.copy() for t in tensors], physical_dimensions=[2] * length)
    if style == "float":
        mps.normalize()
    psi = mps_dense(mps)
    basis = tomo_mod.get_basis_states()
    prob = real(tomo_mod._reprepare_site_zero_forced, mps, basis[m][1], basis[p][1])  # noqa: SLF001
    out = mps_dense(mps)
    d = 2 ** (length - 1)
    c = reprep_case(d, m, p, psi, prob, out, "reprep-mps", f"mps:{length}:{chi}:{m}:{p}:{style}:{prob > 1e-9}")
    if not np.all(np.isfinite(out)):
        c["oracle"] = {"ok": False, "detail": "re-prepared MPS contains non-finite entries"}
    return c


# ----------------------------------------------------------------------------------------------- real tomography
def couplings(r, model):
    if model == "pauli":
        return {"zz": [round(r.uniform(0.3, 1.4), 3) for _ in range(8)], "x": [round(r.uniform(0.2, 1.2), 3) for _ in range(8)],
                "z": [round(r.uniform(-0.8, 0.8), 3) for _ in range(8)],
                # a Y field and a directed X_i Y_{i+1} coupling: the Hamiltonian has imaginary entries (H differs from its transpose)
                "y": [round(r.uniform(-0.7, 0.7), 3) for _ in range(8)], "xy": [round(r.uniform(-0.6, 0.6), 3) for _ in range(8)]}
    if model == "ising":
        return {"J": round(r.uniform(0.3, 1.5), 3), "g": round(r.uniform(0.2, 1.2), 3)}
    return {"Jx": round(r.uniform(0.3, 1.2), 3), "Jy": round(r.uniform(0.3, 1.2), 3), "Jz": round(r.uniform(0.3, 1.2), 3),
            "h": round(r.uniform(0.0, 0.8), 3)}


def setup_run(inp):
    r = random.Random(inp["sub"])
    model, solver, k, n = inp["model"], inp["solver"], int(inp["k"]), int(inp["L"])
    c = couplings(r, model)
    if "couplings" in inp:   # explicit couplings (e.g. g = 0: Z-basis preparations are conserved, branches die at the SECOND probe)
        c = dict(inp["couplings"])
    if solver == "TJM" and n >= 4:
        dt = 0.01
        durations = [r.choice([0.02, 0.03, 0.05]) for _ in range(k)]
    else:
        dt = r.choice([0.05, 0.1, 0.1, 0.25])
        # decimal literals (0.3, 0.15, …): duration/dt is then *not* an exact integer in binary64 (0.3/0.1 = 2.9999…),
        # which is what `int(np.round(duration / dt))` in the worker has to cope with
        durations = [round(dt * r.choice([1, 1, 2, 3, 3]), 12) for _ in range(k)]
    order = r.choice([1, 2])
    if "durations" in inp:  # explicit input (corpus / replay of an off-grid finding)
        dt = float(inp["dt"])
        durations = [float(x) for x in inp["durations"]]
        order = int(inp.get("order", order))
    op = make_operator(model, n, c)
    h = dense_hamiltonian(model, n, c)
    hm = op.to_matrix()
    dev = float(np.abs(hm - h).max())
    SPEC["ham_n"] += 1
    SPEC["ham_worst"] = max(SPEC["ham_worst"], dev)
    if dev > 1e-9:
        SPEC["ham_bad"] += 1
    params = AnalogSimParams(dt=dt, max_bond_dim=16, order=order, solver=solver, show_progress=False)
    tol = TOL_TJM4 if (solver == "TJM" and n >= 4) else TOL_EXACT
    return r, op, h, params, durations, tol, {"model": model, "L": n, "solver": solver, "order": order, "dt": dt,
                                                "durations": durations, "couplings": c}


def heldout_cases(pt, h, n, durations, tol, g, count, meta, kind):
    out = []
    k = len(durations)
    for q in range(count):
        names, emaps = [], []
        for slot in range(k):
            nm, em = heldout_map(g, slot)
            names.append(nm)
            emaps.append(em)
        pred = real(pt.predict_final_state, emaps)
        ref = exact_final(h, n, durations, emaps)
        dev = float(np.abs(pred - ref).max())
        out.append({"req": None, "impl": None, "kind": kind, "nontrivial": True,
                    "sig": f"{kind}:{meta['model']}:{n}:{meta['solver']}:{meta['order']}:{k}:{'/'.join(names)}",
                    "oracle": {"ok": dev <= tol, "detail": f"held-out {'/'.join(names)} on {meta}: |predict - exact| = {dev:.2e} (tol {tol:.0e})"},
                    "dev": dev, "meta": dict(meta, maps=names, q=q)})
    return out


def comb_entry_cases(pt, h, n, durations, tol, meta, kind):
    """every tensor entry vs the exact unnormalised comb entry of the probe maps rho -> |psi_p><psi_m| rho |psi_m><psi_p|
    (psi: the code's own probe states, alpha -> (p, m) by the code's own index list)"""
    own = [b[1] for b in tomo_mod.get_basis_states()]
    cidx = [tuple(x) for x in pt.choi_indices]
    k = len(durations)
    worst, where = 0.0, None
    wworst = 0.0
    import itertools

    for seq in itertools.product(range(16), repeat=k):
        emaps = [kraus_map([np.outer(own[cidx[a][0]], own[cidx[a][1]].conj())]) for a in seq]
        ref = exact_final(h, n, durations, emaps)
        got = np.asarray(pt.tensor)[(slice(None), *seq)].reshape(2, 2)
        dev = float(np.abs(got - ref).max())
        if dev > worst:
            worst, where = dev, seq
        wworst = max(wworst, abs(float(np.real(np.trace(ref))) - float(pt.weights[seq])))
    return [{"req": None, "impl": None, "kind": kind + "-entries", "sig": f"{kind}-entries:{meta['model']}:{n}:{meta['solver']}:{k}",
             "oracle": {"ok": worst <= tol and wworst <= tol,
                        "detail": f"tensor entries vs exact comb entries on {meta}: worst {worst:.2e} at {where}; weights vs trace {wworst:.2e} (tol {tol:.0e})"},
             "dev": max(worst, wworst), "nontrivial": True}]


def child_heldout(inp):
    SPEC.update(ham_n=0, ham_bad=0, ham_worst=0.0)
    r, op, h, params, durations, tol, meta = setup_run(inp)
    g = np.random.default_rng(inp["sub"])
    pt = real(tomo_mod.run, op, params, timesteps=list(durations))  # the real thing, real process pool
    n = meta["L"]
    out = heldout_cases(pt, h, n, durations, tol, g, 5 if len(durations) < 3 else 3, meta, "heldout")
    if len(durations) <= 2:
        out += comb_entry_cases(pt, h, n, durations, tol, meta, "heldout")
    if inp.get("kind") == "heldout":
        out += comb_real_cases(pt, h, n, durations, tol, random.Random(inp["sub"] + 3), np.random.default_rng(inp["sub"] + 3), meta)
    return out, dict(SPEC)


def run_heldout(inp):
    out, spec = in_child(child_heldout, inp, 240)
    if inp.get("key"):
        for c in out:
            c["key"] = inp["key"]
    for kk in ("ham_n", "ham_bad"):
        SPEC[kk] += spec[kk]
    SPEC["ham_worst"] = max(SPEC["ham_worst"], spec["ham_worst"])
    return out


def child_trace(inp):
    SPEC.update(ham_n=0, ham_bad=0, ham_worst=0.0)
    r, op, h, params, durations, tol, meta = setup_run(inp)
    g = np.random.default_rng(inp["sub"] + 1)
    k, n = len(durations), meta["L"]
    calls, traces, captured = [], {}, {}
    orig_vec = tomo_mod._reprepare_site_zero_vector_forced  # noqa: SLF001
    orig_mps = tomo_mod._reprepare_site_zero_forced  # noqa: SLF001
    orig_par = tomo_mod.run_backend_parallel

    def spy_vec(state_vec, proj_state, new_state):
        before = np.array(state_vec, dtype=complex).copy()
        new_psi, prob = orig_vec(state_vec, proj_state, new_state)
        calls.append({"in": before, "m": basis_index(proj_state), "p": basis_index(new_state), "prob": float(prob),
                      "out": np.array(new_psi).copy(), "variant": "vec"})
        return new_psi, prob

    def spy_mps(mps, proj_state, new_state):
        before = mps_dense(mps)
        prob = orig_mps(mps, proj_state, new_state)
        calls.append({"in": before, "m": basis_index(proj_state), "p": basis_index(new_state), "prob": float(prob),
                      "out": mps_dense(mps), "variant": "mps"})
        return prob

    def serial(worker_fn, *, payload, n_jobs, max_workers, show_progress=True, desc="", **_kw):  # noqa: ARG001
        captured.update(payload)
        sim_mod.WORKER_CTX.clear()
        sim_mod.WORKER_CTX.update(payload)
        for job in range(n_jobs):
            del calls[:]
            res = worker_fn(job)
            traces[job] = ([dict(c) for c in calls], res)
            yield job, res

    tomo_mod._reprepare_site_zero_vector_forced = spy_vec  # noqa: SLF001
    tomo_mod._reprepare_site_zero_forced = spy_mps  # noqa: SLF001
    tomo_mod.run_backend_parallel = serial
    try:
        pt = real(tomo_mod.run, op, params, timesteps=list(durations))
    finally:
        tomo_mod._reprepare_site_zero_vector_forced = orig_vec  # noqa: SLF001
        tomo_mod._reprepare_site_zero_forced = orig_mps  # noqa: SLF001
        tomo_mod.run_backend_parallel = orig_par
    seqs = captured["worker_sequences"]
    idx = captured["choi_indices"]
    by_seq = {tuple(int(x) for x in seqs[job]): traces[job] for job in traces}
    out = []
    # 1. weight walk of every sequence (all of them checked here; a seeded sample is sent to the model)
    order = sorted(by_seq)
    r.shuffle(order)
    dead = [s for s in order if by_seq[s][1][3] < 1e-15]
    live = [s for s in order if by_seq[s][1][3] >= 1e-15]
    dead.sort(key=lambda q: -len(by_seq[q][0]))   # branches that die late first: the count of re-preparations before the break matters there
    chosen = live[:5] + dead[:3]
    for s in chosen:
        cl, res = by_seq[s]
        probs = [c["prob"] for c in cl]
        exp_pm = [tuple(idx[a]) for a in s][: len(cl)]
        got_pm = [(c["p"], c["m"]) for c in cl]
        ok = exp_pm == got_pm and int(res[0]) == [tuple(int(x) for x in q) for q in seqs].index(s)
        edge = any(abs(np.prod(probs[: i + 1]) - 1e-15) < 1e-17 for i in range(len(probs)))
        out.append({"req": f"weights {k} | {rfracs(probs, f'projection probabilities of sequence {s}')}",
                    "impl": f"{ib.fmt(finite(res[3], 'sequence weight').real)} {len(cl)}", "kind": "trace-weights",
                    "sig": f"weights:{k}:{len(cl)}:{res[3] < 1e-15}:{meta['solver']}", "edge": bool(edge), "nontrivial": True,
                    "oracle": {"ok": bool(ok), "detail": f"sequence {s}: probes applied (p,m) {got_pm}, expected {exp_pm}"}})
    # 2. re-preparations seen in situ
    pool = [(s, j) for s in order for j in range(len(by_seq[s][0]))]
    r.shuffle(pool)
    picked, seen = [], set()
    for s, j in pool:
        c = by_seq[s][0][j]
        key = (j, c["prob"] > 1e-9)
        if key in seen and len(picked) >= 3:
            continue
        seen.add(key)
        picked.append((s, j))
        if len(picked) >= 6:
            break
    for s, j in picked:
        c = by_seq[s][0][j]
        d = 2 ** (n - 1)
        cc = reprep_case(d, c["m"], c["p"], c["in"], c["prob"], c["out"], "trace-reprep",
                         f"situ:{c['variant']}:{n}:{j}:{c['prob'] > 1e-9}")
        out.append(cc)
    # 3. aggregated tensor entry = weight * final state, for every sequence
    worst = 0.0
    for s, (cl, res) in by_seq.items():
        got = np.asarray(pt.tensor)[(slice(None), *s)].reshape(2, 2)
        worst = max(worst, float(np.abs(got - res[3] * res[2][0]).max()), abs(float(pt.weights[s]) - res[3]))
    out.append({"req": None, "impl": None, "kind": "trace-aggregate", "sig": f"agg:{k}:{meta['solver']}",
                "oracle": {"ok": worst < 1e-12, "detail": f"tensor[:, seq] vs weight * rho_final of the worker: {worst:.2e}"}})
    # 4. model-independent oracles on this tensor
    out += comb_entry_cases(pt, h, n, durations, tol, meta, "trace")
    out += heldout_cases(pt, h, n, durations, tol, g, 3, meta, "trace-heldout")
    # 5. predict_final_state on the real tensor vs the model's contraction (rational interventions)
    if k == 1 or inp.get("predict_real", True):
        rr = random.Random(inp["sub"] + 2)
        for _ in range(2 if k == 1 else 1):
            js, names = [], []
            for _t in range(k):
                nm, j = synth_choi(rr, g, pt)
                js.append(j)
                names.append(nm)
            out.append(predict_case(pt, k, js, names, "trace-predict", f"realpredict:{k}:{'/'.join(names)}", np.asarray(pt.tensor)))
    return out, dict(SPEC)


def run_trace(inp):
    out, spec = in_child(child_trace, inp, 300)
    for kk in ("ham_n", "ham_bad"):
        SPEC[kk] += spec[kk]
    SPEC["ham_worst"] = max(SPEC["ham_worst"], spec["ham_worst"])
    return out



# ----------------------------------------------------------------------------------------------- exact comb (extension)
class _NpSpy:
    """stands in for the name `np` inside process_tensor.py: records the results of `np.kron`, delegates everything"""

    def __init__(self, log):
        self._log = log

    def __getattr__(self, name):
        return getattr(np, name)

    def kron(self, a, b):
        res = np.kron(a, b)
        self._log.append(np.array(res, dtype=complex).copy())
        return res


def predict_capturing(pt, emaps):
    """real predict_final_state; also returns the Choi matrices its builder accumulated (`j_choi += np.kron(rho_out, e_in)`)"""
    log = []
    orig = pt_mod.np
    pt_mod.np = _NpSpy(log)
    try:
        pred = real(pt.predict_final_state, emaps)
    finally:
        pt_mod.np = orig
    if len(log) != 4 * len(emaps):
        raise CodeRaised(f"predict_final_state called np.kron {len(log)} times for {len(emaps)} interventions (expected 4 each)")
    return pred, [sum(log[4 * t:4 * t + 4]) for t in range(len(emaps))]


def kraus_choi_np(ks):
    """numpy mirror of the model's `krausChoiE`: sum_n vec(A_n) vec(A_n)^dag with the row-major vec"""
    return sum(np.outer(np.asarray(a, dtype=complex).reshape(-1), np.asarray(a, dtype=complex).reshape(-1).conj()) for a in ks)


def apply_choi_np(j, x, d):
    """numpy mirror of the model's `applyChoi`: out[(a,x),(b,y)] = sum_ij J[2a+i, 2b+j] X[(i,x),(j,y)]"""
    return np.einsum("aibj,ixjy->axby", np.asarray(j, dtype=complex).reshape(2, 2, 2, 2),
                     np.asarray(x, dtype=complex).reshape(2, d, 2, d)).reshape(2 * d, 2 * d)


def phys_comb_np(us, x0, js):
    """numpy mirror of the model's `physComb` (slot t: first the intervention J_t, then the segment U_t)"""
    x = np.asarray(x0, dtype=complex)
    d = x.shape[0] // 2
    for u, j in zip(us, js):
        x = apply_choi_np(j, x, d)
        x = u @ x @ u.conj().T
    return np.einsum("axbx->ab", x.reshape(2, d, 2, d))


def kraus_final(us, n, kraus_lists):
    """Kraus-form evolution with given segment matrices (block decomposition, no Choi matrix anywhere)"""
    rho = np.zeros((2**n, 2**n), dtype=complex)
    rho[0, 0] = 1.0
    d = 2 ** (n - 1)
    for u, ks in zip(us, kraus_lists):
        rho = apply_local(rho, kraus_map(ks), n)
        rho = u @ rho @ u.conj().T
    return np.trace(rho.reshape(2, d, 2, d), axis1=1, axis2=3)


def kraus_ops(r, g, slot, rational=False):
    """(name, Kraus operators) of a completely positive single-qubit map that is not one of the 16 probes"""
    kinds = ["unitary", "cptp2", "cptp3", "ampdamp", "dephase", "project", "reset", "ratkraus"]
    if slot == 0:
        kinds = ["unitary", "cptp2", "ampdamp", "reset", "ratkraus"]
    kind = "ratkraus" if rational else r.choice(kinds)
    if kind == "unitary":
        return kind, [rand_unitary(g)]
    if kind in ("cptp2", "cptp3"):
        nk = 2 if kind == "cptp2" else 3
        z = g.normal(size=(2 * nk, 2)) + 1j * g.normal(size=(2 * nk, 2))
        q, _ = np.linalg.qr(z)
        return kind, [q[2 * i:2 * i + 2, :] for i in range(nk)]
    if kind == "ampdamp":
        gam = float(g.uniform(0.05, 0.95))
        u = rand_unitary(g)
        k0 = np.array([[1, 0], [0, np.sqrt(1 - gam)]], dtype=complex)
        k1 = np.array([[0, np.sqrt(gam)], [0, 0]], dtype=complex)
        return kind, [u @ k0 @ u.conj().T, u @ k1 @ u.conj().T]
    if kind == "dephase":
        lam = float(g.uniform(0.1, 0.9))
        u = rand_unitary(g)
        return kind, [np.sqrt(1 - lam) * np.eye(2, dtype=complex), np.sqrt(lam) * (u @ PAULI["Z"] @ u.conj().T)]
    if kind == "project":    # trace decreasing
        v = g.normal(size=2) + 1j * g.normal(size=2)
        v /= np.linalg.norm(v)
        return kind, [np.outer(v, v.conj())]
    if kind == "reset":      # sigma -> Tr(sigma) |phi><phi|
        v = g.normal(size=2) + 1j * g.normal(size=2)
        v /= np.linalg.norm(v)
        return kind, [np.outer(v, [1, 0]).astype(complex), np.outer(v, [0, 1]).astype(complex)]
    # small Gaussian-rational Kraus operators (completely positive, not trace preserving)
    nk = r.choice([1, 2, 3])
    ks = []
    for _ in range(nk):
        a = np.array([rational_c(r, 2) for _ in range(4)]).reshape(2, 2)
        if not np.any(a):
            a[0, 0] = 1.0
        ks.append(a)
    return kind, ks


def comb_req(k, d, us, x0, js):
    return f"comb {k} {d} | " + " | ".join([cvec(u) for u in us] + [cvec(x0)] + [cvec(j) for j in js])


def run_kraus_choi(inp):
    r = random.Random(inp["sub"])
    g = np.random.default_rng(inp["sub"])
    name, ks = kraus_ops(r, g, 1, rational=bool(inp.get("rational")))
    pt = make_pt(np.zeros((4, 16), dtype=complex), 1)
    _pred, js = predict_capturing(pt, [kraus_map(ks)])
    j = finite(js[0], "Choi matrix built by predict_final_state")
    ev = np.linalg.eigvalsh(0.5 * (j + j.conj().T))
    tr = sum(float(np.real(np.trace(a.conj().T @ a))) for a in ks)
    herm = float(np.abs(j - j.conj().T).max())
    ok = ev.min() > -1e-9 * (1 + abs(tr)) and abs(np.trace(j).real - tr) < 1e-9 * (1 + abs(tr)) and herm < 1e-9 * (1 + abs(tr))
    return {"req": "krauschoi | " + " | ".join(cvec(a) for a in ks), "impl": cfmt(j), "kind": "kraus-choi", "nontrivial": True,
            "sig": f"krauschoi:{name}:{len(ks)}",
            "oracle": {"ok": bool(ok), "detail": f"Choi matrix of a {name} map built by predict_final_state: min eigenvalue {ev.min():.2e}, "
                                                  f"trace {np.trace(j).real:.6g} vs sum Tr(A^dag A) {tr:.6g}, non-hermiticity {herm:.1e}"}}


def run_applychoi(inp):
    """the real code's way of applying a held-out map to site 0 of a joint pure state: the 16 forced re-preparations give
    the table, predict_final_state contracts it — one environment block (x, y) at a time"""
    r = random.Random(inp["sub"])
    g = np.random.default_rng(inp["sub"])
    d = r.choice([1, 2, 2, 4])
    style, psi = random_state(r, g, d)
    basis = real(tomo_mod.get_basis_states)
    choi, idx = real(tomo_mod.get_choi_basis)
    mode = r.choice(["kraus", "kraus", "ratkraus", "ratJ"])
    if mode == "ratJ":       # an arbitrary (not completely positive) 4x4 matrix, handed over as the map it defines
        name = "ratJ"
        jm = np.array([rational_c(r, 4) for _ in range(16)]).reshape(4, 4)
        emap = map_of_choi(jm)
        ref_map = emap
    else:
        name, ks = kraus_ops(r, g, 1, rational=(mode == "ratkraus"))
        jm = kraus_choi_np(ks)
        emap = kraus_map(ks)
        ref_map = emap
    branches = []
    for a in range(16):
        p, m = idx[a]
        new_psi, prob = real(tomo_mod._reprepare_site_zero_vector_forced, psi.copy(), basis[m][1], basis[p][1])  # noqa: SLF001
        new_psi = finite(new_psi, "re-prepared state")
        branches.append(float(prob) * np.outer(new_psi, new_psi.conj()).reshape(2, d, 2, d))
    probs_seen = [float(np.real(np.trace(b.reshape(2 * d, 2 * d)))) for b in branches]
    out = np.zeros((2, d, 2, d), dtype=complex)
    for x in range(d):
        for y in range(d):
            t = np.stack([b[:, x, :, y].reshape(4) for b in branches], axis=1)   # shape (4, 16): tensor[o, alpha]
            out[:, x, :, y] = real(make_pt(t, 1).predict_final_state, [emap])
    out = finite(out.reshape(2 * d, 2 * d), "prediction")
    rho_in = np.outer(psi, psi.conj())
    n = int(round(np.log2(2 * d)))
    ref = apply_local(rho_in, ref_map, n)
    sc = 1.0 + float(np.abs(ref).max())
    dev = float(np.abs(out - ref).max())
    edge = any(0 < pr < 1e-9 for pr in probs_seen)
    return {"req": f"applychoi {d} | {cvec(jm)} | {cvec(rho_in)}", "impl": cfmt(out), "kind": "applychoi", "nontrivial": True,
            "edge": bool(edge), "sig": f"applychoi:{d}:{style}:{name}",
            "oracle": {"ok": dev <= 1e-9 * sc, "detail": f"(map x id)(|psi><psi|) through re-preparation table + predict vs block decomposition "
                                                            f"({name}, d={d}, {style}): {dev:.2e}"}}


def mps_from_dense(v, length):
    """an MPS (tensors indexed (phys, left, right)) of a dense vector with site 0 most significant, right-canonical with the
    orthogonality centre at site 0 — the form in which the real TJM back-ends hand their state back (the read-out of site 0
    in `_tomography_sequence_worker` is a local contraction at site 0)"""
    tensors = [None] * length
    rest = np.asarray(v, dtype=complex).reshape(-1, 1)
    for site in range(length - 1, 0, -1):
        chi_r = rest.shape[1]
        m = rest.reshape(-1, 2 * chi_r)              # rows: sites 0..site-1, columns: (s_site, right bond)
        q, rr = np.linalg.qr(m.T)                    # m = rr.T @ q.T, rows of q.T orthonormal
        chi = q.shape[1]
        tensors[site] = q.T.reshape(chi, 2, chi_r).transpose(1, 0, 2).copy()
        rest = rr.T
    tensors[0] = rest.reshape(2, 1, rest.shape[1]).copy()
    return MPS(length, tensors=tensors, physical_dimensions=[2] * length)


def child_comb_exact(inp):
    r = random.Random(inp["sub"])
    g = np.random.default_rng(inp["sub"])
    path, k, n = inp["path"], int(inp["k"]), int(inp["L"])
    d = 2 ** (n - 1)
    dim = 2 * d
    ukind = inp.get("ukind", "unitary")
    if path == "TJM":
        ukind = "unitary"     # the MPS read-out (`expect`, `norm`) is only meant for normalised states
    us = []
    for _ in range(k):
        if ukind == "rational":
            u = np.array([rational_c(r, 2) for _ in range(dim * dim)]).reshape(dim, dim)
            u = u + np.eye(dim) * r.choice([1, 2])
        else:
            u = rand_unitary(g, dim)
        us.append(u)
    dt = 0.1
    durations = [round(dt * (t + 1), 12) for t in range(k)]   # distinct: a fake segment recognises its slot by its duration
    order = r.choice([1, 2])
    params = AnalogSimParams(dt=dt, max_bond_dim=16, order=order, solver=path, show_progress=False)
    op = MPO.ising(length=n, J=1.0, g=0.5)
    seg_calls = []

    def slot_of(duration):
        t = int(np.argmin([abs(duration - x) for x in durations]))
        if abs(durations[t] - duration) > 1e-9:
            raise CodeRaised(f"segment called with duration {duration!r}, not one of {durations}")
        return t

    def fake_mcwf(args):
        _traj, ctx = args
        t = slot_of(ctx.sim_params.elapsed_time)
        seg_calls.append(t)
        ctx.output_state = us[t] @ np.asarray(ctx.psi_initial, dtype=complex)
        return np.zeros((0, 1))

    def fake_tjm(args):
        _traj, state, _noise, sp, _op = args
        t = slot_of(sp.elapsed_time)
        seg_calls.append(t)
        sp.output_state = mps_from_dense(us[t] @ mps_dense(state), n)
        return np.zeros((0, 1))

    def serial(worker_fn, *, payload, n_jobs, max_workers, show_progress=True, desc="", **_kw):  # noqa: ARG001
        sim_mod.WORKER_CTX.clear()
        sim_mod.WORKER_CTX.update(payload)
        for job in range(n_jobs):
            yield job, worker_fn(job)

    saved = (tomo_mod.mcwf, tomo_mod.analog_tjm_1, tomo_mod.analog_tjm_2, tomo_mod.run_backend_parallel)
    tomo_mod.mcwf, tomo_mod.analog_tjm_1, tomo_mod.analog_tjm_2, tomo_mod.run_backend_parallel = fake_mcwf, fake_tjm, fake_tjm, serial
    try:
        pt = real(tomo_mod.run, op, params, timesteps=list(durations))
    finally:
        tomo_mod.mcwf, tomo_mod.analog_tjm_1, tomo_mod.analog_tjm_2, tomo_mod.run_backend_parallel = saved
    tensor = finite(pt.tensor, "process tensor")
    weights = np.asarray(pt.weights, dtype=float)
    x0 = np.zeros((dim, dim), dtype=complex)
    x0[0, 0] = 1.0
    meta = {"path": path, "L": n, "k": k, "segments": ukind, "order": order}
    edge = bool(np.any((weights > 1e-20) & (weights < 1e-10)))
    scale = 1.0 + float(np.abs(tensor).max())
    own = [b[1] for b in tomo_mod.get_basis_states()]
    cidx = [tuple(x) for x in pt.choi_indices]
    out = []
    # (a) table entries = the comb on the probes (hypothesis `htab`), Choi matrices: the code's own basis
    seqs = [tuple(r.randrange(16) for _ in range(k)) for _ in range(3)]
    flat = sorted(np.ndindex(*weights.shape), key=lambda s: weights[s])
    seqs.append(tuple(int(x) for x in flat[0]))      # the lightest branch (dead if any is)
    for seq in seqs:
        got = tensor[(slice(None), *seq)].reshape(2, 2)
        ref = kraus_final(us, n, [[np.outer(own[cidx[a][0]], own[cidx[a][1]].conj())] for a in seq])
        dev = float(np.abs(got - ref).max())
        out.append({"req": comb_req(k, d, us, x0, [pt.choi_basis[a] for a in seq]), "impl": cfmt(got), "kind": "comb-exact-entry",
                    "edge": edge, "nontrivial": True, "sig": f"combentry:{path}:{n}:{k}:{ukind}:{weights[seq] > 1e-12}",
                    "oracle": {"ok": dev <= 1e-9 * scale,
                               "detail": f"tensor[:, {seq}] of a run with exact segments ({meta}) vs Kraus-form evolution with the probe operators: {dev:.2e}"}})
    # (a') the diagnostics of a ProcessTensor are read-only: calling them between two predictions changes neither the stored
    #      tensor nor the prediction (one object serves diagnostics and predictions)
    snap = np.array(pt.tensor, copy=True)
    called = []
    for meth in ("quantum_mutual_information", "to_linear_map_matrix"):
        if hasattr(pt, meth):
            try:
                getattr(pt, meth)()
                called.append(meth)
            except Exception as e:  # noqa: BLE001
                called.append(f"{meth}:{type(e).__name__}")
    dchg = float(np.abs(np.asarray(pt.tensor) - snap).max())
    out.append({"req": None, "impl": None, "kind": "comb-exact-readonly", "sig": f"combro:{path}:{k}",
                "oracle": {"ok": dchg == 0.0,
                           "detail": f"ProcessTensor.tensor after calling {called}: changed by {dchg:.3e} ({meta})"}})
    # (b) held-out completely positive maps
    for _q in range(3):
        names, kls = [], []
        for slot in range(k):
            nm, ks = kraus_ops(r, g, slot)
            names.append(nm)
            kls.append(ks)
        pred = finite(real(pt.predict_final_state, [kraus_map(ks) for ks in kls]), "prediction")
        ref = kraus_final(us, n, kls)
        dev = float(np.abs(pred - ref).max())
        sc = 1.0 + float(np.abs(ref).max()) * scale
        out.append({"req": comb_req(k, d, us, x0, [kraus_choi_np(ks) for ks in kls]), "impl": cfmt(pred), "kind": "comb-exact",
                    "edge": edge, "nontrivial": True, "sig": f"combexact:{path}:{n}:{k}:{ukind}:{'/'.join(names)}",
                    "oracle": {"ok": dev <= 1e-8 * sc,
                               "detail": f"held-out {'/'.join(names)} on a run with exact segments ({meta}): |predict - Kraus-form evolution| = {dev:.2e}"}})
    n_seg = len(seg_calls)
    out.append({"req": None, "impl": None, "kind": "comb-exact-calls", "sig": f"combcalls:{path}:{k}",
                "oracle": {"ok": n_seg <= k * 16**k and all(0 <= t < k for t in seg_calls),
                           "detail": f"{n_seg} segment calls for {16**k} sequences of {k} slots"}})
    return out


def run_comb_exact(inp):
    return in_child(child_comb_exact, inp, 180)


def comb_real_cases(pt, h, n, durations, tol, r, g, meta):
    """real simulation vs the model's exact comb with U_t = expm(-i H t_t): one table entry (hypothesis `htab`), one held-out
    prediction (conclusion of `c17_exact_dynamics`); oracle through the Choi-matrix route"""
    k = len(durations)
    d = 2 ** (n - 1)
    dim = 2 * d
    us = [expm(-1j * h * t) for t in durations]
    x0 = np.zeros((dim, dim), dtype=complex)
    x0[0, 0] = 1.0
    tied = n <= 3       # every back-end is exact up to rounding there (TOL_EXACT); L = 4 TJM only through the oracle
    out = []
    seq = tuple(r.randrange(16) for _ in range(k))
    got = finite(np.asarray(pt.tensor)[(slice(None), *seq)].reshape(2, 2), "tensor entry")
    js = [pt.choi_basis[a] for a in seq]
    ref = phys_comb_np(us, x0, js)
    dev = float(np.abs(got - ref).max())
    out.append({"req": comb_req(k, d, us, x0, js) if tied else None, "impl": cfmt(got) if tied else None, "kind": "comb-real-entry",
                "nontrivial": True, "sig": f"combrealentry:{meta['model']}:{n}:{meta['solver']}:{k}", "dev": dev,
                "oracle": {"ok": dev <= tol, "detail": f"tensor[:, {seq}] on {meta} vs dense comb (Choi route, expm): {dev:.2e} (tol {tol:.0e})"}})
    names, kls = [], []
    for slot in range(k):
        nm, ks = kraus_ops(r, g, slot)
        names.append(nm)
        kls.append(ks)
    pred, jcap = predict_capturing(pt, [kraus_map(ks) for ks in kls])
    pred = finite(pred, "prediction")
    js = [kraus_choi_np(ks) for ks in kls]
    ref = phys_comb_np(us, x0, js)
    dev = float(np.abs(pred - ref).max())
    jdev = max(float(np.abs(a - b).max()) for a, b in zip(jcap, js))
    out.append({"req": comb_req(k, d, us, x0, js) if tied else None, "impl": cfmt(pred) if tied else None, "kind": "comb-real",
                "nontrivial": True, "sig": f"combreal:{meta['model']}:{n}:{meta['solver']}:{meta['order']}:{k}:{'/'.join(names)}", "dev": dev,
                "oracle": {"ok": dev <= tol and jdev <= 1e-9,
                           "detail": f"held-out {'/'.join(names)} on {meta}: |predict - dense comb (Choi route, expm)| = {dev:.2e} (tol {tol:.0e}); "
                                     f"Choi matrices built by the code vs sum vec(A)vec(A)^dag: {jdev:.1e}"}})
    return out


def run(inp):
    try:
        return run_inner(inp)
    except CodeRaised as e:
        return {"req": None, "impl": None, "kind": str(inp["kind"]) + "-raised", "sig": f"raised:{inp['kind']}", "nontrivial": True,
                "oracle": {"ok": False, "detail": f"the code under test raised on {({k: v for k, v in inp.items()})}: {e}"}}


def run_inner(inp):
    k = inp["kind"]
    if k == "frame":
        return run_frame(inp)
    if k == "predict":
        return run_predict(inp)
    if k == "layout":
        return run_layout(inp)
    if k == "reprep-vec":
        return run_reprep_vec(inp)
    if k == "reprep-mps":
        return run_reprep_mps(inp)
    if k in ("heldout", "offgrid"):
        return run_heldout(inp)
    if k == "trace":
        return run_trace(inp)
    if k == "kraus-choi":
        return run_kraus_choi(inp)
    if k == "applychoi":
        return run_applychoi(inp)
    if k == "comb-exact":
        return run_comb_exact(inp)
    raise ValueError(k)


def spec():
    return [{"name": "MPO.to_matrix of the Ising/Heisenberg operator equals the independently built dense Hamiltonian "
                     "(site 0 leftmost), so the dense reference evolves under the same H",
             "ok": SPEC["ham_bad"] == 0, "n": SPEC["ham_n"], "worst_residual": SPEC["ham_worst"]}]


if __name__ == "__main__":
    t_start = time.time()
    ib.main("C17", gen, run, driver="Tomo",
            rule="frame (4 preparations, 16 Choi basis matrices, 16 duals, biorthogonality) + seeded: synthetic rational "
                 "tensors k=1..3 x intervention kinds; storage layout; random small states (dense / MPS, dead branches included) x (m, p); "
                 "real tomography runs (Ising/Heisenberg, L=2..3 (4 thorough), TJM order 1/2 and MCWF, k=1..2 (3 thorough)) "
                 "with in-situ traces and held-out interventions; distinct = distinct (kind, size, back-end, branch) signatures; "
                 "extension (exact comb): Choi matrix of Kraus maps as built by predict_final_state vs krausChoiE; (map x id) on joint pure "
                 "states through the real re-preparation table + predict vs applyChoiE (d = 1, 2, 4); real run/worker/predict with the "
                 "segment back-end replaced by exact given matrices (dense and MPS path, k = 1..2 (3 thorough), L = 2..3, rational "
                 "non-unitary and float unitary) vs physCombT — table entries and held-out Kraus maps; every real `heldout` run "
                 "(L <= 3): one table entry and one held-out Kraus prediction vs physCombT with U_t = expm(-i H t_t)",
            trusted_base=["scipy.linalg.expm / numpy dense linear algebra in the oracles",
                          "multilinearity of the physical comb in the Choi matrices of the interventions (cited, hypothesis of c17_partial)",
                          "for the exact-dynamics model of Model/TomoComb.lean multilinearity is a theorem (physComb_multilinear); "
                          "c17_exact_dynamics keeps only the table hypothesis (the segments of the simulator are the exact evolution), "
                          "measured by the kinds comb-real*, heldout-entries and made true by construction in comb-exact*"],
            assumptions=["states / tensors handed to the model are the binary64 values the implementation saw, as exact rationals",
                         "noise-free dynamics; L <= 3 so that the TDVP bond dimensions saturate and every back-end is exact up to rounding"],
            spec=spec,
            budget_s={"quick": 100, "thorough": 1200, "search": 240}.get(
                next((a for a in sys.argv if a in ("quick", "thorough", "search")), "quick"), 100))
