"""C06 extension — the *content* of the Lindblad and MCWF solvers vs `Model.MasterEq` (driver `Index`, new requests).

trace/value ties (kind prefix `me-`), all on 2-3 qubits with random Pauli-sum Hamiltonians (incl. complex ones) and random
process lists from the noise library (1-site, adjacent 2-site, long-range factor pairs; zero, negative and duplicate
strengths; random order):
  * `lindblad.solve_ivp` is wrapped; the REAL `lindblad_rhs` closure is captured and evaluated on random rational
    Hermitian and non-Hermitian rho; H is the closure's own `h_mat` (what `to_sparse_matrix` returned), shipped exactly  -> me-rhs-herm / me-rhs-gen / me-rhs-trace
  * the closure's `l_dag_l_sum` and `jump_ops`                                                                            -> me-ldagl / me-jumpops-lindblad
  * the kwargs handed to `solve_ivp` (method, rtol, atol, t_eval)                                                         -> me-tol
  * the wrapped `solve_ivp` integrates from a random rational rho, so column 0 of the REAL return value of `lindblad` is
    the real observable evaluation `Tr(O rho).real` on a known rho; a diagnostic observable must come out as 0           -> me-obs
  * `preprocess_mcwf(...).heff` and `.jump_ops`                                                                           -> me-heff / me-jumpops-mcwf
  * one forced pass of the REAL `mcwf` loop (grid of two points): `expm_arnoldi` spied (psi_next recorded), the module's
    `np.random.default_rng` replaced by a recording generator that forces `r` just below / above `p_jump` and the index
    `k`; compared: p_jump, the branch taken, the probability vector handed to `choice`, the reported columns           -> me-step-jump / me-step-nojump / me-step-eps
oracle: the real rhs against an independent dense formula (explicit Kronecker embedding, site 0 leftmost, own operator
table), |Tr rhs| ~ 0, Hermiticity for Hermitian rho; the MCWF pass against `scipy.linalg.expm` of an independent H_eff and
weights from the PRE-step state.
"""
from __future__ import annotations

import importlib
import random
import types
import warnings

import numpy as np
import scipy.linalg as sla

import implbase as ib

warnings.simplefilter("ignore")

from mqt.yaqs.core.data_structures.networks import MPO, MPS  # noqa: E402
from mqt.yaqs.core.data_structures.noise_model import NoiseModel  # noqa: E402
from mqt.yaqs.core.data_structures.simulation_parameters import AnalogSimParams, Observable  # noqa: E402
from mqt.yaqs.core.libraries.gate_library import X, Y, Z  # noqa: E402

lind_mod = importlib.import_module("mqt.yaqs.analog.lindblad")
mcwf_mod = importlib.import_module("mqt.yaqs.analog.mcwf")

I2 = np.eye(2, dtype=complex)
PAULI = {"I": I2, "X": np.array([[0, 1], [1, 0]], complex), "Y": np.array([[0, -1j], [1j, 0]]),
         "Z": np.diag([1.0, -1.0]).astype(complex)}
LOWER = np.array([[0, 1], [0, 0]], complex)
RAISE = LOWER.T.copy()
ONE_SITE = {"lowering": LOWER, "raising": RAISE, "pauli_x": PAULI["X"], "pauli_y": PAULI["Y"], "pauli_z": PAULI["Z"]}
DIAGNOSTICS = {"runtime_cost", "max_bond", "total_bond", "entropy", "schmidt_spectrum"}


# ------------------------------------------------------------------------------------------------------------------
# independent dense reference
# ------------------------------------------------------------------------------------------------------------------
def kron_at(length, ops):
    m = np.eye(1, dtype=complex)
    for i in range(length):
        m = np.kron(m, ops.get(i, I2))
    return m


def dense_h(length, terms):
    h = np.zeros((2**length, 2**length), complex)
    for c, spec in terms:
        ops = {}
        for tok in spec.split():
            ops[int(tok[1:])] = PAULI[tok[0]]
        h += c * kron_at(length, ops)
    return h


def ref_operator(length, name, sites):
    """full-space operator of a library process, from this file's own table"""
    if len(sites) == 1:
        return kron_at(length, {sites[0]: ONE_SITE[name]})
    i, j = sorted(sites)
    if name == "raising_two":
        return kron_at(length, {i: RAISE, j: RAISE})
    if name == "lowering_two":
        return kron_at(length, {i: LOWER, j: LOWER})
    a, b = name.rsplit("_", 1)[-1]
    return kron_at(length, {i: PAULI[a.upper()], j: PAULI[b.upper()]})


def ref_rhs(h, kept, rho):
    """-i[H,rho] + sum_k g_k (L rho L^dag - 1/2 {L^dag L, rho}), term by term"""
    out = -1j * (h @ rho - rho @ h)
    for g, l_op in kept:
        ll = l_op.conj().T @ l_op
        out = out + g * (l_op @ rho @ l_op.conj().T - 0.5 * (ll @ rho + rho @ ll))
    return out


# ------------------------------------------------------------------------------------------------------------------
# random problems
# ------------------------------------------------------------------------------------------------------------------
def rand_terms(rng, length):
    kind = rng.choice(["ising", "heis", "asym", "asym", "asym"])
    t = []
    if kind == "ising":
        j, g = round(rng.uniform(0.3, 1.2), 3), round(rng.uniform(0.3, 1.2), 3)
        t = [(-j, f"Z{i} Z{i + 1}") for i in range(length - 1)] + [(-g, f"X{i}") for i in range(length)]
    elif kind == "heis":
        for i in range(length - 1):
            t += [(round(rng.uniform(0.2, 1), 3), f"{p}{i} {p}{i + 1}") for p in "XYZ"]
        t += [(round(rng.uniform(0.1, 1), 3), f"Z{i}") for i in range(length)]
    else:
        t += [(round(rng.uniform(-1, 1), 3), f"Z{i} Z{i + 1}") for i in range(length - 1)]
        t += [(round(rng.uniform(0.2, 1) * rng.choice([-1, 1]), 3), f"X{i}") for i in range(length)]
        t += [(round(rng.uniform(-1, 1), 3), f"Y{i} X{i + 1}") for i in range(length - 1)]
        t += [(round(rng.uniform(-1, 1), 3), f"Y{i}") for i in range(length) if rng.random() < 0.5]
        if length >= 3:
            t += [(round(rng.uniform(-1, 1), 3), f"X0 Z{length - 1}")]
    return [(float(c), s) for c, s in t if c != 0]


STRENGTHS = [0.0, 0.0, -0.2, 0.1, 0.1, 0.25, 0.37, 0.5, 0.81, 1.3, 2.0]


def rand_procs(rng, length, only_lowering=False):
    """list of (name, sites, strength) as the user would write them"""
    n = rng.randrange(1, 7)
    procs = []
    for _ in range(n):
        g = rng.choice(STRENGTHS)
        if only_lowering:
            procs.append(("lowering", [rng.randrange(length)], abs(g) + 0.1))
            continue
        r = rng.random()
        if r < 0.5 or length < 2:
            procs.append((rng.choice(list(ONE_SITE)), [rng.randrange(length)], g))
        elif r < 0.8:
            i = rng.randrange(length - 1)
            name = rng.choice(["crosstalk_xy", "crosstalk_zx", "crosstalk_yz", "crosstalk_zz", "crosstalk_yy",
                               "raising_two", "lowering_two"])
            sites = [i, i + 1]
            if name in ("crosstalk_zz", "crosstalk_yy") and rng.random() < 0.5:
                sites = [i + 1, i]  # NoiseModel sorts two-site lists; only used with symmetric labels here
            procs.append((name, sites, g))
        elif length >= 3:
            i = rng.randrange(length - 2)
            j = rng.randrange(i + 2, length)
            procs.append((rng.choice(["crosstalk_xy", "crosstalk_yx", "crosstalk_zy", "crosstalk_xz", "crosstalk_xx"]), [i, j], g))
        else:
            procs.append((rng.choice(list(ONE_SITE)), [rng.randrange(length)], g))
    if len(procs) >= 2 and rng.random() < 0.5:  # an exact duplicate (same operator, same strength)
        procs.append(procs[rng.randrange(len(procs))])
    if not any(g > 0 for _, _, g in procs) and not only_lowering and rng.random() < 0.8:
        procs.append(("lowering", [0], 0.5))
    rng.shuffle(procs)
    return procs


def rand_rho(rng, dim, hermitian):
    a = np.array([[complex(rng.randrange(-8, 9), rng.randrange(-8, 9)) / 8 for _ in range(dim)] for _ in range(dim)])
    if hermitian:
        a = (a + a.conj().T) / 2
    return a


def rand_unit(rng, dim):
    v = np.array([complex(rng.randrange(-6, 7), rng.randrange(-6, 7)) for _ in range(dim)])
    if not v.any():
        v[0] = 1
    return v / np.linalg.norm(v)


# ------------------------------------------------------------------------------------------------------------------
# serialisation for the driver
# ------------------------------------------------------------------------------------------------------------------
def ctoks(arr):
    return " ".join(ib.cfrac(z) for z in np.asarray(arr).reshape(-1))


def to_dense(m):
    return np.asarray(m.toarray() if hasattr(m, "toarray") else m, dtype=complex)


def proc_segment(p):
    """from the REAL process dict (after NoiseModel's normalisation)"""
    g = ib.frac(float(p["strength"]))
    sites = list(p["sites"])
    if "matrix" in p:
        m = np.asarray(p["matrix"], dtype=complex)
        if len(sites) == 1:
            return f"p1 {g} {sites[0]} {ctoks(m)}"
        return f"p2 {g} {sites[0]} {sites[1]} {ctoks(m)}"
    a, b = p["factors"]
    return f"pf {g} {sites[0]} {sites[1]} {ctoks(np.asarray(a, dtype=complex))} {ctoks(np.asarray(b, dtype=complex))}"


def obs_segment(o):
    if o.gate.name in DIAGNOSTICS:
        return "od"
    sites = o.sites if isinstance(o.sites, list) else [o.sites]
    m = np.asarray(o.gate.matrix, dtype=complex)
    if len(sites) == 1:
        return f"o1 {sites[0]} {ctoks(m)}"
    return f"o2 {sites[0]} {sites[1]} {ctoks(m)}"


def cfmt(arr):
    return " ".join(f"{ib.fmt(z.real)} {ib.fmt(z.imag)}" for z in np.asarray(arr, dtype=complex).reshape(-1))


def unimodular_or_zero(m):
    a = np.abs(to_dense(m))
    return bool(np.all((a < 1e-14) | (np.abs(a - 1) < 1e-14)))


# ------------------------------------------------------------------------------------------------------------------
def make_observables(rng, length):
    obs = []
    for _ in range(rng.randrange(1, 4)):
        obs.append(Observable(rng.choice([X, Y, Z])(), rng.randrange(length)))
    if rng.random() < 0.6:
        obs.insert(rng.randrange(len(obs) + 1), Observable(rng.choice(["max_bond", "total_bond", "runtime_cost"])))
    return obs


def build(inp):
    rng = random.Random(inp["sub"])
    length = int(inp.get("L") or rng.choice([2, 2, 3, 3, 3]))
    terms = [(float(c), str(s)) for c, s in inp["terms"]] if "terms" in inp else rand_terms(rng, length)
    eps_mode = bool(inp.get("eps", rng.random() < 0.12))
    procs = [(str(n), list(s), float(g)) for n, s, g in inp["procs"]] if "procs" in inp else rand_procs(rng, length, eps_mode)
    return rng, length, terms, procs, eps_mode


def run_mastereq(inp):
    rng, length, terms, procs, eps_mode = build(inp)
    dim = 2**length
    mpo = MPO()
    mpo.from_pauli_sum(terms=terms, length=length)
    nm = NoiseModel([{"name": n, "sites": list(s), "strength": g} for n, s, g in procs])
    state = MPS(length, state="zeros")
    h_ref = dense_h(length, terms)
    kept_ref = [(g, ref_operator(length, n, s)) for n, s, g in procs if g > 0]
    shape = f"L{length}:n{len(procs)}:kept{len(kept_ref)}:zero{sum(1 for p in procs if p[2] == 0)}:neg{sum(1 for p in procs if p[2] < 0)}" \
            f":two{sum(1 for p in procs if len(p[1]) == 2)}:lr{sum(1 for p in procs if len(p[1]) == 2 and abs(p[1][0] - p[1][1]) > 1)}"
    nontriv = len(kept_ref) > 0
    out = []

    # ----------------------------------------------------------------------------------------------- Lindblad
    thr = rng.choice([1e-6, 1e-8, 1e-5, 1e-9])
    obs = make_observables(rng, length)
    t_total, dt = rng.choice([(0.1, 0.1), (0.2, 0.1), (0.1, 0.05)])
    sp = AnalogSimParams(observables=obs, elapsed_time=t_total, dt=dt, num_traj=1, show_progress=False, solver="Lindblad",
                         threshold=thr, sample_timesteps=True)
    rho_obs = rand_rho(rng, dim, hermitian=rng.random() < 0.7)
    seen = []
    orig = lind_mod.solve_ivp

    def spy(fun, t_span, y0, *args, **kw):
        seen.append({"fun": fun, "t_span": t_span, "y0": np.array(y0), "args": args, "kw": dict(kw)})
        return orig(fun, t_span, rho_obs.flatten(), *args, **kw)

    lind_mod.solve_ivp = spy
    try:
        res = lind_mod.lindblad((0, state, nm, sp, mpo))
    finally:
        lind_mod.solve_ivp = orig
    if len(seen) != 1:
        raise RuntimeError(f"lindblad called solve_ivp {len(seen)} times")
    fun = seen[0]["fun"]
    cells = dict(zip(fun.__code__.co_freevars, (c.cell_contents for c in fun.__closure__)))
    h_real = to_dense(cells["h_mat"])
    segs = [proc_segment(p) for p in nm.processes]
    ptxt = "".join(" | " + s for s in segs)

    for tag, herm in (("herm", True), ("gen", False)):
        rho = rand_rho(rng, dim, herm)
        rhs = np.asarray(fun(0.0, rho.flatten())).reshape(dim, dim)
        ref = ref_rhs(h_ref, kept_ref, rho)
        dev = float(np.abs(rhs - ref).max())
        tr = abs(np.trace(rhs))
        hdev = float(np.abs(rhs - rhs.conj().T).max()) if herm else 0.0
        ok = dev <= 1e-9 and tr <= 1e-9 and hdev <= 1e-9
        out.append({"req": f"lindrhs {length} | {ctoks(h_real)} | {ctoks(rho)}{ptxt}", "impl": cfmt(rhs), "kind": f"me-rhs-{tag}",
                    "oracle": {"ok": bool(ok), "detail": f"real lindblad_rhs vs independent dense Lindbladian: max dev {dev:.2e}, |Tr rhs| {tr:.2e}, "
                                                         f"anti-Hermitian part {hdev:.2e} (tol 1e-9) on L={length} terms={terms} procs={procs}"},
                    "sig": f"me-rhs-{tag}:{shape}", "nontrivial": nontriv})
        if not herm:
            out.append({"req": f"lindrhstr {length} | {ctoks(h_real)} | {ctoks(rho)}{ptxt}", "impl": cfmt([np.trace(rhs)]),
                        "kind": "me-rhs-trace", "oracle": None, "sig": f"me-rhs-trace:{shape}", "nontrivial": nontriv})

    ldl = to_dense(cells["l_dag_l_sum"])
    ldl_ref = sum((g * (l_op.conj().T @ l_op) for g, l_op in kept_ref), np.zeros((dim, dim), complex))
    out.append({"req": f"ldagl {length}{ptxt}", "impl": cfmt(ldl), "kind": "me-ldagl",
                "oracle": {"ok": bool(np.abs(ldl - ldl_ref).max() <= 1e-10), "detail": f"l_dag_l_sum vs sum g L^dag L on procs={procs}"},
                "sig": f"me-ldagl:{shape}", "nontrivial": nontriv})

    def jumpops_case(jops, which):
        uni = all(unimodular_or_zero(l_op) for _, l_op in kept_ref)  # then J_ij*|J_ij| = g*L_ij*|L_ij|^2 exactly
        body = " ".join(cfmt(to_dense(j) * np.abs(to_dense(j))) for j in jops)
        impl = f"{len(jops)}" + (" " + body if body else "")
        # the oracle is semantic (an all-zero operator in the list describes the same system; only the tie counts it)
        eff = [to_dense(j) for j in jops if np.abs(to_dense(j)).max(initial=0) > 0]
        okc = len(eff) == len(kept_ref) and all(np.abs(j - np.sqrt(g) * l_op).max() <= 1e-12 for j, (g, l_op) in zip(eff, kept_ref))
        return {"req": f"jumpops {length}{ptxt}", "impl": impl, "kind": f"me-jumpops-{which}", "edge": not uni,
                "oracle": {"ok": bool(okc), "detail": f"{which} jump_ops: {len(jops)} kept ({len(eff)} non-zero), expected the {len(kept_ref)} "
                                                      f"positive-strength processes scaled by sqrt(strength), in list order; procs={procs}"},
                "sig": f"me-jumpops-{which}:{shape}", "nontrivial": len(procs) != len(kept_ref)}

    out.append(jumpops_case(cells["jump_ops"], "lindblad"))

    kw = seen[0]["kw"]
    same_grid = kw.get("t_eval") is sp.times or np.array_equal(kw.get("t_eval"), sp.times)
    out.append({"req": f"lindtol {ib.frac(thr)}", "impl": f"{ib.fmt(kw.get('rtol', -1))} {ib.fmt(kw.get('atol', -1))}", "kind": "me-tol",
                "oracle": {"ok": bool(kw.get("method") == "RK45" and same_grid and seen[0]["t_span"][0] == 0 and seen[0]["t_span"][1] >= sp.times[-1]),
                           "detail": f"solve_ivp called with method={kw.get('method')}, t_eval is the grid: {same_grid}, t_span={seen[0]['t_span']}"},
                "sig": f"me-tol:{thr}", "nontrivial": True})

    sobs = list(sp.sorted_observables)
    res = np.asarray(res)
    col0 = res[:, 0] if res.ndim == 2 and res.shape[0] == len(sobs) else None
    if col0 is None:
        raise RuntimeError(f"unexpected lindblad result shape {res.shape}")
    diag_ok = all(np.all(res[i] == 0) for i, o in enumerate(sobs) if o.gate.name in DIAGNOSTICS)
    out.append({"req": f"lindobs {length} | {ctoks(rho_obs)}" + "".join(" | " + obs_segment(o) for o in sobs),
                "impl": " ".join(ib.fmt(x) for x in col0), "kind": "me-obs",
                "oracle": {"ok": bool(diag_ok and res.shape[1] == len(sp.times)), "detail": f"diagnostic rows all zero: {diag_ok}; shape {res.shape} for {len(sp.times)} grid points"},
                "sig": f"me-obs:L{length}:{[o.gate.name for o in sobs]}", "nontrivial": True})

    # ----------------------------------------------------------------------------------------------- MCWF
    dt = rng.choice([0.1, 0.05, 0.2])
    sample = rng.random() < 0.5
    obs2 = make_observables(rng, length)
    sp2 = AnalogSimParams(observables=obs2, elapsed_time=dt, dt=dt, num_traj=1, show_progress=False, solver="MCWF",
                          sample_timesteps=sample)
    ctx = mcwf_mod.preprocess_mcwf(state, mpo, nm, sp2)
    heff_real = to_dense(ctx.heff)
    heff_ref = h_ref - 0.5j * ldl_ref
    out.append({"req": f"heff {length} | {ctoks(to_dense(mpo.to_sparse_matrix()))}{ptxt}", "impl": cfmt(heff_real), "kind": "me-heff",
                "oracle": {"ok": bool(np.abs(heff_real - heff_ref).max() <= 1e-10), "detail": f"heff vs H - i/2 sum g L^dag L on procs={procs}"},
                "sig": f"me-heff:{shape}", "nontrivial": nontriv})
    out.append(jumpops_case(ctx.jump_ops, "mcwf"))

    sobs2 = list(sp2.sorted_observables)
    osegs = "".join(" | " + obs_segment(o) for o in sobs2)
    o_ref = [None if o.gate.name in DIAGNOSTICS else kron_at(length, {(o.sites if not isinstance(o.sites, list) else o.sites[0]):
                                                                      np.asarray(o.gate.matrix, dtype=complex)}) for o in sobs2]
    modes = ["eps"] if eps_mode else ["jump", "nojump"]
    for mode in modes:
        if mode == "eps":
            psi0 = np.zeros(dim, complex)
            psi0[0] = 1.0
        else:
            psi0 = rand_unit(rng, dim)
        rec = {"next": [], "r": [], "choice": []}
        frac_r = rng.choice([0.5, 0.9, 0.95]) if mode == "jump" else rng.choice([1.05, 1.1, 2.0])

        class FakeRng:
            def random(self):
                nxt = rec["next"][-1]
                pj = 1.0 - np.vdot(nxt, nxt).real
                if mode == "eps":
                    r = -1.0
                elif pj < 1e-4:
                    r = 0.5 if mode == "nojump" else -1.0
                else:
                    r = min(pj * frac_r, 0.999) if mode == "jump" else min(pj * frac_r, 0.5 * (1 + pj))
                rec["r"].append(float(r))
                return float(r)

            def choice(self, n, p=None):
                p = np.array(p, dtype=float)
                cand = [i for i in range(len(p)) if p[i] > 1e-9] or [0]  # (all-NaN weights of a broken tree: still answer)
                k = cand[rec_rng.randrange(len(cand))]
                rec["choice"].append((int(n), p, int(k)))
                return k

        rec_rng = random.Random(rng.randrange(1 << 30))
        shim = types.SimpleNamespace(default_rng=lambda *a, **k: FakeRng())

        class NpShim:
            random = shim

            def __getattr__(self, name):
                return getattr(np, name)

        orig_exp, orig_np = mcwf_mod.expm_arnoldi, mcwf_mod.np

        def spy_exp(*a, **k):
            v = orig_exp(*a, **k)
            rec["next"].append(np.array(v))
            return v

        ctx.psi_initial = psi0.copy()
        mcwf_mod.expm_arnoldi, mcwf_mod.np = spy_exp, NpShim()
        raised = None
        try:
            cols = np.asarray(mcwf_mod.mcwf((0, ctx)))
        except Exception as e:  # noqa: BLE001  (a pass that raises is a verdict about the code, not a harness crash)
            raised = f"{type(e).__name__}: {e}"
        finally:
            mcwf_mod.expm_arnoldi, mcwf_mod.np = orig_exp, orig_np
        if raised is not None:
            out.append({"req": None, "impl": None, "kind": f"me-step-{mode}",
                        "oracle": {"ok": False, "detail": f"one MCWF pass ({mode}) raised {raised}; psi0={psi0.tolist()} dt={dt} L={length} terms={terms} procs={procs}"},
                        "sig": f"me-step-{mode}:exc", "nontrivial": True})
            continue
        if len(rec["next"]) != 1 or len(rec["r"]) != 1:
            raise RuntimeError(f"one MCWF pass expected, saw {len(rec['next'])} propagations, {len(rec['r'])} draws")
        nxt, r = rec["next"][0], rec["r"][0]
        pj = 1.0 - np.vdot(nxt, nxt).real
        w_ref = np.array([g * np.vdot(l_op @ psi0, l_op @ psi0).real for g, l_op in kept_ref])
        if rec["choice"]:
            n_c, p_c, k = rec["choice"][0]
            branch = f"jump {k} pv " + " ".join(ib.fmt(x) for x in p_c)
            post = kept_ref[k][1] @ psi0 if k < len(kept_ref) else nxt
        else:
            k = 0
            branch = "renorm"  # no call of choice: psi_next renormalised (r >= p_jump, or normalization_sum < 1e-15)
            post = nxt
        post = post / np.linalg.norm(post)
        impl = f"{ib.fmt(pj)} {branch} cols " + " ".join(ib.fmt(x) for x in cols.T.reshape(-1))
        # independent reference for the pass
        nxt_ref = sla.expm(-1j * heff_ref * dt) @ psi0
        pj_ref = 1.0 - np.vdot(nxt_ref, nxt_ref).real
        exp_cols = []
        if sample:
            exp_cols.append([0.0 if o is None else np.vdot(psi0, o @ psi0).real for o in o_ref])
        if rec["choice"]:
            post_ref = post
        else:
            post_ref = nxt_ref / np.linalg.norm(nxt_ref)
        exp_cols.append([0.0 if o is None else np.vdot(post_ref, o @ post_ref).real for o in o_ref])
        exp_cols = np.array(exp_cols).T
        okc = abs(pj - pj_ref) <= 1e-7 and cols.shape == exp_cols.shape and float(np.abs(cols - exp_cols).max(initial=0)) <= 1e-7
        # the branch the pass must take for this r, decided on the independent reference (skipped within 1e-7 of p_jump)
        if r < pj_ref - 1e-7 and w_ref.sum() >= 1e-12:
            okc = okc and bool(rec["choice"])
        elif r > pj_ref + 1e-7 or w_ref.sum() == 0:
            okc = okc and not rec["choice"]
        if rec["choice"]:
            okc = okc and n_c == len(kept_ref) and w_ref.sum() > 0 and float(np.abs(p_c - w_ref / w_ref.sum()).max()) <= 1e-9
        elif mode == "eps":
            okc = okc and w_ref.sum() < 1e-15
        edge = abs(r - pj) < 1e-9 or 0 < w_ref.sum() < 1e-12
        out.append({"req": f"mcwfstep {length} {1 if sample else 0} {ib.frac(r)} {k} | {ctoks(psi0)} | {ctoks(nxt)}{osegs}{ptxt}",
                    "impl": impl, "kind": f"me-step-{mode}", "edge": bool(edge),
                    "oracle": {"ok": bool(okc), "detail": f"one MCWF pass ({mode}, r={r:.4g}, dt={dt}, sample_timesteps={sample}, branch taken: {branch.split(' pv')[0]}): p_jump {pj:.6g} vs expm "
                                                          f"reference {pj_ref:.6g}; weights handed to choice vs g|L psi|^2 of the PRE-step state; "
                                                          f"columns {cols.tolist()} vs {exp_cols.tolist()}; L={length} terms={terms} procs={procs}"},
                    "sig": f"me-step-{mode}:{shape}:{sample}:{branch.split()[0]}", "nontrivial": nontriv})
    return out


# ======================================================================================================================
# extension 2 — everything that can be observed of one pass of the MCWF loop vs `Model.MasterEqExec` (kinds `me2-*`)
# ======================================================================================================================
"""(appended) kind `mastereq-step`, driver requests `mcwfstep2` / `purerho`.

One pass of the REAL `mcwf` (grid of two points) with every collaborator observed:
  * `expm_arnoldi` spied; in the *forced* flavours its return value is REPLACED by a vector with small dyadic entries, so that
    `norm_sq`, `p_jump = 1.0 - norm_sq` are exact in binary64 and the draw can be put ON the boundary: `r = p_jump` exactly,
    the float just below, the float just above; also `p_jump = 0` with `r = 0.0` and `p_jump < 0`                  -> me2-boundary
  * `np.random.default_rng` replaced by a recording generator (`r`, and the `k` answered to `choice(n, p=pv)`)
  * `ctx.jump_ops` replaced by recording wrappers: every product `op @ v` is logged with its index AND its argument; the
    argument must be the start-of-step state, bit for bit (oracle), the index sequence is the model's `opCalls`
  * `get_state=True`: `ctx.output_state` after the pass, compared as `|psi><psi|` with the model's rational `postRho`
  * the returned array against `oneStepCols`
flavours: boundary (above) · zero (basis state, lowering AND raising on the same site plus further processes: exact zeros in the
vector handed to `choice`, two processes on one site, non-Hermitian operators) -> me2-zero · tiny (strengths of order 1e-15 on a
basis state: the `normalization_sum < 1e-15` test decided at its own scale, both sides) -> me2-tiny · random (random complex
state, real propagation, r at 0.5..0.999 resp. 1.001..2 times p_jump) -> me2-jump / me2-nojump.
`me2-rho0`: the `y0` the REAL `lindblad` hands to `solve_ivp` (complex product state) against `pureRho` of the REAL
`preprocess_mcwf(...).psi_initial` — `np.outer(psi, psi.conj())`, and both solvers start from the same state.
oracle: independent operator table / `scipy.linalg.expm`: weights from the PRE-step state, new state = normalised `L_k psi`
resp. normalised propagated state, columns = initial resp. NEW state, branch decided on the reference away from the boundary.
"""
import math  # noqa: E402


class _Stop(Exception):
    pass


def _product_state(rng, length):
    """random complex product state: (MPS with explicit tensors, reference vector with site 0 leftmost)"""
    tensors, ref = [], np.ones(1, complex)
    for _ in range(length):
        v = np.array([complex(rng.randrange(-4, 5), rng.randrange(-4, 5)) for _ in range(2)])
        if not v.any():
            v[rng.randrange(2)] = 1
        v = v / np.linalg.norm(v)
        tensors.append(v.reshape(2, 1, 1).copy())
        ref = np.kron(ref, v)
    return MPS(length, tensors=tensors), ref


def _dyadic_vec(rng, dim, target):
    """vector with entries k/8 (k complex integer) whose squared norm is exactly `target` (a multiple of 1/64)"""
    need = round(target * 64)
    v = np.zeros(dim, complex)
    for _ in range(200):
        ks = [[rng.randrange(-5, 6), rng.randrange(-5, 6)] for _ in range(dim)]
        tot = sum(a * a + b * b for a, b in ks)
        if tot == need:
            return np.array([complex(a, b) / 8 for a, b in ks])
    # fall back: put everything on one or two components (need = a^2 + b^2 + c^2 + d^2 always solvable: Lagrange)
    for a in range(int(math.isqrt(need)), -1, -1):
        for b in range(a + 1):
            for c in range(b + 1):
                d2 = need - a * a - b * b - c * c
                if d2 < 0:
                    continue
                d = math.isqrt(d2)
                if d * d == d2:
                    v[0] = complex(a, b) / 8
                    v[1 % dim] += complex(c, d) / 8 if dim > 1 else 0
                    if dim > 1 or (c == 0 and d == 0):
                        return v
    raise RuntimeError("no dyadic vector")


def _one_pass(ctx, psi0, r_policy, k_policy, forced_next=None):
    """run the REAL mcwf for one pass with all collaborators observed; returns the record"""
    rec = {"next": [], "r": [], "choice": [], "calls": [], "args_ok": True, "raised": None}

    class OpSpy:
        def __init__(self, idx, op):
            self.idx, self.op = idx, op

        def __matmul__(self, v):
            rec["calls"].append(self.idx)
            if not (isinstance(v, np.ndarray) and v.shape == psi0.shape and np.array_equal(v, psi0)):
                rec["args_ok"] = False
            return self.op @ v

        def __getattr__(self, name):
            return getattr(self.op, name)

    class FakeRng:
        def random(self):
            nxt = rec["next"][-1]
            pj = 1.0 - np.vdot(nxt, nxt).real
            r = float(r_policy(pj))
            rec["r"].append(r)
            return r

        def choice(self, n, p=None):
            p = np.array(p, dtype=float)
            k = int(k_policy(p))
            rec["choice"].append((int(n), p, k))
            return k

    shim = types.SimpleNamespace(default_rng=lambda *a, **k: FakeRng())

    class NpShim:
        random = shim

        def __getattr__(self, name):
            return getattr(np, name)

    orig_exp, orig_np, orig_ops = mcwf_mod.expm_arnoldi, mcwf_mod.np, ctx.jump_ops

    def spy_exp(*a, **k):
        v = orig_exp(*a, **k)
        if forced_next is not None:
            v = np.array(forced_next, dtype=complex)
        rec["next"].append(np.array(v))
        return v

    ctx.psi_initial = psi0.copy()
    ctx.output_state = None
    ctx.jump_ops = [OpSpy(i, op) for i, op in enumerate(orig_ops)]
    mcwf_mod.expm_arnoldi, mcwf_mod.np = spy_exp, NpShim()
    try:
        rec["cols"] = np.asarray(mcwf_mod.mcwf((0, ctx)))
    except Exception as e:  # noqa: BLE001  (a pass that raises is a verdict about the code, not a harness crash)
        rec["raised"] = f"{type(e).__name__}: {e}"
    finally:
        mcwf_mod.expm_arnoldi, mcwf_mod.np, ctx.jump_ops = orig_exp, orig_np, orig_ops
    rec["out"] = None if ctx.output_state is None else np.array(ctx.output_state)
    return rec


def run_mastereq_step(inp):
    rng = random.Random(inp["sub"])
    flavour = inp.get("flavour") or rng.choice(["boundary", "boundary", "zero", "tiny", "random", "random"])
    length = int(inp.get("L") or rng.choice([2, 2, 3]))
    dim = 2**length
    terms = [(float(c), str(s)) for c, s in inp["terms"]] if "terms" in inp else rand_terms(rng, length)
    basis = None
    if "procs" in inp:
        procs = [(str(n), list(s), float(g)) for n, s, g in inp["procs"]]
    elif flavour == "zero":
        s0 = rng.randrange(length)
        procs = [("lowering", [s0], rng.choice([0.3, 0.7, 1.1])), ("raising", [s0], rng.choice([0.2, 0.5, 0.9]))]
        for _ in range(rng.randrange(0, 4)):
            procs.append((rng.choice(["lowering", "raising", "pauli_z", "pauli_x"]), [rng.randrange(length)], rng.choice([0.0, 0.25, 0.6])))
        if length >= 2 and rng.random() < 0.6:
            i = rng.randrange(length - 1)
            procs.append((rng.choice(["lowering_two", "raising_two", "crosstalk_xy"]), [i, i + 1], rng.choice([0.15, 0.4])))
        rng.shuffle(procs)
    elif flavour == "tiny":
        s0 = rng.randrange(length)
        small = rng.choice([[3e-16, 4e-16], [6e-16, 6e-16], [2e-16], [2.5e-15], [9e-16, 9e-17, 0.0], [4e-16, 4e-16, 4e-16]])
        procs = [(rng.choice(["pauli_z", "pauli_x", "pauli_y"]), [rng.randrange(length)], g) for g in small]
        procs.append(("lowering", [s0], rng.choice([0.5, 1e-15])))  # annihilates the basis state chosen below
        rng.shuffle(procs)
        basis = [0] * length
        for j in range(length):
            if j != s0:
                basis[j] = rng.randrange(2)
    else:
        procs = rand_procs(rng, length)
        if not any(g > 0 for _, _, g in procs):
            procs.append(("lowering", [rng.randrange(length)], 0.5))
    if "basis" in inp:
        basis = list(inp["basis"])
    mpo = MPO()
    mpo.from_pauli_sum(terms=terms, length=length)
    nm = NoiseModel([{"name": n, "sites": list(s), "strength": g} for n, s, g in procs])
    kept_ref = [(g, ref_operator(length, n, s)) for n, s, g in procs if g > 0]
    h_ref = dense_h(length, terms)
    ldl_ref = sum((g * (l_op.conj().T @ l_op) for g, l_op in kept_ref), np.zeros((dim, dim), complex))
    heff_ref = h_ref - 0.5j * ldl_ref
    shape = f"L{length}:n{len(procs)}:kept{len(kept_ref)}:two{sum(1 for p in procs if len(p[1]) == 2)}"
    out = []
    dt = rng.choice([0.1, 0.05, 0.2])
    sample = rng.random() < 0.5
    obs2 = make_observables(rng, length)
    sp2 = AnalogSimParams(observables=obs2, elapsed_time=dt, dt=dt, num_traj=1, show_progress=False, solver="MCWF",
                          sample_timesteps=sample, get_state=True)
    state, psi_ref = _product_state(rng, length)
    ctx = mcwf_mod.preprocess_mcwf(state, mpo, nm, sp2)
    psi_real = np.array(ctx.psi_initial)

    # ------------------------------------------------------------------ me2-rho0: what lindblad integrates from
    if flavour in ("random", "zero"):
        sp1 = AnalogSimParams(observables=obs2, elapsed_time=dt, dt=dt, num_traj=1, show_progress=False, solver="Lindblad",
                              sample_timesteps=True)
        seen = []
        orig = lind_mod.solve_ivp

        def spy(fun, t_span, y0, *args, **kw):
            seen.append(np.array(y0))
            raise _Stop

        lind_mod.solve_ivp = spy
        try:
            lind_mod.lindblad((0, state, nm, sp1, mpo))
        except _Stop:
            pass
        finally:
            lind_mod.solve_ivp = orig
        if len(seen) != 1:
            raise RuntimeError(f"lindblad called solve_ivp {len(seen)} times")
        y0 = seen[0].reshape(dim, dim)
        dev = float(np.abs(y0 - np.outer(psi_ref, psi_ref.conj())).max())
        dev2 = float(np.abs(psi_real - psi_ref).max())
        out.append({"req": f"purerho {length} 1 | {ctoks(psi_real)}", "impl": cfmt(y0), "kind": "me2-rho0",
                    "oracle": {"ok": bool(dev <= 1e-12 and dev2 <= 1e-12),
                               "detail": f"lindblad's y0 vs |psi><psi| of the product state (site 0 leftmost): dev {dev:.2e}; MCWF psi_initial vs the "
                                         f"same vector: dev {dev2:.2e} (tol 1e-12); site vectors {[t.reshape(-1).tolist() for t in state.tensors]}"},
                    "sig": f"me2-rho0:L{length}:{sum(1 for z in psi_ref if abs(z.imag) > 1e-9) > 0}", "nontrivial": bool(np.abs(psi_ref.imag).max() > 1e-9)})

    # ------------------------------------------------------------------ the passes
    sobs2 = list(sp2.sorted_observables)
    osegs = "".join(" | " + obs_segment(o) for o in sobs2)
    o_ref = [None if o.gate.name in DIAGNOSTICS else kron_at(length, {(o.sites if not isinstance(o.sites, list) else o.sites[0]):
                                                                      np.asarray(o.gate.matrix, dtype=complex)}) for o in sobs2]
    segs = [proc_segment(p) for p in nm.processes]
    ptxt = "".join(" | " + s for s in segs)

    def pick_positive(p):
        cand = [i for i in range(len(p)) if p[i] > 1e-9] or [0]
        return cand[rng.randrange(len(cand))]

    passes = []  # (tag, psi0, r_policy, forced_next)
    if flavour == "boundary":
        psi0 = rand_unit(rng, dim)
        tgt = rng.choice([48, 56, 60, 40, 32]) / 64
        nxt = _dyadic_vec(rng, dim, tgt)
        passes += [("at", psi0, lambda pj: pj, nxt),
                   ("below", psi0, lambda pj: np.nextafter(pj, -1.0), nxt),
                   ("above", psi0, lambda pj: np.nextafter(pj, 2.0), nxt)]
        one = _dyadic_vec(rng, dim, 1.0)
        passes.append(("zero-pj", psi0, lambda pj: 0.0, one))
        big = _dyadic_vec(rng, dim, rng.choice([72, 80]) / 64)
        passes.append(("neg-pj", psi0, lambda pj: 0.0, big))
    elif flavour == "zero":
        b = basis or [rng.randrange(2) for _ in range(length)]
        psi0 = np.zeros(dim, complex)
        psi0[int("".join(map(str, b)), 2)] = 1.0
        passes += [("jump", psi0, lambda pj: 0.5 * pj if pj > 1e-6 else -1.0, None),
                   ("nojump", psi0, lambda pj: min(1.5 * pj, 0.5 * (1 + pj)) if pj > 1e-6 else 0.5, None)]
    elif flavour == "tiny":
        psi0 = np.zeros(dim, complex)
        psi0[int("".join(map(str, basis)), 2)] = 1.0
        nxt = _dyadic_vec(rng, dim, 48 / 64)
        passes += [("jump", psi0, lambda pj: 0.5 * pj, nxt), ("nojump", psi0, lambda pj: 1.5 * pj, nxt)]
    else:
        psi0 = rand_unit(rng, dim)
        fj, fn = rng.choice([0.5, 0.9, 0.999]), rng.choice([1.001, 1.1, 2.0])
        passes += [("jump", psi0, lambda pj: min(pj * fj, 0.999) if pj > 1e-4 else -1.0, None),
                   ("nojump", psi0, lambda pj: min(pj * fn, 0.5 * (1 + pj)) if pj > 1e-4 else 0.5, None)]

    for tag, psi0, r_policy, forced in passes:
        kind = f"me2-{flavour}" if flavour in ("boundary", "zero", "tiny") else f"me2-{tag}"
        rec = _one_pass(ctx, psi0, r_policy, pick_positive, forced)
        ctxt = f"flavour={flavour}/{tag} psi0={psi0.tolist()} forced_next={None if forced is None else forced.tolist()} dt={dt} L={length} terms={terms} procs={procs}"
        if rec["raised"] is not None:
            out.append({"req": None, "impl": None, "kind": kind, "sig": f"{kind}:exc", "nontrivial": True,
                        "oracle": {"ok": False, "detail": f"one MCWF pass raised {rec['raised']}; {ctxt}"}})
            continue
        if len(rec["next"]) != 1 or len(rec["r"]) != 1 or rec["out"] is None:
            raise RuntimeError(f"one MCWF pass expected, saw {len(rec['next'])} propagations, {len(rec['r'])} draws, state {rec['out'] is not None}")
        nxt, r, cols, outp = rec["next"][0], rec["r"][0], rec["cols"], rec["out"]
        pj = 1.0 - np.vdot(nxt, nxt).real
        nops = len(ctx.jump_ops)
        if rec["choice"]:
            n_c, p_c, k = rec["choice"][0]
            branch = f"jump {k} pv " + " ".join(ib.fmt(x) for x in p_c)
        elif rec["calls"]:
            k, branch = 0, "nojumpeps"
        else:
            k, branch = 0, "nojump"
        calls = " ".join(str(c) for c in rec["calls"])
        rho = np.outer(outp, outp.conj())
        impl = f"{ib.fmt(pj)} {branch} calls{' ' + calls if calls else ''} rho {cfmt(rho)} cols " + " ".join(ib.fmt(x) for x in cols.T.reshape(-1))
        # ---------------- independent reference
        nxt_ref = np.array(forced, dtype=complex) if forced is not None else sla.expm(-1j * heff_ref * dt) @ psi0
        pj_ref = 1.0 - np.vdot(nxt_ref, nxt_ref).real
        w_ref = np.array([g * np.vdot(l_op @ psi0, l_op @ psi0).real for g, l_op in kept_ref])
        if rec["choice"] and k < len(kept_ref):
            post_ref = kept_ref[k][1] @ psi0
        else:
            post_ref = nxt_ref
        post_ref = post_ref / np.linalg.norm(post_ref)
        exp_cols = []
        if sample:
            exp_cols.append([0.0 if o is None else np.vdot(psi0, o @ psi0).real for o in o_ref])
        exp_cols.append([0.0 if o is None else np.vdot(post_ref, o @ post_ref).real for o in o_ref])
        exp_cols = np.array(exp_cols).T
        why = []
        if abs(pj - pj_ref) > 1e-7:
            why.append(f"p_jump {pj:.9g} vs reference {pj_ref:.9g}")
        if cols.shape != exp_cols.shape or float(np.abs(cols - exp_cols).max(initial=0)) > 1e-7:
            why.append(f"columns {cols.tolist()} vs {exp_cols.tolist()} (initial state resp. NEW state)")
        if float(np.abs(rho - np.outer(post_ref, post_ref.conj())).max()) > 1e-7:
            why.append("output state is not the normalised L_k psi resp. the normalised propagated state")
        if not rec["args_ok"]:
            why.append("a jump operator was multiplied onto a vector that is not the start-of-step state")
        margin = 1e-7 if forced is None else 0.0
        wsum = float(w_ref.sum())
        if forced is not None and r == pj_ref:
            if rec["calls"] or rec["choice"]:
                pass  # the boundary draw: behaviour-equivalent in distribution, left to the correspondence
        elif r < pj_ref - margin:
            if wsum >= 2e-15 and not rec["choice"]:
                why.append(f"r={r!r} < p_jump={pj_ref!r} with total weight {wsum:.3g} but no jump was drawn")
            if wsum < 5e-16 and rec["choice"]:
                why.append(f"total weight {wsum:.3g} < 1e-15 but a jump was drawn")
        elif r > pj_ref + margin and (rec["choice"] or rec["calls"]):
            why.append(f"r={r!r} >= p_jump={pj_ref!r} but the jump branch was entered")
        if rec["choice"]:
            if n_c != len(kept_ref) or wsum <= 0 or len(p_c) != len(kept_ref) or float(np.abs(p_c - w_ref / wsum).max()) > 1e-9:
                why.append(f"vector handed to choice {p_c.tolist()} vs g|L psi|^2/sum of the PRE-step state {(w_ref / wsum).tolist() if wsum > 0 else None}")
            if rec["calls"] != list(range(nops)) + [k]:
                why.append(f"operator products {rec['calls']} vs all {nops} in order, then the chosen {k}")
        edge = (forced is None and abs(r - pj) < 1e-9) or (0 < wsum < 1e-12 and not (wsum < 8e-16 or wsum > 1.15e-15)) \
            or (nops == 0 and r < pj)
        out.append({"req": f"mcwfstep2 {length} {1 if sample else 0} {ib.frac(r)} {k} | {ctoks(psi0)} | {ctoks(nxt)}{osegs}{ptxt}",
                    "impl": impl, "kind": kind, "edge": bool(edge),
                    "oracle": {"ok": not why, "detail": ("; ".join(why) if why else f"pass agrees with the independent reference (p_jump {pj:.6g}, r={r:.6g}, "
                                                                                    f"branch {branch.split(' pv')[0]}, calls {rec['calls']})") + f"; {ctxt}"},
                    "sig": f"{kind}:{tag}:{shape}:{sample}:{branch.split()[0]}:z{int(rec['choice'] != [] and bool((rec['choice'][0][1] == 0).any()))}",
                    "nontrivial": len(kept_ref) > 0})
    return out
