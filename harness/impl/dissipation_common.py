"""Observation of the REAL `apply_dissipation` (mqt.yaqs.core.methods.dissipation) — shared by the `dissip` / `dpipe`
kinds of impl/C03.py.

Nothing is replaced: the collaborators of the function are wrapped for the duration of a call
(`dissipation.np.exp`, `dissipation.expm`, `dissipation.oe.contract`, `dissipation.merge_mps_tensors`,
`dissipation.split_mps_tensor`, `MPS.shift_orthogonality_center_left`) and every wrapper calls the original.  The
recorded operation list is what the model's `dissipationOps` must reproduce:

    Q<i> / V<i>                     shift_orthogonality_center_left(i, "QR" / "SVD")
    s <i> <c>                       tensors[i] *= np.exp(-c)        (site printed `*` when c == 0: a factor 1 is unobservable)
    x1 <i> <8 numbers>              tensors[i] = expm(A) · tensors[i];              numbers = entries of -A (re im, row-major)
    x2 <i-1> <i> <32 numbers>       merge(i-1, i); expm(A) · merged; split "right"; numbers = entries of -A
    raise                           NotImplementedError

The site of a scalar factor is found by comparing all tensors before / after the multiplication.
The dense helpers at the end are used by the model-independent oracle only.
"""
from __future__ import annotations

import numpy as np
import scipy.linalg

import implbase as ib
import lottery_common as lc
from lottery_common import MPS, diss_mod


class _Proxy:
    """module proxy: every attribute of the real module, except the wrapped ones"""

    def __init__(self, real, **over):
        self.__dict__["_real"] = real
        self.__dict__.update(over)

    def __getattr__(self, name):
        return getattr(self._real, name)


class DissTracer:
    def __init__(self):
        self.events = []       # tokens (strings)
        self.ops = []          # structured: ("Q"|"V", i) | ("s", i|None, c) | ("e1", i, negA) | ("e2", i-1, i, negA) | ("raise",)
        self.problems = []     # deviations from the assumed collaborator protocol (reported through `spec`-style detail)
        self.state = None
        self.depth = 0
        self.pending = None
        self.cur = {}
        self.check = None

    # ------------------------------------------------------------------ helpers
    def _site_of(self, tensor):
        if self.state is None:
            return None
        for j, t in enumerate(self.state.tensors):
            if t is tensor:
                return j
        return None

    def _flush(self):
        """resolve a pending scalar multiplication and pending write-back checks"""
        if self.pending is not None:
            c, snap = self.pending
            self.pending = None
            f = float(np.exp(-c))
            changed = []
            for j, (old, new) in enumerate(zip(snap, self.state.tensors)):
                if old.shape != new.shape or not np.array_equal(old, new):
                    changed.append(j)
            if c == 0:
                site = "*" if not changed else "?"
            elif len(changed) == 1 and snap[changed[0]].shape == self.state.tensors[changed[0]].shape and \
                    np.allclose(self.state.tensors[changed[0]], f * snap[changed[0]], rtol=1e-12, atol=1e-300):
                site = changed[0]
            elif not changed and f == 1.0:
                site = "*"
            else:
                site = "?"
                self.problems.append(f"after np.exp({-c!r}) the tensors {changed} changed, not one tensor by that factor")
            self.events.append(f"s {site} {ib.fmt(c)}")
            self.ops.append(("s", site if isinstance(site, int) else None, c))
        if self.check is not None:
            kind, sites, objs = self.check
            self.check = None
            for s, o in zip(sites, objs):
                if not (0 <= s < len(self.state.tensors)) or self.state.tensors[s] is not o:
                    self.problems.append(f"result of the {kind} operation was not written to tensor {s}")

    @staticmethod
    def _mat_tokens(m):
        return " ".join(f"{ib.fmt(z.real)} {ib.fmt(z.imag)}" for z in np.asarray(m, dtype=complex).reshape(-1))

    # ------------------------------------------------------------------ spies
    def _exp(self, x):
        if self.depth and np.ndim(x) == 0:
            self._flush()
            self.pending = (-float(x), [np.array(t, copy=True) for t in self.state.tensors])
        return self._orig["exp"](x)

    def _expm(self, a):
        out = self._orig["expm"](a)
        if self.depth:
            self._flush()
            self.cur = {"negA": -np.array(a, dtype=complex), "expm_out": out}
        return out

    def _merge(self, left, right):
        out = self._orig["merge"](left, right)
        if self.depth:
            self._flush()
            self.cur["pair"] = (self._site_of(left), self._site_of(right))
            self.cur["merged"] = out
        return out

    def _contract(self, expr, *operands, **kw):
        out = self._orig["contract"](expr, *operands, **kw)
        if self.depth:
            self._flush()
            if len(operands) == 2 and operands[0] is self.cur.get("expm_out") and expr.replace(" ", "") == "ab,bcd->acd":
                if "merged" in self.cur and operands[1] is self.cur["merged"]:
                    self.cur["contracted"] = out
                else:
                    j = self._site_of(operands[1])
                    self.events.append(f"x1 {'?' if j is None else j} {self._mat_tokens(self.cur['negA'])}")
                    self.ops.append(("e1", j, self.cur["negA"]))
                    if j is not None:
                        self.check = ("one-site", [j], [out])
                    self.cur = {}
            else:
                self.events.append("contract?")
        return out

    def _split(self, tensor, svd_distribution, sim_params, physical_dimensions, *, dynamic):
        out = self._orig["split"](tensor, svd_distribution, sim_params, physical_dimensions, dynamic=dynamic)
        if self.depth:
            self._flush()
            a, b = self.cur.get("pair", (None, None))
            ok = tensor is self.cur.get("contracted") and svd_distribution == "right" and dynamic is False and a is not None \
                and b is not None and list(physical_dimensions) == [self.state.physical_dimensions[a], self.state.physical_dimensions[b]]
            if ok:
                self.events.append(f"x2 {a} {b} {self._mat_tokens(self.cur['negA'])}")
                self.ops.append(("e2", a, b, self.cur["negA"]))
                self.check = ("two-site", [a, b], [out[0], out[1]])
            else:
                self.events.append(f"split?:{svd_distribution}:{int(bool(dynamic))}")
            self.cur = {}
        return out

    def _shift(self, mps, current_orthogonality_center, decomposition="QR"):
        if self.depth == 1 and mps is self.state:
            self._flush()
            tag = {"QR": "Q", "SVD": "V"}.get(decomposition, "?")
            self.events.append(f"{tag}{int(current_orthogonality_center)}")
            self.ops.append((tag, int(current_orthogonality_center)))
        return self._orig["shift"](mps, current_orthogonality_center, decomposition)

    # ------------------------------------------------------------------ running
    def install(self):
        self._orig = {"exp": np.exp, "expm": diss_mod.expm, "merge": diss_mod.merge_mps_tensors,
                      "split": diss_mod.split_mps_tensor, "contract": diss_mod.oe.contract,
                      "shift": MPS.shift_orthogonality_center_left, "np": diss_mod.np, "oe": diss_mod.oe}
        diss_mod.np = _Proxy(self._orig["np"], exp=self._exp)
        diss_mod.oe = _Proxy(self._orig["oe"], contract=self._contract)
        diss_mod.expm = self._expm
        diss_mod.merge_mps_tensors = self._merge
        diss_mod.split_mps_tensor = self._split
        tracer = self

        def shift_spy(self, current_orthogonality_center, decomposition="QR"):
            return tracer._shift(self, current_orthogonality_center, decomposition)

        MPS.shift_orthogonality_center_left = shift_spy

    def uninstall(self):
        diss_mod.np, diss_mod.oe = self._orig["np"], self._orig["oe"]
        diss_mod.expm, diss_mod.merge_mps_tensors, diss_mod.split_mps_tensor = self._orig["expm"], self._orig["merge"], self._orig["split"]
        MPS.shift_orthogonality_center_left = self._orig["shift"]

    def call(self, real_apply, state, noise_model, dt, sim_params):
        """run the real `apply_dissipation` with the spies listening; returns the number of events recorded before"""
        start = len(self.events)
        self.state = state
        self.depth += 1
        try:
            real_apply(state, noise_model, dt, sim_params)
        except NotImplementedError:
            self._flush()
            self.events.append("raise")
            self.ops.append(("raise",))
            raise
        finally:
            try:
                if self.pending is not None or self.check is not None:
                    self._flush()
            finally:
                self.depth -= 1
                self.cur = {}
        return start


def trace_apply_dissipation(state, noise_model, dt, sim_params):
    """(tokens, structured ops, problems, raised) of one real call"""
    tr = DissTracer()
    tr.install()
    raised = False
    try:
        tr.call(diss_mod.apply_dissipation, state, noise_model, dt, sim_params)
    except NotImplementedError:
        raised = True
    finally:
        tr.uninstall()
    return tr.events, tr.ops, tr.problems, raised


# ----------------------------------------------------------------------------------------------- dense reference (oracle only)
def gram_dense(proc, L):
    op = lc.embed_be(proc, L)
    return op.conj().T @ op


def code_order(processes, L):
    """the order in which the sweep reaches the processes: site L-1 … 0; per site the one-site processes in list order, then the
    two-site processes whose larger site is this one, in list order (written from the documentation of the sweep direction)"""
    out = []
    for i in reversed(range(L)):
        out += [k for k, p in enumerate(processes) if len(p["sites"]) == 1 and p["sites"][0] == i]
        out += [k for k, p in enumerate(processes) if len(p["sites"]) == 2 and max(p["sites"]) == i]
    return out


def reference_after(psi, processes, L, dt):
    """(reference vector, 'commuting' | 'sequential')"""
    grams = [gram_dense(p, L) for p in processes]
    gs = [float(p["strength"]) for p in processes]
    commuting = True
    for a in range(len(grams)):
        for b in range(a + 1, len(grams)):
            if np.max(np.abs(grams[a] @ grams[b] - grams[b] @ grams[a])) > 1e-13:
                commuting = False
    if commuting:
        tot = sum((g * m for g, m in zip(gs, grams)), np.zeros((2 ** L, 2 ** L), dtype=complex))
        return scipy.linalg.expm(-0.5 * dt * tot) @ psi, "commuting"
    out = np.array(psi, dtype=complex)
    for k in code_order(processes, L):
        out = scipy.linalg.expm(-0.5 * dt * gs[k] * grams[k]) @ out
    return out, "sequential"
