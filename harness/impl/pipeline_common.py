"""Shared by harness/impl/C14.py and C15.py: observing the real analog pipelines of mqt.yaqs.

* `traced_tjm`     runs the real `analog_tjm_1` / `analog_tjm_2` with every collaborator name in the `analog_tjm`
                   module namespace wrapped by a spy that records an event token and then calls the original
                   (`local_dynamic_tdvp`, `bug`, `apply_dissipation`, `stochastic_process`, `has_scheduled_jump`,
                   `apply_scheduled_jumps`, `copy.deepcopy`) plus `MPS.evaluate_observables`.
                   Token alphabet = the one of lean/Driver/Pipeline.lean:
                   U Dh Df L S<k> E<col> C<k> F, prefix `c` for an operation on the deep copy made by `sample`.
                   Which object is the propagated state and which the copy is decided by object identity.
* `traced_mcwf`    `simulator.run` with solver="MCWF": `expm_arnoldi` (V), `Generator.random` (L) and every `measure`
                   (E<col>, column decoded from the value the spy observable wrote) are recorded.
* `lindblad_cols`  `simulator.run` with solver="Lindblad": for every returned column, the index of the `solve_ivp`
                   state it was computed from; plus the spec of `solve_ivp(t_eval=times)`.
* `guarded`        runs a function in a forked child with a hard kill (yaqs swallows exceptions and re-runs backends).
* dense references (numpy/scipy only) for the oracles.
"""
from __future__ import annotations

import copy as _copy
import multiprocessing as mp
import struct
import types
import warnings

import numpy as np
import scipy.linalg

warnings.simplefilter("ignore")

from mqt.yaqs import simulator  # noqa: E402
from mqt.yaqs.analog import analog_tjm as at  # noqa: E402
from mqt.yaqs.analog import lindblad as lindblad_mod  # noqa: E402
from mqt.yaqs.analog import mcwf as mcwf_mod  # noqa: E402
from mqt.yaqs.core.data_structures.networks import MPO, MPS  # noqa: E402
from mqt.yaqs.core.data_structures.noise_model import NoiseModel  # noqa: E402
from mqt.yaqs.core.data_structures.simulation_parameters import AnalogSimParams, EvolutionMode, Observable  # noqa: E402
from mqt.yaqs.core.libraries.gate_library import X, Y, Z  # noqa: E402


# ----------------------------------------------------------------------------------------------- plumbing
def tier_from_argv() -> str:
    import sys

    return sys.argv[sys.argv.index("--tier") + 1] if "--tier" in sys.argv[:-1] else "quick"


def bits(x) -> int:
    return struct.unpack("<Q", struct.pack("<d", float(x)))[0]


def _child(conn, fn, args):
    try:
        conn.send(("ok", fn(*args)))
    except BaseException as e:  # noqa: BLE001
        import traceback

        conn.send(("exc", f"{type(e).__name__}: {e}", type(e).__name__, traceback.format_exc()[-1500:]))
    finally:
        conn.close()


def guarded(fn, args=(), timeout=90):
    """fn(*args) in a forked child; returns ("ok", value) | ("exc", text, class, tb) | ("timeout",)"""
    ctx = mp.get_context("fork")
    parent, child = ctx.Pipe(duplex=False)
    p = ctx.Process(target=_child, args=(child, fn, args), daemon=True)
    p.start()
    child.close()
    out = ("timeout",)
    if parent.poll(timeout):
        try:
            out = parent.recv()
        except EOFError:
            out = ("exc", "child died without an answer", "ChildDied", "")
    if p.is_alive():
        p.kill()
    p.join(5)
    return out


# ----------------------------------------------------------------------------------------------- systems
PAULI = {"x": np.array([[0, 1], [1, 0]], dtype=complex), "y": np.array([[0, -1j], [1j, 0]], dtype=complex),
         "z": np.array([[1, 0], [0, -1]], dtype=complex)}
ID2 = np.eye(2, dtype=complex)


def product_state(vecs):
    """MPS of a product state from single-site vectors (site 0 first) and the dense vector with site 0 leftmost"""
    tensors = [np.asarray(v, dtype=complex).reshape(2, 1, 1) for v in vecs]
    mps = MPS(len(vecs), tensors=tensors, physical_dimensions=[2] * len(vecs))
    dense = np.array([1.0 + 0j])
    for v in vecs:
        dense = np.kron(dense, np.asarray(v, dtype=complex))
    return mps, dense / np.linalg.norm(dense)


def site_vecs(rng, L):
    out = []
    for _ in range(L):
        th, ph = rng.uniform(0.2, 2.9), rng.uniform(0, 6.28)
        out.append([np.cos(th / 2), np.exp(1j * ph) * np.sin(th / 2)])
    return out


def embed(op, site, L):
    """dense operator acting on `site` (or on site, site+1 for a 4x4 matrix), site 0 leftmost"""
    k = 1 if op.shape[0] == 2 else 2
    mats = [ID2] * site + [op] + [ID2] * (L - site - k)
    out = np.array([[1.0 + 0j]])
    for m in mats:
        out = np.kron(out, m)
    return out


def ising_dense(L, J, g):
    """H = -J sum Z_i Z_{i+1} - g sum X_i  (the convention of MPO.ising; checked against MPO.to_matrix in `spec`)"""
    H = np.zeros((2**L, 2**L), dtype=complex)
    for i in range(L - 1):
        H += -J * embed(np.kron(PAULI["z"], PAULI["z"]), i, L)
    for i in range(L):
        H += -g * embed(PAULI["x"], i, L)
    return H


def dense_reference(psi0, H, dt, nsteps, jumps_by_index, obs_mats):
    """exact evolution; `jumps_by_index[m]` = list of dense operators applied (in order) on arrival at t_m, then
    renormalised; returns array (len(obs), nsteps+1) of expectation values (column m is after the jump at t_m)"""
    U = scipy.linalg.expm(-1j * dt * H)
    psi = psi0.copy()
    out = np.zeros((len(obs_mats), nsteps + 1))
    for k in range(nsteps + 1):
        if k > 0:
            psi = U @ psi
            for op in jumps_by_index.get(k, []):
                psi = op @ psi
            psi = psi / np.linalg.norm(psi)
        for i, o in enumerate(obs_mats):
            out[i, k] = np.vdot(psi, o @ psi).real
    return out


def all_site_observables(L):
    """Z and X on every site: yaqs observables (in the order they are given) and the dense matrices"""
    obs, mats = [], []
    for i in range(L):
        obs.append(Observable(Z(), i))
        mats.append(embed(PAULI["z"], i, L))
        obs.append(Observable(X(), i))
        mats.append(embed(PAULI["x"], i, L))
    return obs, mats


# ----------------------------------------------------------------------------------------------- TJM trace
def traced_tjm(order, T, dt, samp, jumps, procs, L=2, mode="TDVP", with_model=True):
    """Run the real analog_tjm_<order> once with spies.  Returns dict(tokens, n, times, shape, results)."""
    state = MPS(L, state="zeros")
    state.normalize("B")
    H = MPO.ising(L, 1.0, 0.5)
    nm = None
    if with_model:
        nm = NoiseModel(processes=procs or None, scheduled_jumps=jumps or None)
    sp = AnalogSimParams(observables=[Observable(Z(), 0), Observable(X(), L - 1)], elapsed_time=T, dt=dt, num_traj=1,
                         order=order, sample_timesteps=samp, show_progress=False,
                         evolution_mode=EvolutionMode.BUG if mode == "BUG" else EvolutionMode.TDVP)
    times = [float(t) for t in sp.times]
    ev: list[str] = []
    labels: dict[int, str] = {}
    keep = []          # keep every labelled object alive so ids are never reused
    cur = [0]
    first = [True]

    def lab(o):
        return labels.get(id(o), "?")

    def tag(o):
        l = lab(o)
        if l == "m":
            return ""
        if l == f"c{cur[0]}":
            return "c"
        return "stale:"

    def inherit(r, s):
        if r is not None and id(r) not in labels:
            labels[id(r)] = lab(s)
            keep.append(r)
        return r

    def tindex(t):
        hits = [k for k, x in enumerate(times) if x == t]
        return str(hits[0]) if len(hits) == 1 else "?"

    names = ("local_dynamic_tdvp", "bug", "apply_dissipation", "stochastic_process", "has_scheduled_jump",
             "apply_scheduled_jumps", "copy")
    orig = {k: getattr(at, k) for k in names}

    def deepcopy(o):
        r = _copy.deepcopy(o)
        keep.append(r)
        if first[0]:
            first[0] = False
            labels[id(r)] = "m"
        else:
            cur[0] += 1
            labels[id(r)] = f"c{cur[0]}"
            ev.append("F" if lab(o) == "m" else "F?")
        return r

    def tdvp(s, h, p):
        ev.append(tag(s) + "U")
        return orig["local_dynamic_tdvp"](s, h, p)

    def bug(s, h, p):
        ev.append(tag(s) + "U")
        return orig["bug"](s, h, p)

    def diss(s, nmodel, d, p):
        f = "h" if d == p.dt / 2 else ("f" if d == p.dt else "?")
        ev.append(tag(s) + "D" + f)
        return orig["apply_dissipation"](s, nmodel, d, p)

    def lot(s, nmodel, d, p, rng=None):
        ev.append(tag(s) + "L" + ("" if d == p.dt else "?"))
        return inherit(orig["stochastic_process"](s, nmodel, d, p, rng=rng), s)

    def has(nmodel, t, d):
        ev.append("C" + tindex(t) + ("" if d == sp.dt else "?"))
        return orig["has_scheduled_jump"](nmodel, t, d)

    def asj(s, nmodel, t, p):
        ev.append(tag(s) + "S" + tindex(t))
        return inherit(orig["apply_scheduled_jumps"](s, nmodel, t, p), s)

    orig_eval = MPS.evaluate_observables
    widths = []

    def ev_obs(self, p, results, column_index=0):
        ev.append(tag(self) + f"E{column_index}")
        widths.append(results.shape[1])
        return orig_eval(self, p, results, column_index)

    at.local_dynamic_tdvp = tdvp
    at.bug = bug
    at.apply_dissipation = diss
    at.stochastic_process = lot
    at.has_scheduled_jump = has
    at.apply_scheduled_jumps = asj
    at.copy = types.SimpleNamespace(deepcopy=deepcopy)
    MPS.evaluate_observables = ev_obs
    try:
        fn = at.analog_tjm_1 if order == 1 else at.analog_tjm_2
        res = fn((0, state, nm, sp, H))
    finally:
        for k, v in orig.items():
            setattr(at, k, v)
        MPS.evaluate_observables = orig_eval
    return {"tokens": ev, "n": len(times), "times": times, "shape": list(res.shape),
            "results": np.asarray(res, dtype=float).tolist()}


# ----------------------------------------------------------------------------------------------- MCWF / Lindblad
class _SpyVecOp:
    """stands in for an embedded observable: the k-th application returns k·psi, so <psi|O psi> = k"""

    def __init__(self, log, tag):
        self.log, self.tag = log, tag

    def __matmul__(self, psi):
        self.log.append(("E", self.tag))
        return float(len([1 for e in self.log if e[0] == "E" and e[1] == self.tag])) * np.asarray(psi)


class _SpyMatOp:
    """Lindblad: `np.trace(op @ rho)`; returns a matrix whose trace is the index of the state rho among the
    columns of solve_ivp's result (decided by array equality)"""

    def __init__(self, holder):
        self.holder = holder
        self.seen = []

    def __matmul__(self, rho):
        ys = self.holder["y"]
        flat = np.asarray(rho).reshape(-1)
        hit = [k for k in range(ys.shape[1]) if np.array_equal(ys[:, k], flat)]
        k = hit[0] if len(hit) == 1 else -1
        self.seen.append(k)
        out = np.zeros(rho.shape, dtype=complex)
        out[0, 0] = float(k)
        return out


_REAL_DEFAULT_RNG = np.random.default_rng


class _SpyRng:
    force_jump = False   # when set, every uniform draw is 0.0: a jump fires at every step whose jump probability is > 0

    def __init__(self, log):
        self._g = _REAL_DEFAULT_RNG(12345)
        self._log = log

    def random(self, *a, **k):
        self._log.append(("L", None))
        r = self._g.random(*a, **k)
        return 0.0 if _SpyRng.force_jump else r

    def choice(self, *a, **k):
        return self._g.choice(*a, **k)

    def __getattr__(self, name):
        return getattr(self._g, name)


def _mini_system(L, T, dt, samp, solver, noisy):
    # "jump": excited initial state and a drawn uniform of 0.0, so that a jump fires at every step
    state = MPS(L, state="ones" if noisy == "jump" else "zeros")
    H = MPO.ising(L, 1.0, 0.5)
    nm = NoiseModel(processes=[{"name": "lowering", "sites": [0], "strength": 0.1},
                               {"name": "pauli_x", "sites": [1], "strength": 0.2}] if noisy == "jump" else
                    [{"name": "lowering", "sites": [0], "strength": 0.1}]) if noisy else None
    obs = [Observable(Z(), 0)]
    sp = AnalogSimParams(observables=obs, elapsed_time=T, dt=dt, num_traj=2 if noisy else 1, sample_timesteps=samp,
                         show_progress=False, solver=solver, threshold=1e-8)
    return state, H, nm, sp, obs


def traced_mcwf(T, dt, samp, noisy, L=2):
    """simulator.run(solver=MCWF) with spies.  Returns tokens of trajectory 0 and the result array shape/decoding."""
    state, H, nm, sp, obs = _mini_system(L, T, dt, samp, "MCWF", noisy)
    n = len(sp.times)
    log: list = []
    per_traj: list = []
    orig_embed = mcwf_mod._embed_observable_sparse  # noqa: SLF001
    orig_arnoldi = mcwf_mod.expm_arnoldi
    orig_rng = np.random.default_rng
    orig_mcwf = simulator.mcwf

    def embed_spy(o, num_sites):
        return _SpyVecOp(log, "obs")

    def arnoldi(f, psi, d, *a, **k):
        log.append(("V", None if d == sp.dt else "?"))
        return orig_arnoldi(f, psi, d, *a, **k)

    def mcwf_spy(args):
        del log[:]
        res = orig_mcwf(args)
        per_traj.append((list(log), np.array(res, dtype=float)))
        return res

    mcwf_mod._embed_observable_sparse = embed_spy  # noqa: SLF001
    mcwf_mod.expm_arnoldi = arnoldi
    np.random.default_rng = lambda *a, **k: _SpyRng(log)
    simulator.mcwf = mcwf_spy
    _SpyRng.force_jump = noisy == "jump"
    try:
        simulator.run(state, H, sp, nm, parallel=False)
    finally:
        _SpyRng.force_jump = False
        mcwf_mod._embed_observable_sparse = orig_embed  # noqa: SLF001
        mcwf_mod.expm_arnoldi = orig_arnoldi
        np.random.default_rng = orig_rng
        simulator.mcwf = orig_mcwf
    lg, res = per_traj[0]
    # the k-th measure call wrote the value k: find its column in the *internal* array is not possible from outside;
    # the returned array is what we see.  Internal column of measure call k = position where value k sits when all
    # columns are returned; with sampling off only the last internal column is returned, its value tells which call.
    returned = [int(round(v)) for v in res[0]]
    where = {k: c for c, k in enumerate(returned) if k > 0} if samp else {returned[0]: n - 1}
    tokens = []
    kth = 0
    for e in lg:
        if e[0] == "E":
            kth += 1
            tokens.append(f"E{where[kth]}" if kth in where else "E?")
        else:
            tokens.append(e[0] + (e[1] or ""))
    return {"tokens": tokens, "returned_calls": returned, "n": n, "shape": list(res.shape),
            "user_len": int(np.asarray(obs[0].results).shape[0]), "ntraj_run": len(per_traj)}


def lindblad_cols(T, dt, samp, noisy, L=2):
    state, H, nm, sp, obs = _mini_system(L, T, dt, samp, "Lindblad", noisy)
    n = len(sp.times)
    holder: dict = {}
    spy = _SpyMatOp(holder)
    spec = {"t_equals_times": None, "ycols": None}
    orig_embed = lindblad_mod._embed_observable_sparse  # noqa: SLF001
    orig_ivp = lindblad_mod.solve_ivp

    def ivp(*a, **k):
        r = orig_ivp(*a, **k)
        holder["y"] = np.array(r.y)
        te = np.asarray(k.get("t_eval"))
        spec["t_equals_times"] = bool(np.array_equal(np.asarray(r.t), te) and np.array_equal(te, np.asarray(sp.times)))
        spec["ycols"] = int(r.y.shape[1])
        return r

    lindblad_mod._embed_observable_sparse = lambda o, num_sites: spy  # noqa: SLF001
    lindblad_mod.solve_ivp = ivp
    try:
        simulator.run(state, H, sp, nm, parallel=False)
    finally:
        lindblad_mod._embed_observable_sparse = orig_embed  # noqa: SLF001
        lindblad_mod.solve_ivp = orig_ivp
    res = np.asarray(obs[0].results, dtype=float)
    return {"steps": [int(round(v)) for v in res], "n": n, "user_len": int(res.shape[0]), "spec": spec,
            "evals": list(spy.seen)}
