"""C13 — implementation side: the real `run_backend_parallel` (and its four callers) under a deterministic scheduler.

trace tie : `simulator.ProcessPoolExecutor`, `simulator.wait` (and `simulator.tqdm`) are replaced, inside try/finally, by a
            fake pool whose futures complete only when the fake `wait` says so.  Which in-flight futures complete in which
            order and how (`ok` / one of `retry_exceptions` / any other exception) is decided by a seeded chooser or an
            exhaustive enumerator.  The *realised* batches are the event list sent to the Lean driver; the log of the real
            run (every `ex.submit`, every `wait`, every `(i, res)` the generator yields, the exception that leaves it,
            `len(futures)` at each of these moments) must equal the model's log token by token.
front-ends: `_run_strong_sim`, `_run_weak_sim`, `_run_analog` (TJM 1/2, MCWF, Lindblad) and `tomography.run` with the real
            worker wrappers (`_digital_strong_worker`, … reading `WORKER_CTX`) but stub backends; the stitched
            `Observable.trajectories` / `WeakSimParams.measurements` / process-tensor weights must equal the model's table.
serial    : the serial paths with stub backends and injected failures vs `serialRun`.
oracle    : (model-independent) every index delivered exactly once with a result computed for that index by an attempt
            that completed without error; row i holds the result of i; pool-level in-flight <= 2*workers; a fatal or
            budget-exhausting failure reaches the caller as the very exception object; nothing is submitted after the
            generator ended; serial and parallel call the backend for the same index set.
"""
from __future__ import annotations

import concurrent.futures as cf
import itertools
import random
import sys
import warnings
from concurrent.futures.process import BrokenProcessPool

import numpy as np

import implbase as ib

warnings.simplefilter("ignore")

from mqt.yaqs import simulator as sim  # noqa: E402
from mqt.yaqs.characterization.tomography import tomography as tomo  # noqa: E402
from mqt.yaqs.core.data_structures import simulation_parameters as sp_mod  # noqa: E402
from mqt.yaqs.core.data_structures.networks import MPO, MPS  # noqa: E402
from mqt.yaqs.core.data_structures.noise_model import NoiseModel  # noqa: E402
from mqt.yaqs.core.data_structures.simulation_parameters import (  # noqa: E402
    AnalogSimParams,
    Observable,
    StrongSimParams,
    WeakSimParams,
)
from mqt.yaqs.core.libraries.gate_library import X, Z  # noqa: E402

OUT_NAMES = {"ok": "ok", "retry": "retry", "fatal": "fatal"}
DEFAULT_RETRY = (cf.CancelledError, TimeoutError, OSError)
FATAL_CLASSES = [ValueError, RuntimeError, BrokenProcessPool, MemoryError, KeyError, AssertionError, TypeError,
                 ZeroDivisionError, np.linalg.LinAlgError]
DOCUMENTED_FACTOR = 2  # "keeping only a limited number of futures active (2 * max_workers) at any time"


class StopSchedule(BaseException):
    """raised by the fake `wait` when a scripted schedule is used up (the run is left open)"""


class Runaway(BaseException):
    """raised by the fake pool when the loop submits more attempts than any retry budget allows (never on correct code):
    stops a run that would otherwise not terminate"""


class Res:
    """what the stub worker returns: which index it was called with, by which attempt"""

    __slots__ = ("job", "attempt")

    def __init__(self, job, attempt):
        self.job, self.attempt = job, attempt


class FakeFuture:
    def __init__(self, sched, aid, fn, args):
        self.sched, self.aid, self.fn, self.args = sched, aid, fn, args
        self.state = "pending"      # pending | finished
        self.outcome = None
        self.value = None
        self.exc = None
        self.returned = False       # handed out by wait() in a done set
        self.result_calls = 0

    # -- the part of the Future API the loop may use
    def result(self, timeout=None):  # noqa: ARG002
        self.result_calls += 1
        self.sched.result_order.append(self.aid)
        if self.state != "finished":
            self.sched.problems.append(f"result() called on attempt {self.aid} that has not completed")
            raise RuntimeError("fake future not finished")
        if self.exc is not None:
            raise self.exc
        return self.value

    def exception(self, timeout=None):  # noqa: ARG002
        return self.exc

    def done(self):
        return self.state == "finished"

    def cancelled(self):
        return False

    def running(self):
        return self.state == "pending"

    def cancel(self):
        return False

    def add_done_callback(self, fn):
        self.sched.problems.append("add_done_callback used (not modelled)")


class DoneList(list):
    """`done` of the fake wait: iterates in the order chosen by the schedule (a real set iterates in hash order)"""

    __hash__ = None


class Sched:
    """one deterministic pool + schedule; install() patches the simulator module's namespace"""

    def __init__(self, chooser, retry_classes=DEFAULT_RETRY, worker_result=None, attempt_limit=None):
        self.chooser = chooser
        self.attempt_limit = attempt_limit   # n_jobs * (max_retries + 1): more submissions than that cannot be legitimate
        self.runaway = False
        self.retry_classes = list(retry_classes)
        self.worker_result = worker_result
        self.log = []              # tokens
        self.batches = []          # realised event list
        self.futs = []             # every future ever submitted (index = attempt id)
        self.result_order = []
        self.problems = []
        self.hw_dict = 0           # max len(futures) observed
        self.hw_pool = 0           # max number of submitted-and-not-completed attempts
        self.pool_kwargs = None
        self.n_pools = 0
        self.shutdown_calls = 0
        self.submits_after_shutdown = 0
        self.init_calls = 0
        self.current_attempt = None
        self.futures_dict = None
        self.pbar_total = None
        self.pbar_updates = 0
        self.wait_args = []
        self.exc_counter = 0

    # ---- pool
    def executor_class(self):
        sched = self

        class FakeExecutor:
            def __init__(self, max_workers=None, mp_context=None, initializer=None, initargs=()):
                sched.n_pools += 1
                sched.pool_kwargs = {"max_workers": max_workers, "mp_context": mp_context,
                                     "initializer": initializer, "initargs": initargs}
                self.closed = False
                if max_workers is not None and max_workers <= 0:
                    raise ValueError("max_workers must be greater than 0")
                if initializer is not None:      # one "worker process": the initializer runs once, in-process
                    sched.init_calls += 1
                    initializer(*initargs)

            def __enter__(self):
                return self

            def __exit__(self, *exc):
                self.shutdown(wait=True)
                return False

            def shutdown(self, wait=True, *, cancel_futures=False):  # noqa: ARG002, FBT002
                self.closed = True
                sched.shutdown_calls += 1

            def submit(self, fn, /, *args, **kwargs):
                if self.closed:
                    sched.submits_after_shutdown += 1
                    raise RuntimeError("cannot schedule new futures after shutdown")
                if kwargs:
                    sched.problems.append("submit with kwargs")
                if sched.attempt_limit is not None and len(sched.futs) >= sched.attempt_limit:
                    sched.runaway = True
                    sched.problems.append(f"more than {sched.attempt_limit} attempts submitted: the retry budget is not enforced "
                                          "(the drain loop would not terminate)")
                    raise Runaway
                fut = FakeFuture(sched, len(sched.futs), fn, args)
                sched.futs.append(fut)
                job = args[0] if args else None
                n_dict = sched.peek_dict_len()
                sched.log.append(f"s:{job}:{n_dict + 1}")
                sched.hw_dict = max(sched.hw_dict, n_dict + 1)
                sched.hw_pool = max(sched.hw_pool, sum(1 for f in sched.futs if f.state == "pending"))
                return fut

        return FakeExecutor

    def peek_dict_len(self):
        """len(futures) of the real loop at the moment of the `ex.submit` call (the new future is inserted after it)"""
        try:
            fr = sys._getframe(2)  # noqa: SLF001   submit <- submit_job / caller
            for _ in range(3):
                d = fr.f_locals.get("futures")
                if isinstance(d, dict):
                    self.futures_dict = d
                    return len(d)
                fr = fr.f_back
                if fr is None:
                    break
        except (ValueError, AttributeError):
            pass
        if self.futures_dict is not None:
            return len(self.futures_dict)
        # fallback: own accounting — attempts whose result() was not asked for yet (minus the one being created)
        return sum(1 for f in self.futs[:-1] if f.result_calls == 0)

    # ---- wait
    def wait(self, fs, timeout=None, return_when=cf.ALL_COMPLETED):
        self.wait_args.append((timeout, return_when))
        if isinstance(fs, dict):
            self.futures_dict = fs
        keys = list(fs)
        if self.attempt_limit is not None and len(self.wait_args) > 2 * self.attempt_limit + 10:
            self.runaway = True
            self.problems.append("wait() called more often than there can be attempts: the drain loop does not terminate")
            raise Runaway
        self.log.append(f"w:{len(keys)}")
        self.hw_dict = max(self.hw_dict, len(keys))
        if not keys:
            self.problems.append("wait() called with no futures")
            return DoneList(), set()
        stale = [f for f in keys if f.state == "finished"]
        if stale:
            # a real wait() returns already finished futures at once
            self.problems.append(f"wait() handed {len(stale)} future(s) that had already completed")
            for f in stale:
                f.returned = True
            return DoneList(stale), {f for f in keys if f.state != "finished"}
        batch = self.chooser.choose([(f.aid, f.args[0] if f.args else None) for f in keys], self)
        if not batch:
            raise StopSchedule
        self.batches.append(list(batch))
        done = DoneList()
        for pos, outcome in batch:
            f = keys[pos]
            self.complete(f, outcome)
            f.returned = True
            done.append(f)
        return done, {f for f in keys if f.state == "pending"}

    def complete(self, f, outcome):
        f.outcome = outcome
        if outcome == "ok":
            self.current_attempt = f.aid
            try:
                f.value = f.fn(*f.args)
            except Exception as e:  # noqa: BLE001   a stub backend that fails on purpose
                f.exc = e
                if not hasattr(e, "_aid"):
                    e._aid, e._job = f.aid, (f.args[0] if f.args else None)  # noqa: SLF001
            finally:
                self.current_attempt = None
        else:
            fatal = [c for c in FATAL_CLASSES if not issubclass(c, tuple(self.retry_classes))]
            classes = self.retry_classes if outcome == "retry" else fatal
            cls = classes[self.exc_counter % len(classes)]
            self.exc_counter += 1
            e = cls(f"injected {outcome} failure of attempt {f.aid}")
            e._aid, e._job = f.aid, (f.args[0] if f.args else None)  # noqa: SLF001
            f.exc = e
        f.state = "finished"

    # ---- tqdm
    def tqdm_class(self):
        sched = self

        class FakeBar:
            def __init__(self, iterable=None, total=None, **kw):  # noqa: ARG002
                self.iterable = iterable
                sched.pbar_total = total

            def __enter__(self):
                return self

            def __exit__(self, *exc):
                return False

            def __iter__(self):
                return iter(self.iterable)

            def update(self, n=1):
                sched.pbar_updates += n

            def close(self):
                pass

        return FakeBar

    def install(self):
        return Patch(sim, ProcessPoolExecutor=self.executor_class(), wait=self.wait, tqdm=self.tqdm_class())

    def events_text(self):
        return " ".join("w " + " ".join(f"c:{p}:{OUT_NAMES[o]}" for p, o in b) for b in self.batches)


class Patch:
    """setattr(module, name, value) for the duration of a with-block"""

    def __init__(self, module, **attrs):
        self.module, self.attrs, self.saved = module, attrs, {}

    def __enter__(self):
        for k, v in self.attrs.items():
            self.saved[k] = getattr(self.module, k)
            setattr(self.module, k, v)
        return self

    def __exit__(self, *exc):
        for k, v in self.saved.items():
            setattr(self.module, k, v)
        return False


# --------------------------------------------------------------------------- choosers
class RandomChooser:
    """seeded schedule: batch sizes, positions and outcomes by profile"""

    def __init__(self, seed, profile, n_jobs):
        self.rng = random.Random(seed)
        self.profile = profile
        self.victims = set(self.rng.sample(range(n_jobs), k=min(n_jobs, self.rng.choice([1, 1, 2])))) if n_jobs else set()
        self.fatal_at = self.rng.randrange(0, max(1, 2 * n_jobs))
        self.count = 0

    def outcome(self, job):
        r, p = self.rng, self.profile
        self.count += 1
        if p in ("clean", "bigbatch", "lifo", "fifo"):
            return "ok"
        if p == "flaky":
            return "retry" if r.random() < 0.3 else "ok"
        if p == "exhaust":
            return "retry" if job in self.victims else ("retry" if r.random() < 0.1 else "ok")
        if p == "fatal":
            if self.count - 1 == self.fatal_at:
                return "fatal"
            return "retry" if r.random() < 0.15 else "ok"
        if p == "allretry":
            return "retry"
        if p == "mixed":
            x = r.random()
            return "fatal" if x < 0.03 else ("retry" if x < 0.3 else "ok")
        raise ValueError(p)

    def choose(self, inflight, sched):  # noqa: ARG002
        k = len(inflight)
        r = self.rng
        if self.profile == "bigbatch":
            size = k
        elif self.profile in ("lifo", "fifo"):
            size = 1
        else:
            size = 1 if r.random() < 0.6 else r.randint(1, k)
        if self.profile == "lifo":
            poss = [k - 1]
        elif self.profile == "fifo":
            poss = [0]
        else:
            poss = r.sample(range(k), size)
        return [(p, self.outcome(inflight[p][1])) for p in poss]


class ScriptChooser:
    """follow `script` (list of batches); afterwards either stop (open run) or take option 0 of `options(k)` and
    remember the alternatives (stateless exhaustive exploration)."""

    def __init__(self, script, options=None):
        self.script = [[(int(p), str(o)) for p, o in b] for b in script]
        self.options = options
        self.pos = 0
        self.alternatives = []   # (depth, [other batches])

    def choose(self, inflight, sched):  # noqa: ARG002
        k = len(inflight)
        if self.pos < len(self.script):
            b = self.script[self.pos]
            self.pos += 1
            if any(p >= k for p, _ in b) or len({p for p, _ in b}) != len(b):
                raise StopSchedule  # the script does not fit the run (reported by the caller)
            return b
        if self.options is None:
            return []
        opts = self.options(k)
        self.alternatives.append((self.pos, opts[1:]))
        self.pos += 1
        return opts[0]


class UniformChooser:
    """uniform over the options of the exhaustive enumeration (sampling of scopes too large to enumerate)"""

    def __init__(self, seed, maxbatch):
        self.rng = random.Random(seed)
        self.options = batch_options(maxbatch)

    def choose(self, inflight, sched):  # noqa: ARG002
        opts = self.options(len(inflight))
        return opts[self.rng.randrange(len(opts))]


def batch_options(maxbatch):
    def options(k):
        out = []
        for size in range(1, min(k, maxbatch) + 1):
            for poss in itertools.permutations(range(k), size):
                for outs in itertools.product(("ok", "retry", "fatal"), repeat=size):
                    out.append(list(zip(poss, outs)))
        return out

    return options


# --------------------------------------------------------------------------- the pure scheduler tie
def drive_scheduler(n, w, R, chooser, retry_classes=DEFAULT_RETRY, show_progress=False, light_init=False):  # noqa: N803
    """light_init: replace `worker_init` (thread caps via threadpoolctl / importlib, ~5 ms per pool) by a recorder;
    used only by the exhaustive enumeration, where one pool is created per schedule"""
    sched = Sched(chooser, retry_classes, attempt_limit=n * (R + 1))
    calls = []

    def work(idx):
        calls.append((idx, sched.current_attempt))
        return Res(idx, sched.current_attempt)

    yields, end, raised = [], None, None
    init_patch = Patch(sim, worker_init=lambda payload, n_threads=1: None) if light_init else Patch(sim)  # noqa: ARG005
    with sched.install(), init_patch:
        gen = sim.run_backend_parallel(worker_fn=work, payload=None, n_jobs=n, max_workers=w, show_progress=show_progress,
                                       desc="verif", max_retries=R, retry_exceptions=tuple(retry_classes))
        try:
            for i, res in gen:
                yields.append((i, res))
                rj = getattr(res, "job", "?")
                ra = getattr(res, "attempt", "?")
                sched.log.append(f"y:{i}:{rj}:{ra}")
        except StopSchedule:
            end = "open"
        except Runaway:
            end = "runaway"
        except BaseException as e:  # noqa: BLE001
            raised = e
            end = f"raised:{getattr(e, '_job', '?')}:{getattr(e, '_aid', type(e).__name__)}"
            sched.log.append(f"x:{getattr(e, '_job', '?')}:{getattr(e, '_aid', type(e).__name__)}")
        else:
            end = "done"
        finally:
            gen.close()
    return sched, yields, end, raised, calls


def oracle_scheduler(n, w, R, sched, yields, end, raised, calls):  # noqa: N803
    """direct statement of the property on what the real generator did (no model involved)"""
    probs = list(sched.problems)
    idxs = [i for i, _ in yields]
    if len(set(idxs)) != len(idxs):
        dup = sorted({i for i in idxs if idxs.count(i) > 1})
        probs.append(f"indices delivered more than once: {dup}")
    if any(not (0 <= i < n) for i in idxs):
        probs.append(f"index outside range(n_jobs) delivered: {idxs}")
    if end == "done" and sorted(idxs) != list(range(n)):
        probs.append(f"generator finished but delivered {sorted(idxs)} instead of every index of range({n})")
    used = set()
    for i, res in yields:
        if not isinstance(res, Res):
            probs.append(f"index {i} delivered with a foreign result {res!r}")
            continue
        if res.job != i:
            probs.append(f"index {i} delivered with the result computed for index {res.job}")
        f = sched.futs[res.attempt] if res.attempt is not None and res.attempt < len(sched.futs) else None
        if f is None or f.outcome != "ok" or f.value is not res:
            probs.append(f"index {i}: result does not belong to a successfully completed attempt")
        if res.attempt in used:
            probs.append(f"result of attempt {res.attempt} delivered twice")
        used.add(res.attempt)
    # in flight
    if sched.pool_kwargs is not None and sched.pool_kwargs["max_workers"] != w:
        probs.append(f"pool created with max_workers={sched.pool_kwargs['max_workers']} instead of {w}")
    if sched.hw_pool > DOCUMENTED_FACTOR * w:
        probs.append(f"{sched.hw_pool} tasks in flight in the pool > {DOCUMENTED_FACTOR}*{w}")
    if sched.hw_dict > DOCUMENTED_FACTOR * w:
        probs.append(f"len(futures) reached {sched.hw_dict} > {DOCUMENTED_FACTOR}*{w}")
    # failures: processed = result() was called on the future
    processed = [sched.futs[a] for a in sched.result_order]
    retry_seen = {}
    must_raise = None
    for f in processed:
        job = f.args[0]
        if f.outcome == "fatal":
            must_raise = f
            break
        if f.outcome == "retry":
            if retry_seen.get(job, 0) >= R:
                must_raise = f
                break
            retry_seen[job] = retry_seen.get(job, 0) + 1
    if must_raise is not None:
        if raised is None:
            probs.append(f"{must_raise.outcome} failure of attempt {must_raise.aid} (index {must_raise.args[0]}, "
                         f"budget {R}) was dropped: generator ended with {end}")
        elif raised is not must_raise.exc:
            probs.append(f"caller received {type(raised).__name__} instead of the failure of attempt {must_raise.aid}")
    elif raised is not None and end != "open":
        probs.append(f"caller received {type(raised).__name__} although no fatal / budget-exhausting failure was processed")
    # every retryable failure within budget is followed by a fresh attempt on the same index
    if end in ("done", "open") or must_raise is not None:
        attempts_per_job = {}
        for f in sched.futs:
            attempts_per_job[f.args[0]] = attempts_per_job.get(f.args[0], 0) + 1
        for job, cnt in attempts_per_job.items():
            exp = 1 + retry_seen.get(job, 0)
            if cnt != exp:
                probs.append(f"index {job}: {cnt} attempts submitted, expected 1 + {retry_seen.get(job, 0)} retries")
    # each successful attempt ran the worker exactly once
    if len(calls) != len(set(calls)):
        probs.append("worker function called twice for the same attempt")
    if any(f.result_calls > 1 for f in sched.futs):
        probs.append("result() asked twice of the same future")
    if sched.submits_after_shutdown:
        probs.append("submit after shutdown")
    if end in ("done",) or raised is not None:
        if sched.shutdown_calls < 1:
            probs.append("pool never shut down")
    if end == "done":
        left = [f.aid for f in sched.futs if f.state == "pending"]
        if left:
            probs.append(f"generator finished with attempts {left} still pending")
        if sched.pbar_total is not None and (sched.pbar_total != n or sched.pbar_updates != n):
            probs.append(f"progress bar total={sched.pbar_total} updates={sched.pbar_updates} for {n} jobs")
    return probs


def sched_case(n, w, R, sched, yields, end, raised, calls, kind, extra_sig=""):  # noqa: N803
    hw = sched.hw_dict
    order = ",".join(str(i) for i, _ in yields) or "-"
    impl = " ".join(sched.log) + f" | hw={hw} | order={order} | end={end}"
    req = f"sched {n} {w} {R} | {sched.events_text()}"
    probs = oracle_scheduler(n, w, R, sched, yields, end, raised, calls)
    n_retry = sum(1 for b in sched.batches for _, o in b if o == "retry")
    maxb = max((len(b) for b in sched.batches), default=0)
    return {"req": req, "impl": impl, "oracle": {"ok": not probs, "detail": "; ".join(probs[:4]) or "ok"},
            "kind": kind, "sig": f"{kind}:{n}:{w}:{R}:{end.split(':')[0]}:{min(n_retry, 5)}:{min(maxb, 3)}{extra_sig}",
            "nontrivial": n >= 2 and len(sched.batches) >= 2}


def run_sched_random(inp):
    n, w, R = inp["n"], inp["w"], inp["R"]  # noqa: N806
    retry = DEFAULT_RETRY if not inp.get("custom_retry") else (KeyError, cf.CancelledError)
    sched, yields, end, raised, calls = drive_scheduler(n, w, R, RandomChooser(inp["sub"], inp["profile"], n),
                                                       retry_classes=retry, show_progress=bool(inp.get("progress")))
    c = sched_case(n, w, R, sched, yields, end, raised, calls, "sched-random", ":" + inp["profile"])
    return c


def run_sched_script(inp):
    """explicit schedule (corpus / replay)"""
    n, w, R = inp["n"], inp["w"], inp["R"]  # noqa: N806
    sched, yields, end, raised, calls = drive_scheduler(n, w, R, ScriptChooser(inp["script"]))
    return sched_case(n, w, R, sched, yields, end, raised, calls, "sched-script")


def run_sched_exhaustive(inp):
    """every schedule of the scope: stateless depth-first exploration, one real run per complete schedule"""
    n, w, R, maxbatch = inp["n"], inp["w"], inp["R"], inp.get("maxbatch", 1)  # noqa: N806
    limit = inp.get("limit", 10**9)
    opts = batch_options(maxbatch)
    stack = [[]]
    out = []
    while stack and len(out) < limit:
        prefix = stack.pop()
        ch = ScriptChooser(prefix, opts)
        sched, yields, end, raised, calls = drive_scheduler(n, w, R, ch, light_init=len(out) >= 5)
        path = sched.batches
        for depth, alts in ch.alternatives:
            for alt in alts:
                stack.append(path[:depth] + [alt])
        c = sched_case(n, w, R, sched, yields, end, raised, calls, "sched-exhaustive", f":b{maxbatch}")
        c["input"] = {"kind": "sched-script", "n": n, "w": w, "R": R, "script": [[list(m) for m in b] for b in path]}
        if not c["oracle"]["ok"] or len(out) < 3:
            pass
        else:
            c["oracle"] = {"ok": True, "detail": ""}
        out.append(c)
    if stack:
        out.append({"req": None, "impl": None, "oracle": None, "kind": "sched-exhaustive-truncated",
                    "sig": f"trunc:{n}:{w}:{R}:{maxbatch}", "nontrivial": False})
    return out


def run_sched_sample(inp):
    n, w, R, mb = inp["n"], inp["w"], inp["R"], inp.get("maxbatch", 1)  # noqa: N806
    rng = random.Random(inp["sub"])
    out = []
    for k in range(inp["count"]):
        sched, yields, end, raised, calls = drive_scheduler(n, w, R, UniformChooser(rng.randrange(1 << 30), mb), light_init=k >= 5)
        c = sched_case(n, w, R, sched, yields, end, raised, calls, "sched-sample", f":b{mb}")
        c["input"] = {"kind": "sched-script", "n": n, "w": w, "R": R, "script": [[list(m) for m in b] for b in sched.batches]}
        out.append(c)
    return out


# --------------------------------------------------------------------------- front ends
SENTINEL = -7.0


def value_of(job, attempt, k):
    return 10000 * job + 10 * attempt + k


class FrontEnd:
    """common driver of the four callers: patched scheduler, patched cpu count, stub backends"""

    def __init__(self, inp):
        self.inp = inp
        self.n, self.cpus, self.profile = inp["n"], inp["cpus"], inp["profile"]
        self.w = max(1, self.cpus - 1)
        self.sched = Sched(RandomChooser(inp["sub"], self.profile, self.n) if "script" not in inp
                           else ScriptChooser(inp["script"]), attempt_limit=self.n * 11)
        self.backend_calls = []   # (index, attempt or None)
        self.serial_fail = set(inp.get("serial_fail", []))

    def attempt(self):
        return self.sched.current_attempt


def make_noise(L):  # noqa: N803
    return NoiseModel([{"name": "lowering", "sites": [i], "strength": 0.1} for i in range(L)])


def init_spy():
    """fill freshly allocated trajectory storage with a sentinel so that a never-written row is visible"""
    orig = Observable.initialize

    def initialize(self, sim_params):
        orig(self, sim_params)
        if self.trajectories is not None:
            self.trajectories[...] = SENTINEL

    return Patch(Observable, initialize=initialize)


def table_text(rows):
    return " | ".join(" ".join("-" if v == SENTINEL else str(int(round(v))) for v in row) for row in rows)


def run_front(inp):  # noqa: C901, PLR0912, PLR0915
    which = inp["which"]
    fe = FrontEnd(inp)
    n, w, sched = fe.n, fe.w, fe.sched
    L = 2  # noqa: N806
    parallel = inp.get("parallel", True)
    n_obs = inp.get("n_obs", 2)
    width_holder = {}

    def rows_for(idx):
        a = fe.attempt()
        fe.backend_calls.append((idx, a))
        if not parallel and idx in fe.serial_fail:
            e = ValueError(f"injected serial failure of index {idx}")
            e._job, e._aid = idx, "serial"  # noqa: SLF001
            raise e
        a = 0 if a is None else a
        return [np.full(width_holder["w"], float(value_of(idx, a, k))) for k in range(n_obs)]

    end, raised = "done", None
    state = MPS(L, state="zeros")
    noise = make_noise(L)
    cases = []
    # serial mode hands available_cpus() to numba.set_num_threads, which refuses more than NUMBA_NUM_THREADS (=1 here)
    cpus_seen = fe.cpus if parallel else 1
    patches = [sched.install(), Patch(sim, available_cpus=lambda: cpus_seen), init_spy()]
    # the user's listing order is deliberately NOT the site order, so that sorted_observables != observables and a
    # stitch by user index (instead of by position in the sorted list the back-ends use) is visible
    import itertools  # noqa: PLC0415

    base_obs = [Observable(Z(), 1), Observable(X(), 0), Observable(Z(), 0)][:n_obs]
    perms = list(itertools.permutations(range(len(base_obs))))
    obs_list = [base_obs[j] for j in perms[(n + w + len(which)) % len(perms)]]
    try:
        if which in ("strong", "strong-layers"):
            from qiskit.circuit import QuantumCircuit  # noqa: PLC0415

            qc = QuantumCircuit(L)
            qc.h(0)
            if which == "strong-layers":
                qc.barrier(label="SAMPLE_OBSERVABLES")
                qc.cx(0, 1)
            params = StrongSimParams(obs_list, num_traj=n, show_progress=False, sample_layers=(which == "strong-layers"))
            width_holder["w"] = 3 if which == "strong-layers" else 1

            def stub_tjm(args):
                return rows_for(args[0])

            patches.append(Patch(sim, digital_tjm=stub_tjm))
            call = lambda: sim._run_strong_sim(state, qc, params, noise, parallel=parallel)  # noqa: E731, SLF001
        elif which == "weak":
            from qiskit.circuit import QuantumCircuit  # noqa: PLC0415

            qc = QuantumCircuit(L)
            qc.h(0)
            qc.measure_all()
            params = WeakSimParams(shots=n, show_progress=False)

            def stub_tjm(args):
                idx = args[0]
                a = fe.attempt()
                fe.backend_calls.append((idx, a))
                if not parallel and idx in fe.serial_fail:
                    e = ValueError(f"injected serial failure of index {idx}")
                    e._job, e._aid = idx, "serial"  # noqa: SLF001
                    raise e
                return {value_of(idx, 0 if a is None else a, 0): 1}

            patches.append(Patch(sim, digital_tjm=stub_tjm))
            call = lambda: sim._run_weak_sim(state, qc, params, noise, parallel=parallel)  # noqa: E731, SLF001
        else:  # analog family
            solver = {"analog1": "TJM", "analog2": "TJM", "mcwf": "MCWF"}[which]
            order = 2 if which == "analog2" else 1
            params = AnalogSimParams(obs_list, elapsed_time=0.2, dt=0.1, num_traj=n, order=order, show_progress=False,
                                     solver=solver, sample_timesteps=inp.get("sample_timesteps", True))
            width_holder["w"] = len(params.times) if params.sample_timesteps else 1
            H = MPO.ising(L, 1.0, 0.5)  # noqa: N806

            def stub_backend(args):
                return rows_for(args[0])

            patches.append(Patch(sim, analog_tjm_1=stub_backend, analog_tjm_2=stub_backend, mcwf=stub_backend,
                                 preprocess_mcwf=lambda *a, **k: {"stub": "ctx"}))  # noqa: ARG005
            call = lambda: sim._run_analog(state, H, params, noise, parallel=parallel)  # noqa: E731, SLF001
        with contextlib_stack(patches):
            try:
                call()
            except StopSchedule:
                end = "open"
            except Runaway:
                end = "runaway"
            except BaseException as e:  # noqa: BLE001
                raised = e
                end = f"raised:{getattr(e, '_job', '?')}:{getattr(e, '_aid', type(e).__name__)}"
    finally:
        pass

    probs = list(sched.problems)
    # ---- what was stitched
    if which == "weak":
        meas = params.measurements
        slots = ["-" if m is None else str(next(iter(m))) for m in meas]
        table = " ".join(slots)
        written = {i: next(iter(m)) for i, m in enumerate(meas) if m is not None}
        for i, v in written.items():
            if v // 10000 != i:
                probs.append(f"measurement slot {i} holds the result computed for index {v // 10000}")
        if end == "done":
            if len(written) != n:
                probs.append(f"{n - len(written)} measurement slots never written")
            if params.shots != n:
                probs.append(f"shots is {params.shots} after the run, {n} requested")
            if sum(params.results.values()) != n:
                probs.append(f"aggregated {sum(params.results.values())} shots, {n} requested")
    else:
        rows = []
        for k, ob in enumerate(params.sorted_observables):
            tr = np.asarray(ob.trajectories)
            col = tr[:, 0].real
            rows.append(list(col))
            for i, v in enumerate(col):
                if v == SENTINEL:
                    if end == "done":
                        probs.append(f"row {i} of observable {k} never written")
                    continue
                if not np.all(tr[i].real == v):
                    probs.append(f"row {i} of observable {k} is not uniform")
                vi = int(round(v))
                if vi // 10000 != i or vi % 10 != k:
                    probs.append(f"row {i} of observable {k} holds the result of index {vi // 10000}, observable {vi % 10}")
            if end == "done" and ob.results is not None and SENTINEL not in col:
                if abs(float(np.asarray(ob.results).real.ravel()[0]) - float(np.mean(col))) > 1e-6 * max(1.0, abs(float(np.mean(col)))):
                    probs.append(f"observable {k}: results is not the mean over the rows")
        table = table_text(rows)
        if end == "done" and params.num_traj != n:
            probs.append(f"num_traj is {params.num_traj} after the run, {n} requested")

    idx_set = sorted({i for i, _ in fe.backend_calls})
    if parallel and n > 1:
        if sched.pool_kwargs is None:
            probs.append("parallel run did not create a pool")
        else:
            if sched.pool_kwargs["max_workers"] != w:
                probs.append(f"pool has {sched.pool_kwargs['max_workers']} workers, expected max(1, cpus-1) = {w}")
            if sched.hw_pool > DOCUMENTED_FACTOR * w or sched.hw_dict > DOCUMENTED_FACTOR * w:
                probs.append(f"in flight {max(sched.hw_pool, sched.hw_dict)} > {DOCUMENTED_FACTOR}*{w}")
            init = sched.pool_kwargs["initializer"]
            if init is not sim.worker_init:
                probs.append("pool initializer is not worker_init")
        # failures
        processed = [sched.futs[a] for a in sched.result_order]
        seen, must = {}, None
        for f in processed:
            j = f.args[0]
            if f.outcome == "fatal":
                must = f
                break
            if f.outcome == "retry":
                if seen.get(j, 0) >= 10:
                    must = f
                    break
                seen[j] = seen.get(j, 0) + 1
        if must is not None and raised is not must.exc:
            probs.append(f"{must.outcome} failure of attempt {must.aid} did not reach the caller (end={end})")
        if must is None and raised is not None:
            probs.append(f"caller received {type(raised).__name__} without a fatal / budget-exhausting failure")
        if end == "done" and idx_set != list(range(n)):
            probs.append(f"backend ran for indices {idx_set}, expected range({n})")
        kind_req = {"weak": "meas"}.get(which, f"front {n_obs}")
        req = f"{kind_req} {n} {w} 10 | {sched.events_text()}"
        impl = f"{table} | end={end}"
    else:
        # serial path
        if sched.n_pools:
            probs.append("serial run created a pool")
        flags = [1 if i in fe.serial_fail else 0 for i in range(n)]
        first_fail = next((i for i in range(n) if flags[i]), None)
        calls = [i for i, _ in fe.backend_calls]
        exp_calls = list(range(n)) if first_fail is None else list(range(first_fail + 1))
        if calls != exp_calls:
            probs.append(f"serial backend calls {calls}, expected {exp_calls} (each index once, stop at the first failure)")
        if first_fail is None and end != "done":
            probs.append(f"serial run without failure ended {end}")
        if first_fail is not None and (raised is None or getattr(raised, "_job", None) != first_fail):
            probs.append(f"failure of index {first_fail} did not reach the caller (end={end})")
        if which == "weak":
            order = [i for i, m in enumerate(params.measurements) if m is not None]
        else:
            order = [i for i, v in enumerate(rows[0]) if v != SENTINEL] if rows else []
        req = f"serial {n} | {' '.join(map(str, flags))}"
        end_s = "done" if end == "done" else f"raised:{getattr(raised, '_job', '?')}"
        impl = (f"calls={','.join(map(str, calls)) or '-'} | order={','.join(map(str, order)) or '-'} | end={end_s}")
    cases.append({"req": req, "impl": impl, "oracle": {"ok": not probs, "detail": "; ".join(probs[:4]) or "ok"},
                  "kind": f"front-{which}" + ("" if parallel else "-serial"),
                  "sig": f"front:{which}:{parallel}:{n}:{w}:{end.split(':')[0]}:{inp['profile']}:{len(sched.batches) > n}",
                  "nontrivial": n >= 2, "key": inp.get("key")})
    cases[-1]["calls_set"] = idx_set
    return cases


class contextlib_stack:  # noqa: N801
    def __init__(self, patches):
        self.patches = patches

    def __enter__(self):
        self.entered = []
        for p in self.patches:
            p.__enter__()
            self.entered.append(p)
        return self

    def __exit__(self, *exc):
        for p in reversed(self.entered):
            p.__exit__(*exc)
        return False


def run_same_set(inp):
    """serial and parallel modes call the backend for the same set of trajectory indices"""
    a = run_front(dict(inp, parallel=True, profile="flaky"))[0]
    b = run_front(dict(inp, parallel=False, profile="clean"))[0]
    ok = a["calls_set"] == b["calls_set"] == list(range(inp["n"])) and a["oracle"]["ok"] and b["oracle"]["ok"]
    detail = "ok" if ok else f"parallel ran {a['calls_set']}, serial ran {b['calls_set']}; {a['oracle']['detail']}; {b['oracle']['detail']}"
    return {"req": None, "impl": None, "oracle": {"ok": ok, "detail": detail}, "kind": "same-set",
            "sig": f"same:{inp['which']}:{inp['n']}", "nontrivial": True}


def run_tomo(inp):
    n_traj, cpus = inp["n_traj"], inp["cpus"]
    w = max(1, cpus - 1)
    n = 16 * n_traj
    sched = Sched(RandomChooser(inp["sub"], inp["profile"], n), attempt_limit=n * 11)
    calls = []

    def stub_worker(job_idx):
        a = sched.current_attempt
        calls.append((job_idx, a))
        nt = sim.WORKER_CTX["num_trajectories"]
        return (job_idx // nt, job_idx % nt, [np.eye(2, dtype=np.complex128) * 0.5], float(value_of(job_idx, a, 1)))

    L = 2  # noqa: N806
    H = MPO.ising(L, 1.0, 0.5)  # noqa: N806
    params = AnalogSimParams([Observable(Z(), 0)], elapsed_time=0.1, dt=0.1, num_traj=1, show_progress=False)
    end, raised, pt = "done", None, None
    with sched.install(), Patch(tomo, available_cpus=lambda: cpus, _tomography_sequence_worker=stub_worker):
        try:
            if inp.get("via_params", inp["sub"] % 2):
                # the noise model reaches tomography through sim_params.noise_model (documented fallback): the number of
                # trajectories per sequence must still be the requested one
                params.noise_model = make_noise(L)
                pt = tomo.run(H, params, timesteps=[0.1], num_trajectories=n_traj, noise_model=None)
            else:
                pt = tomo.run(H, params, timesteps=[0.1], num_trajectories=n_traj, noise_model=make_noise(L))
        except StopSchedule:
            end = "open"
        except Runaway:
            end = "runaway"
        except BaseException as e:  # noqa: BLE001
            raised = e
            end = f"raised:{getattr(e, '_job', '?')}:{getattr(e, '_aid', type(e).__name__)}"
    probs = list(sched.problems)
    req = f"tomo 16 {n_traj} {w} 10 | {sched.events_text()}"
    if pt is not None:
        seqs = sched.pool_kwargs["initargs"][0]["worker_sequences"]
        acc = [int(round(float(pt.weights[tuple(seqs[s])]) * n_traj)) for s in range(16)]
        impl = " ".join(map(str, acc)) + f" | end={end}"
        # direct: every job contributes once, to its own sequence
        delivered = {}
        for f in sched.futs:
            if f.outcome == "ok" and f.result_calls:
                delivered.setdefault(f.args[0], []).append(f.value[3])
        for s in range(16):
            exp = sum(sum(delivered.get(j, [])) for j in range(s * n_traj, (s + 1) * n_traj))
            if abs(exp - acc[s]) > 0.5:
                probs.append(f"sequence {s}: accumulated weight {acc[s]}, its own jobs delivered {exp}")
        if sorted(delivered) != list(range(n)) or any(len(v) != 1 for v in delivered.values()):
            probs.append("a tomography job was delivered not exactly once")
        if sched.pool_kwargs["max_workers"] != w:
            probs.append(f"pool has {sched.pool_kwargs['max_workers']} workers, expected {w}")
        if sched.hw_pool > DOCUMENTED_FACTOR * w:
            probs.append(f"in flight {sched.hw_pool} > {DOCUMENTED_FACTOR}*{w}")
    else:
        processed = [sched.futs[a] for a in sched.result_order]
        must = next((f for f in processed if f.outcome == "fatal"), None)
        seen = {}
        if must is None:
            for f in processed:
                if f.outcome == "retry":
                    if seen.get(f.args[0], 0) >= 10:
                        must = f
                        break
                    seen[f.args[0]] = seen.get(f.args[0], 0) + 1
        if must is None or raised is not must.exc:
            probs.append(f"tomography ended {end} without the failing attempt's exception")
        return {"req": None, "impl": None, "oracle": {"ok": not probs, "detail": "; ".join(probs[:3]) or "ok"},
                "kind": "tomo-raise", "sig": f"tomo:{n_traj}:{w}:raised", "nontrivial": True}
    return {"req": req, "impl": impl, "oracle": {"ok": not probs, "detail": "; ".join(probs[:3]) or "ok"}, "kind": "tomo",
            "sig": f"tomo:{n_traj}:{w}:{inp['profile']}", "nontrivial": True}


def run_call_backend(inp):
    """corpus: D22 — `_call_backend` must call the backend once and let its exception through"""
    calls = []

    def backend(arg):
        calls.append(arg)
        if len(calls) <= inp.get("fail_first", 1):
            raise ValueError("transient failure of the first call")
        return ("res", arg)

    raised = None
    try:
        sim._call_backend(backend, 5, n_threads=1)  # noqa: SLF001
    except ValueError as e:
        raised = e
    ok = len(calls) == 1 and raised is not None
    detail = "ok" if ok else (f"_call_backend called the backend {len(calls)} times and "
                              f"{'raised' if raised else 'swallowed the failure of the first call'}")
    req = "serial 1 | 1"
    impl = f"calls={','.join('0' for _ in calls)} | order={'-' if raised else '0'} | end={'raised:0' if raised else 'done'}"
    return {"req": req, "impl": impl, "oracle": {"ok": ok, "detail": detail}, "kind": "call-backend",
            "key": "C13:serial-call_backend-swallows-first-exception", "sig": "call-backend", "nontrivial": True}


# --------------------------------------------------------------------------- generation
PROFILES = ["clean", "flaky", "exhaust", "fatal", "allretry", "mixed", "bigbatch", "lifo", "fifo"]


def gen(rng, tier):  # noqa: C901
    sub = lambda: rng.randrange(1 << 30)  # noqa: E731
    out = []
    big = tier in ("thorough", "search")
    # corner cases first
    for n, w, R in [(0, 1, 0), (1, 1, 0), (1, 3, 2), (2, 1, 0), (5, 1, 1), (3, 4, 1), (7, 2, 0)]:  # noqa: N806
        for prof in ("clean", "allretry", "fatal"):
            out.append({"kind": "sched-random", "n": n, "w": w, "R": R, "profile": prof, "sub": sub()})
    n_random = 400 if tier == "quick" else 3000
    for k in range(n_random):
        n = rng.choice([rng.randint(0, 8), rng.randint(5, 40)])
        w = rng.choice([1, 1, 2, 2, 3, 4, 8])
        R = rng.choice([0, 1, 2, 3, 10])  # noqa: N806
        out.append({"kind": "sched-random", "n": n, "w": w, "R": R, "profile": PROFILES[k % len(PROFILES)], "sub": sub(),
                    "custom_retry": k % 11 == 0, "progress": k % 7 == 0})
    # exhaustive small scopes
    if tier == "quick":
        scopes = [(n, w, R, 1) for n in range(0, 4) for w in (1, 2) for R in (0, 1, 2)] + [(2, 1, 1, 2), (2, 2, 1, 2), (3, 2, 0, 2)]
    elif tier == "search":
        scopes = [(n, w, R, 1) for n in range(0, 4) for w in (1, 2) for R in (0, 1, 2) if not (n == 3 and R == 2)]
    else:
        scopes = [(n, w, R, 1) for n in range(0, 5) for w in (1, 2) for R in (0, 1, 2)]
        scopes += [(n, w, R, 2) for n in range(1, 4) for w in (1, 2) for R in (0, 1)] + [(3, 2, 0, 3), (2, 2, 1, 4)]
    for n, w, R, mb in scopes:  # noqa: N806
        out.append({"kind": "sched-exhaustive", "n": n, "w": w, "R": R, "maxbatch": mb,
                    "limit": {"quick": 25000, "search": 4000}.get(tier, 300000)})
    if tier == "thorough":   # the one scope too large to enumerate (5.2e6 complete schedules): uniform samples on top of the DFS prefix
        out.append({"kind": "sched-sample", "n": 4, "w": 2, "R": 2, "maxbatch": 1, "count": 20000, "sub": sub()})
        out.append({"kind": "sched-sample", "n": 4, "w": 2, "R": 2, "maxbatch": 3, "count": 5000, "sub": sub()})
        out.append({"kind": "sched-sample", "n": 6, "w": 2, "R": 1, "maxbatch": 4, "count": 5000, "sub": sub()})
    # front ends
    fronts = ["strong", "strong-layers", "weak", "analog1", "analog2", "mcwf"]
    n_front = 8 if tier == "quick" else 40
    for k in range(n_front):
        for which in fronts:
            out.append({"kind": "front", "which": which, "n": rng.randint(2, 12), "cpus": rng.choice([1, 2, 3, 5]),
                        "profile": ["clean", "flaky", "mixed", "bigbatch", "fatal", "exhaust"][(k + len(which)) % 6],
                        "sub": sub(), "n_obs": rng.choice([1, 2, 3]), "sample_timesteps": rng.random() < 0.7})
    for k in range(3 if tier == "quick" else 12):
        for which in fronts:
            n = rng.randint(1, 6)
            fail = [] if k % 3 == 0 else [rng.randrange(n)]
            out.append({"kind": "front", "which": which, "n": n, "cpus": 4, "profile": "clean", "sub": sub(),
                        "parallel": False, "serial_fail": fail, "n_obs": rng.choice([1, 2])})
        out.append({"kind": "same-set", "which": fronts[k % len(fronts)], "n": rng.randint(2, 9), "cpus": 3, "sub": sub(),
                    "profile": "flaky"})
    for k in range(4 if tier == "quick" else 20):
        out.append({"kind": "tomo", "n_traj": rng.choice([1, 2, 3]) if k % 2 else rng.choice([2, 3]), "cpus": rng.choice([2, 3, 9]),
                    "sub": sub(), "via_params": k % 2 == 0, "profile": ["clean", "flaky", "bigbatch", "mixed"][k % 4]})
    return out


def run(inp):
    res = run_inner(inp)
    if "corpus_file" in inp:
        for c in (res if isinstance(res, list) else [res]):
            c["kind"] = "corpus:" + str(c.get("kind", inp["kind"]))
    return res


def run_inner(inp):
    k = inp["kind"]
    if k == "sched-random":
        return run_sched_random(inp)
    if k == "sched-script":
        return run_sched_script(inp)
    if k == "sched-exhaustive":
        return run_sched_exhaustive(inp)
    if k == "sched-sample":
        return run_sched_sample(inp)
    if k == "front":
        return run_front(inp)
    if k == "same-set":
        return run_same_set(inp)
    if k == "tomo":
        return run_tomo(inp)
    if k == "call-backend":
        return run_call_backend(inp)
    raise ValueError(k)


if __name__ == "__main__":
    ib.main("C13", gen, run, driver="Sched",
            rule="seeded schedules (profiles clean/flaky/exhaust/fatal/allretry/mixed/bigbatch/lifo/fifo; 0-40 jobs, 1-8 workers, "
                 "budgets 0-10; batches of 1..all in-flight futures) + every schedule of the small scopes (stateless DFS over the "
                 "real generator) + four front-ends and tomography with stub backends + serial paths; distinct = distinct "
                 "(kind, jobs, workers, budget, ending, #retries<=5, max batch<=3, profile) signatures; non-trivial = >=2 jobs and >=2 waits",
            trusted_base=["concurrent.futures replaced by a deterministic in-process pool: a future completes only when the fake "
                          "wait() returns it; `done` is an ordered list (a real set iterates in hash order — any order is enumerated)",
                          "Python exception propagation through `with` blocks and generators"],
            assumptions=["a completion batch is any non-empty set of in-flight futures in any order (over-approximates the OS)",
                         "the stub worker result identifies (index, attempt); front-end stubs return value 10000*index+10*attempt+obs"])
