"""C01 — implementation side: the jump lottery of the analog solvers vs Model.Lottery, plus direct oracles.

value tie (a)  : real `calculate_stochastic_factor`, `create_probability_distribution`, `stochastic_process`
                 (forced Generator, every branch) on random product / entangled / basis 2-4 site MPS in B form, after the
                 real `apply_dissipation` or with a prescribed norm; random process lists from the whole noise library in
                 random order with unequal strengths (1-site, adjacent, long-range Pauli pairs, zero strengths, duplicates).
                 Model gets the dense vector (site 0 leftmost) and the process matrices as exact rationals and must reproduce
                 jump probability, probability vector per process, squared norm of each branch state, the >=-comparison.
whole step (b) : branch average of the real code (dense rho', weighted with the probabilities the code handed to `choice`)
                 vs the closed form of theorem C01.3 evaluated by the driver.
MCWF           : probability vector handed to `choice` inside the real `mcwf` (weights from the pre-step state).
oracles        : probability vector aligned with the processes (dense reference), sums to 1, zero-weight branches get
                 probability 0, branch states are L_k psi/|L_k psi|; one step of dissipation+lottery and one step of
                 analog_tjm_1 / analog_tjm_2 / mcwf (exhaustive outcome tree with the code's own probabilities) against the
                 dense Lindbladian `expm`, with the Richardson ratio err(dt)/err(dt/2) >= 3 at fixed step count.
(The order of unitary / dissipation / lottery per grid column is tied by C15's pipeline trace, not here.)
consistency    : (extension, theorems C01.7 `c01_consistency` … of Props/C01.lean) one whole step of the REAL `analog_tjm_1`,
                 `analog_tjm_2` and `mcwf` for dt, dt/2, dt/4 (exhaustive outcome tree, the code's own probabilities, final
                 state of every leaf observed at the return of the real `stochastic_process` / in `ctx.output_state`):
                 the difference quotient (E(dt) - rho)/dt converges to the dense Lindbladian L(rho) at first order
                 (error <= C*dt, error ratio ~2 per halving) — the derivative the theorem states is the derivative the
                 code has; for order 1 the state the real solver hands to the lottery is sent to the driver (`avg`), whose
                 closed form (= `pureAverage` of the theorem) must reproduce the real branch average.
pauli-pair-weight : (extension, theorems C01.9 `pauli_matrix_unitary`, `pauli_pair_weight_is_norm`) the UNNORMALISED weights the real
                 `create_probability_distribution` writes (recorded at its `np.sum(dp_m_list)`) on entangled, non-normalised
                 2-5 site states for lists dominated by Pauli pairs (adjacent, long-range, both site orders, all nine labels):
                 every Pauli-pair weight = dt*gamma*<psi|psi> AND = dt*gamma*|(P(x)Q) psi|^2 computed densely from the operator
                 the process carries; every process flagged `is_pauli` carries a unitary operator; the other weights are
                 dt*gamma*|L psi|^2.  The same state and list also go through the `lot`/`bn`/`avg` tie (model: `denseNrm`).
"""
from __future__ import annotations

import copy
import math
import random

import numpy as np

import implbase as ib
import lottery_common as lc
from lottery_common import MPS, NoiseModel, diss_mod, sp_mod

from mqt.yaqs.analog import analog_tjm as tjm_mod
from mqt.yaqs.analog import mcwf as mcwf_mod
from mqt.yaqs.core.data_structures.networks import MPO

SPEC = {"n": 0, "bad": 0, "detail": ""}


def choice_spec(pv, seed):
    """numpy's Generator.choice never returns an index of probability 0 (assumed by C01.2)"""
    zeros = [k for k, x in enumerate(pv) if x == 0]
    if not zeros:
        return
    g = np.random.default_rng(seed)
    try:
        draws = g.choice(len(pv), size=400, p=pv)
    except ValueError:
        # the vector the real code produced is not a probability vector (does not sum to 1): nothing to say about numpy here;
        # the lottery case built from the same vector reports it (mass oracle / correspondence), so this is not a harness error
        return
    SPEC["n"] += 1
    if any(int(d) in zeros for d in draws):
        SPEC["bad"] += 1
        SPEC["detail"] = f"choice drew a zero-probability index for p={pv}"


def spec():
    return [lc.margins(), {"name": "Generator.choice never returns an index of probability 0", "ok": SPEC["bad"] == 0,
             "checked": SPEC["n"], "detail": SPEC["detail"]}]


def gen(rng, tier):
    n = {"quick": 345, "thorough": 3450, "search": 690}.get(tier, 345)
    for i in range(n):
        sub = rng.randrange(1 << 30)
        r = i % 23
        if r < 9:
            yield {"kind": "lottery-diss", "sub": sub}
        elif r < 14:
            yield {"kind": "lottery-raw", "sub": sub}
        elif r < 15:
            yield {"kind": "zero-total", "sub": sub}
        elif r < 18:
            yield {"kind": "step", "sub": sub}
        else:
            # about one solver case in ten enumerates the outcome tree of two time steps (three grid points)
            yield {"kind": "solver", "sub": sub, "solver": ["tjm1", "tjm2", "mcwf", "tjm2", "mcwf"][r - 18],
                   "steps": 2 if ((i // 23) % 2 == 0 and (r - 18) == (i // 46) % 5) else 1}
    # extension: first-order consistency of the one-step average with the Lindblad generator (appended, so the inputs above
    # are the same as before the extension)
    nc = {"quick": 120, "thorough": 1200, "search": 240}.get(tier, 120)
    for i in range(nc):
        yield {"kind": "consistency", "sub": rng.randrange(1 << 30), "solver": ["tjm1", "tjm1", "tjm2", "mcwf"][i % 4]}
    # extension C01.9: raw weights of Pauli pairs (appended; own PRNG stream, so the inputs above are unchanged)
    rng9 = random.Random(rng.randrange(1 << 30) ^ 0x9A01)
    for i in range({"quick": 60, "thorough": 600, "search": 240}.get(tier, 60)):
        yield {"kind": "pauli-pair-weight", "sub": rng9.randrange(1 << 30)}


# ----------------------------------------------------------------------------------------------- lottery kinds
def basis_mps(L, bits):
    return MPS(L, state="basis", basis_string=bits)


def run_lottery(inp):
    rng = random.Random(inp["sub"])
    L = rng.choice([2, 2, 3, 3, 4])
    diss = inp["kind"] == "lottery-diss"
    dicts = lc.random_process_dicts(rng, L)
    extra = None
    if not diss and rng.random() < 0.3:
        # kinds outside the property's domain that the code accepts; the sweep never reaches them (slot stays 0)
        if L >= 3 and rng.random() < 0.5:
            low = np.array([[0, 1], [0, 0]], dtype=complex)
            extra = {"name": "custom_pair", "sites": [0, L - 1], "strength": rng.uniform(0.1, 1), "factors": (low, low)}
        else:
            extra = {"name": rng.choice(lc.LIB1), "sites": [L + rng.randrange(2)], "strength": rng.uniform(0.1, 1)}
        dicts.insert(rng.randrange(len(dicts) + 1), extra)
    nm = NoiseModel(dicts)
    state, skind = lc.random_mps(rng, L)
    dt = rng.choice([0.01, 0.05, 0.1, 0.1, 0.25, 0.5])
    spar = lc.analog_params(L, dt)
    if diss:
        diss_mod.apply_dissipation(state, nm, dt, spar)
    else:
        nsq = rng.choice([0.9, 0.5, 0.999, 0.25])
        state.tensors[0] = state.tensors[0] * math.sqrt(nsq)
    cases = lc.lottery_case(state, nm, dt, spar, L, kind=inp["kind"],
                            tag=f"{skind.split(':')[0]}:{'x' if extra else 'd'}")
    pv = cases[0].get("meta", {}).get("pv")
    if pv:
        choice_spec(pv, inp["sub"])
    return cases


def run_zero_total(inp):
    """all operators annihilate the state although a jump can be drawn: the code divides by zero, the model says `err`"""
    rng = random.Random(inp["sub"])
    L = rng.choice([2, 3])
    bits = "".join(rng.choice("01") for _ in range(L))
    dicts = []
    for s in range(L):
        if rng.random() < 0.7:
            dicts.append({"name": "lowering" if bits[s] == "0" else "raising", "sites": [s], "strength": rng.uniform(0.1, 1)})
    if not dicts:
        dicts.append({"name": "lowering" if bits[0] == "0" else "raising", "sites": [0], "strength": 0.3})
    if rng.random() < 0.5:
        dicts.append({"name": "pauli_x", "sites": [0], "strength": 0.0})
    rng.shuffle(dicts)
    nm = NoiseModel(dicts)
    state = basis_mps(L, bits)
    state.tensors[0] = state.tensors[0] * math.sqrt(0.5)
    dt = 0.1
    return lc.lottery_case(state, nm, dt, lc.analog_params(L, dt), L, kind="zero-total", tag="zero")


def run_explicit(inp):
    """corpus inputs (D1, D2 of DESIGN.md section 6) and replays"""
    L = int(inp["L"])
    nm = NoiseModel([dict(p) for p in inp["procs"]])
    if "basis" in inp:
        state = basis_mps(L, inp["basis"])
    else:
        state = MPS(L, state=inp.get("state", "x+"))
    dt = float(inp.get("dt", 0.1))
    spar = lc.analog_params(L, dt)
    if inp.get("mode", "diss") == "diss":
        diss_mod.apply_dissipation(state, nm, dt, spar)
    else:
        state.normalize("B")
        state.tensors[0] = state.tensors[0] * math.sqrt(float(inp.get("n", 0.5)))
    cases = lc.lottery_case(state, nm, dt, spar, L, kind="explicit", tag=str(inp.get("name", "explicit")))
    want = inp.get("expect_pv")
    if want is not None:
        # the documented outcome of the defect table: the vector the repaired code must return
        try:
            pv = [float(x) for x in sp_mod.create_probability_distribution(copy.deepcopy(state), nm, dt, spar)]
        except ZeroDivisionError:
            pv = None
        ok = pv is not None and len(pv) == len(want) and all(abs(a - b) < 1e-9 for a, b in zip(pv, want))
        cases.append({"req": None, "impl": None, "kind": "explicit:expect", "sig": f"expect:{inp.get('name')}",
                      "key": inp.get("name"), "edge": False, "nontrivial": True,
                      "oracle": {"ok": bool(ok), "detail": f"create_probability_distribution returned {pv}, the processes' own weights give {want}"}})
    return cases


# ----------------------------------------------------------------------------------------------- one step vs Lindblad
def step_rho(state0, nm, dt, L):
    """branch average of  apply_dissipation(dt); stochastic_process(dt)  on the real code"""
    spar = lc.analog_params(L, dt)
    st = copy.deepcopy(state0)
    diss_mod.apply_dissipation(st, nm, dt, spar)

    def run(rng):
        out = sp_mod.stochastic_process(copy.deepcopy(st), nm, dt, spar, rng=rng)
        return lc.to_be(out.to_vec(), L)

    leaves, runs, _ = lc.enumerate_tree(run)
    dim = 2 ** L
    rho = np.zeros((dim, dim), dtype=complex)
    for pr, v, _ in leaves:
        rho += pr * np.outer(v, v.conj())
    return rho, sum(pr for pr, _, _ in leaves), len(leaves)


def run_step(inp):
    rng = random.Random(inp["sub"])
    L = rng.choice([2, 2, 3, 3, 4]) if "L" not in inp else int(inp["L"])
    if "procs" in inp:
        dicts = [dict(p) for p in inp["procs"]]
    else:
        dicts = lc.random_process_dicts(rng, L, m=rng.choice([1, 2, 3, 4]), zero_p=0.05, gmin=0.2, gmax=1.0)
    nm = NoiseModel(dicts)
    if "basis" in inp:
        state0 = basis_mps(L, inp["basis"])
        skind = "basis"
    else:
        state0, skind = lc.random_mps(rng, L)
    psi0 = lc.to_be(state0.to_vec(), L)
    rho0 = np.outer(psi0, psi0.conj())
    ops = [(lc.embed_be(p, L), float(p["strength"])) for p in nm.processes]
    gtot = sum(g * np.linalg.norm(o, 2) ** 2 for o, g in ops)
    dt = float(inp.get("dt", rng.choice([0.02, 0.04, 0.05]) / max(gtot, 0.2)))
    h0 = np.zeros((2 ** L, 2 ** L), dtype=complex)
    masses, nls = [], [0]

    def err_fn(t):
        rho, mass, nleaf = step_rho(state0, nm, t, L)
        masses.append(mass)
        nls.append(nleaf)
        return float(np.linalg.norm(rho - lc.lindblad_evolve(rho0, h0, ops, t)))

    x = gtot * dt
    probs, errs, ratios = lc.order_check(err_fn, dt, 1e-8, "dissipation + lottery, one step")
    nl = max(nls)
    if any(abs(m - 1) > 1e-9 for m in masses):
        probs.append(f"path probabilities sum to {masses}")
    lc.dev("abs-bound-fraction(tol 1)", errs[0] / (4.0 * x * x + 1e-9))
    lc.dev("mass(tol 1e-9)", max(abs(m - 1) for m in masses))
    if errs[0] > 4.0 * x * x + 1e-9:
        probs.append(f"one-step average differs from exp(dt*Lindbladian) rho by {errs[0]:.3e} at Gamma*dt={x:.3g} (allowed {4 * x * x:.3e})")
    ratio = ratios[-1] if ratios else float("nan")
    return {"req": None, "impl": None, "edge": False, "kind": "step", "nontrivial": errs[0] > 1e-8,
            "sig": f"step:{L}:{len(dicts)}:{skind.split(':')[0]}:{nl}",
            "oracle": {"ok": not probs, "detail": "; ".join(probs) or f"err(dt)={errs[0]:.3e} err(dt/2)={errs[1]:.3e} ratio={ratio:.2f} x={x:.3g} leaves={nl}"},
            "meta": {"procs": [(p["name"], p["sites"], p["strength"]) for p in nm.processes], "dt": dt}}


# ----------------------------------------------------------------------------------------------- one solver step
def solver_run(solver, L, state0, ham, nm, dt, nsteps):
    order = 2 if solver == "tjm2" else 1
    spar = lc.analog_params(L, dt, order=order, sample=True, elapsed=dt * nsteps)
    first = {}
    if solver == "mcwf":
        spar.solver = "MCWF"
        ctx = mcwf_mod.preprocess_mcwf(copy.deepcopy(state0), ham, nm, spar)
        first["psi"] = np.array(ctx.psi_initial)
        first["nops"] = len(ctx.jump_ops)

        def call():
            return mcwf_mod.mcwf((0, ctx))
    else:
        fn = tjm_mod.analog_tjm_2 if solver == "tjm2" else tjm_mod.analog_tjm_1

        def call():
            return fn((0, state0, nm, spar, ham))

    def run(rng):
        with lc.patched_default_rng(lambda: rng):
            return np.array(call(), dtype=float)

    leaves, runs, fst = lc.enumerate_tree(run)
    mean = sum(pr * res for pr, res, _ in leaves)
    mass = sum(pr for pr, _, _ in leaves)
    return mean, mass, len(leaves), runs, fst, first, spar


def mcwf_branch_states(L, state0, ham, nm, dt, p, psi_pre):
    """state the real `mcwf` holds after jump k (forced), as a projector, vs the model's projector onto L_k psi_pre"""
    out = []
    for k, pk in enumerate(p):
        if pk < 1e-6:
            continue
        spar = lc.analog_params(L, dt, order=1, sample=True, elapsed=dt, get_state=True)
        spar.solver = "MCWF"
        ctx = mcwf_mod.preprocess_mcwf(copy.deepcopy(state0), ham, nm, spar)
        rng = lc.ScriptRng([k])
        with lc.patched_default_rng(lambda: rng):
            mcwf_mod.mcwf((0, ctx))
        v = np.asarray(ctx.output_state)
        out.append({"req": f"mproj {L} {k} | {lc.procs_req(nm.processes)} | {lc.cvec_req(psi_pre)}",
                    "impl": lc.cfmts(np.outer(v, v.conj())), "oracle": None, "kind": "solver:mcwf-state", "edge": False,
                    "nontrivial": True, "sig": f"mproj:{L}:{k}:{len(p)}"})
    return out


def run_solver(inp):
    rng = random.Random(inp["sub"])
    solver = inp["solver"]
    L = rng.choice([2, 2, 3])
    kinds = ("1", "1", "adj", "adjp", "lr")
    nsteps = 1 if inp.get("steps") is None else int(inp["steps"])
    dicts = lc.random_process_dicts(rng, L, m=rng.choice([1, 2, 3] if nsteps == 1 else [1, 2]), kinds=kinds, zero_p=0.1,
                                    gmin=0.2, gmax=1.0, dup_p=0.0)
    nm = NoiseModel(dicts)
    state0, skind = lc.random_mps(rng, L, kind=rng.choice(["product", "entangled", "mixed"]))
    jj, gg = rng.choice([0.5, 1.0]), rng.choice([0.3, 0.7])
    ham = MPO.ising(L, jj, gg)
    hd = np.asarray(ham.to_matrix(), dtype=complex)
    psi0 = lc.to_be(state0.to_vec(), L)
    rho0 = np.outer(psi0, psi0.conj())
    ops = [(lc.embed_be(p, L), float(p["strength"])) for p in nm.processes]
    gtot = sum(g * np.linalg.norm(o, 2) ** 2 for o, g in ops) + np.linalg.norm(hd, 2)
    dt = rng.choice([0.1, 0.16]) / max(gtot, 0.5)
    obs_mats = [lc.embed_site_op(np.array([[1, 0], [0, -1]]), i, L) for i in range(L)] + \
               [lc.embed_site_op(np.array([[0, 1], [1, 0]]), i, L) for i in range(L)]
    info = {}
    cases = []

    def err_fn(t):
        mean, mass, nleaf, runs, fst, first, spar = solver_run(solver, L, state0, ham, nm, t, nsteps)
        # rows of the result follow sim_params.sorted_observables
        order_idx = [spar.observables.index(o) for o in spar.sorted_observables]
        ref = lc.lindblad_evolve(rho0, hd, ops, t * nsteps)
        want = np.array([float(np.trace(obs_mats[i] @ ref).real) for i in order_idx])
        info[t] = (mass, nleaf, runs)
        if t == dt and solver == "mcwf" and fst is not None:
            p = fst["p"]
            impl = f"ops {first['nops']} " + ("skip" if p is None else "pv " + lc.fmts(p))
            cases.append({"req": f"mcwf {L} | {lc.procs_req(nm.processes)} | {lc.cvec_req(first['psi'])}", "impl": impl,
                          "oracle": None, "kind": "solver:mcwf-pv", "edge": False, "nontrivial": p is not None and len(p) > 1,
                          "sig": f"mcwfpv:{L}:{first['nops']}:{len(nm.processes)}"})
            if p is not None:
                choice_spec(p, inp["sub"])
                cases.extend(mcwf_branch_states(L, state0, ham, nm, t, p, first["psi"]))
        return float(np.max(np.abs(mean[:, -1] - want)))

    probs, errs, ratios = lc.order_check(err_fn, dt, 3e-7, f"{solver}, {nsteps} step(s)")
    if any(abs(v[0] - 1) > 1e-9 for v in info.values()):
        probs.append(f"path probabilities of the outcome tree sum to {[v[0] for v in info.values()]}")
    x = gtot * dt
    lc.dev("abs-bound-fraction(tol 1)", errs[0] / (4.0 * x * x + 1e-8))
    lc.dev("mass(tol 1e-9)", max(abs(v[0] - 1) for v in info.values()))
    if errs[0] > 4.0 * x * x + 1e-8:
        probs.append(f"{solver}: tree average differs from the Lindblad solution by {errs[0]:.3e} at scale*dt={x:.3g}")
    ratio = ratios[-1] if ratios else float("nan")
    cases.append({"req": None, "impl": None, "edge": False, "kind": "solver:" + solver, "nontrivial": errs[0] > 3e-7,
                  "sig": f"solver:{solver}:{L}:{len(dicts)}:{skind}:{info[dt][1]}",
                  "oracle": {"ok": not probs, "detail": "; ".join(probs) or
                             f"{solver} err(dt)={errs[0]:.3e} err(dt/2)={errs[1]:.3e} ratio={ratio:.2f} leaves={info[dt][1]} runs={info[dt][2]}"},
                  "meta": {"procs": [(p["name"], p["sites"], p["strength"]) for p in nm.processes], "dt": dt, "J": jj, "g": gg}})
    return cases


# ----------------------------------------------------------------------------------------------- first-order consistency
class LotterySpy:
    """wraps `analog_tjm.stochastic_process`: dense state on entry and at return of every call of one run"""

    def __init__(self, L):
        self.L = L
        self.calls = []

    def __call__(self, state, noise_model, dt, sim_params, rng=None):
        ent = lc.to_be(state.to_vec(), self.L)
        out = self.orig(state, noise_model, dt, sim_params, rng=rng)
        self.calls.append((ent, lc.to_be(out.to_vec(), self.L), float(dt)))
        return out


def one_step_average(solver, L, state0, ham, nm, t):
    """E(t): branch average of ONE step of the real solver — every outcome path, weighted with the code's own probabilities.
    Returns (rho, mass, leaves, entry) with entry = state the real order-1 solver handed to its (single) lottery."""
    order = 2 if solver == "tjm2" else 1
    spar = lc.analog_params(L, t, order=order, sample=False, elapsed=t, get_state=True)
    entry = {}
    if solver == "mcwf":
        spar.solver = "MCWF"
        ctx = mcwf_mod.preprocess_mcwf(copy.deepcopy(state0), ham, nm, spar)

        def run(rng):
            with lc.patched_default_rng(lambda: rng):
                mcwf_mod.mcwf((0, ctx))
            return np.array(ctx.output_state, dtype=complex)
    else:
        fn = tjm_mod.analog_tjm_2 if solver == "tjm2" else tjm_mod.analog_tjm_1

        def run(rng):
            spy = LotterySpy(L)
            spy.orig = tjm_mod.stochastic_process
            tjm_mod.stochastic_process = spy
            try:
                with lc.patched_default_rng(lambda: rng):
                    fn((0, state0, nm, spar, ham))
            finally:
                tjm_mod.stochastic_process = spy.orig
            if not spy.calls:
                raise RuntimeError("the solver never called stochastic_process")
            entry.setdefault("psi", spy.calls[0][0])
            entry.setdefault("ncalls", len(spy.calls))
            entry.setdefault("dts", [c[2] for c in spy.calls])
            return spy.calls[-1][1]

    leaves, runs, _ = lc.enumerate_tree(run)
    dim = 2 ** L
    rho = np.zeros((dim, dim), dtype=complex)
    for pr, v, _ in leaves:
        rho += pr * np.outer(v, v.conj())
    return rho, sum(pr for pr, _, _ in leaves), len(leaves), entry


# largest values seen by the consistency oracle on this run (reported with the other margins)
lc.DEV.update({"consistency-abs-fraction(tol 1)": 0.0, "consistency-min-ratio(tol 1.6)": 99.0,
               "consistency-max-ratio(tol 2.6)": 0.0, "consistency-mass(tol 1e-9)": 0.0})


def run_consistency(inp):
    rng = random.Random(inp["sub"])
    solver = inp["solver"]
    L = int(inp.get("L", rng.choice([2, 2, 3])))
    kinds = ("1", "1", "adj", "adjp", "lr")
    if "procs" in inp:
        dicts = [dict(p) for p in inp["procs"]]
    else:
        dicts = lc.random_process_dicts(rng, L, m=rng.choice([1, 2, 2, 3] if solver != "tjm2" else [1, 2, 2]), kinds=kinds,
                                        zero_p=0.1, gmin=0.2, gmax=1.0, dup_p=0.0)
    nm = NoiseModel(dicts)
    skind0 = rng.choice(["product", "entangled", "mixed", "basis"])
    if "basis" in inp:
        state0, skind = basis_mps(L, inp["basis"]), "basis:" + inp["basis"]
    else:
        state0, skind = lc.random_mps(rng, L, kind=inp.get("state", skind0))
    jj, gg = rng.choice([0.5, 1.0]), rng.choice([0.3, 0.7])
    ham = MPO.ising(L, jj, gg)
    hd = np.asarray(ham.to_matrix(), dtype=complex)
    psi0 = lc.to_be(state0.to_vec(), L)
    rho0 = np.outer(psi0, psi0.conj())
    ops = [(lc.embed_be(p, L), float(p["strength"])) for p in nm.processes]
    scale = 2 * np.linalg.norm(hd, 2) + sum(g * np.linalg.norm(o, 2) ** 2 for o, g in ops)
    dt = float(inp.get("dt", rng.choice([0.04, 0.06]) / max(scale, 0.5)))
    dim = 2 ** L
    lrho = (lc.lindbladian(hd, ops, dim) @ rho0.reshape(-1)).reshape(dim, dim)  # dense L(rho), model-independent
    cases, probs = [], []
    ds, masses, leaves_n = [], [], []
    for t in (dt, dt / 2, dt / 4):
        rho, mass, nleaf, entry = one_step_average(solver, L, state0, ham, nm, t)
        masses.append(mass)
        leaves_n.append(nleaf)
        ds.append(float(np.linalg.norm((rho - rho0) / t - lrho)))
        if np.linalg.norm(rho - rho.conj().T) > 1e-9:
            probs.append(f"one-step average at dt={t:.4g} is not Hermitian")
        wref = 0.0
        if solver == "tjm1" and entry.get("ncalls") == 1:
            wref = sum(g * float(np.linalg.norm(o @ entry["psi"]) ** 2) for o, g in ops)
        if solver == "tjm1" and entry.get("ncalls") == 1 and t in (dt, dt / 4) and wref > 1e-12:
            # value tie: the model's closed form (C01.3 / `pureAverage` of C01.7) on the state the real solver handed to its
            # lottery must be the branch average the real solver produced
            psi_t = entry["psi"]
            lps = [o @ psi_t for o, g in ops if g > 0]
            edge = lc.schmidt_edge(psi_t, L) or any(lc.schmidt_edge(lp, L) for lp in lps if np.vdot(lp, lp).real > 1e-20)
            cases.append({"req": f"avg {L} {ib.frac(entry['dts'][0])} | {lc.procs_req(nm.processes)} | {lc.cvec_req(psi_t)}",
                          "impl": lc.cfmts(rho), "oracle": None, "kind": "consistency:avg", "edge": bool(edge),
                          "nontrivial": nleaf >= 2, "sig": f"cavg:{L}:{len(dicts)}:{nleaf}:{skind.split(':')[0]}"})
    lc.dev("consistency-mass(tol 1e-9)", max(abs(m - 1) for m in masses))
    if any(abs(m - 1) > 1e-9 for m in masses):
        probs.append(f"path probabilities of one step sum to {masses}")
    x = scale * dt
    bound = 2.0 * scale * x + 1e-7
    lc.dev("consistency-abs-fraction(tol 1)", ds[0] / bound)
    if ds[0] > bound:
        probs.append(f"{solver}: (E(dt)-rho)/dt differs from the Lindbladian L(rho) by {ds[0]:.3e} at scale*dt={x:.3g} "
                     f"(allowed {bound:.3e}): the derivative of the one-step average at 0 is not L(rho)")
    ratios = [ds[0] / ds[1] if ds[1] > 0 else float("inf"), ds[1] / ds[2] if ds[2] > 0 else float("inf")]
    floor = 2e-6
    if ds[1] > floor:
        # first-order convergence of the difference quotient: the error halves with dt (a wrong derivative gives ratio -> 1)
        lc.dev("consistency-min-ratio(tol 1.6)", min(ratios), min)
        lc.dev("consistency-max-ratio(tol 2.6)", max(ratios))
        if min(ratios) < 1.6:
            probs.append(f"{solver}: error of the difference quotient does not halve with dt — {ds[0]:.3e}, {ds[1]:.3e}, {ds[2]:.3e} "
                         f"at dt, dt/2, dt/4 (ratios {ratios[0]:.2f}, {ratios[1]:.2f}; a wrong derivative gives 1, the theorem 2)")
    cases.append({"req": None, "impl": None, "edge": False, "kind": "consistency:" + solver, "nontrivial": ds[0] > floor,
                  "sig": f"consistency:{solver}:{L}:{len(dicts)}:{skind.split(':')[0]}:{max(leaves_n)}",
                  "oracle": {"ok": not probs, "detail": "; ".join(probs) or
                             f"{solver} |(E-rho)/dt - L rho| = {ds[0]:.3e}, {ds[1]:.3e}, {ds[2]:.3e} ratios {ratios[0]:.2f} {ratios[1]:.2f} "
                             f"x={x:.3g} leaves={max(leaves_n)}"},
                  "meta": {"procs": [(p["name"], p["sites"], p["strength"]) for p in nm.processes], "dt": dt, "J": jj, "g": gg}})
    return cases


# ----------------------------------------------------------------------------------------------- extension C01.9
class _NpSumSpy:
    """stands in for the name `np` inside stochastic_process.py: records the argument of `np.sum`, delegates everything"""

    def __init__(self, rec):
        self._rec = rec

    def __getattr__(self, name):
        return getattr(np, name)

    def sum(self, a, *args, **kw):
        self._rec.append([float(x) for x in a])
        return np.sum(a, *args, **kw)


def _dev9(val):
    key = "pauli-weight(tol 1e-9 rel)"
    lc.DEV[key] = max(lc.DEV.get(key, 0.0), float(val))


def run_pauli_pair(inp):
    rng = random.Random(inp["sub"])
    L = rng.choice([2, 3, 3, 4, 4, 5])
    m = rng.choice([1, 2, 3, 3, 4])
    dicts = lc.random_process_dicts(rng, L, m, kinds=("adjp", "adjp", "lr", "lr", "lr"), zero_p=0.0, dup_p=0.05, twin_p=0.0)
    if rng.random() < 0.6:  # company whose weight is NOT the state norm: one-site and adjacent non-Pauli processes
        dicts += lc.random_process_dicts(rng, L, rng.choice([1, 2]), kinds=("1", "adj"), zero_p=0.0, dup_p=0.0, twin_p=0.0)
        rng.shuffle(dicts)
    nm = NoiseModel(dicts)
    state, skind = lc.random_mps(rng, L, kind=rng.choice(["entangled", "entangled", "entangled", "product"]))
    dt = rng.choice([0.01, 0.05, 0.1, 0.25, 0.5])
    spar = lc.analog_params(L, dt)
    how = rng.choice(["diss", "scale", "scale"])
    if how == "diss":
        diss_mod.apply_dissipation(state, nm, dt, spar)
    else:
        state.tensors[0] = state.tensors[0] * math.sqrt(rng.choice([0.9, 0.5, 0.999, 0.25, 0.07]))
    procs = nm.processes
    psi = lc.to_be(state.to_vec(), L)
    n_ref = float(np.vdot(psi, psi).real)
    rec = []
    real_np = sp_mod.np
    sp_mod.np = _NpSumSpy(rec)
    try:
        pv = sp_mod.create_probability_distribution(copy.deepcopy(state), nm, dt, spar)
    finally:
        sp_mod.np = real_np
    probs = []
    npair = 0
    raw = rec[-1] if rec else None
    if raw is None or len(raw) != len(procs):
        probs.append(f"np.sum saw {None if raw is None else len(raw)} weights for {len(procs)} processes")
    else:
        scale = dt * max(n_ref, 1e-300)
        for k, p in enumerate(procs):
            g = float(p["strength"])
            op = lc.embed_be(p, L)
            lp = op @ psi
            dense = dt * g * float(np.vdot(lp, lp).real)
            _dev9(abs(raw[k] - dense) / scale)
            if abs(raw[k] - dense) > 1e-9 * scale:
                probs.append(f"weight {k} ({p['name']}@{p['sites']} g={g}) is {raw[k]!r}, dt*g*|L psi|^2 = {dense!r}")
            if diss_mod.is_pauli(p):
                uni = float(np.abs(op.conj().T @ op - np.eye(2 ** L)).max())
                if uni > 1e-12:
                    probs.append(f"process {k} ({p['name']}@{p['sites']}) is flagged Pauli but its operator is not unitary (|U^H U - 1| = {uni:.3g})")
                if len(p["sites"]) == 2:
                    npair += 1
                    shortcut = dt * g * n_ref
                    _dev9(abs(raw[k] - shortcut) / scale)
                    if abs(raw[k] - shortcut) > 1e-9 * scale:
                        probs.append(f"Pauli pair {k} ({p['name']}@{p['sites']} g={g}): weight {raw[k]!r}, dt*g*<psi|psi> = {shortcut!r}")
        tot = sum(raw)
        if tot > 0 and any(abs(pv[k] - raw[k] / tot) > 1e-12 for k in range(len(procs))):
            probs.append("returned vector is not the recorded weights divided by their sum")
    lr = sum(1 for p in procs if len(p["sites"]) == 2 and abs(p["sites"][1] - p["sites"][0]) > 1)
    names = sorted({p["name"][-2:] for p in procs if len(p["sites"]) == 2 and diss_mod.is_pauli(p)})
    cases = [{"req": None, "impl": None, "edge": False, "kind": "pauli-pair-weight", "nontrivial": npair >= 1 and abs(n_ref - 1) > 1e-3,
              "sig": f"ppw:{skind}:{how}:{L}:{len(procs)}:{npair}:{lr}:{','.join(names)}",
              "oracle": {"ok": not probs, "detail": "; ".join(probs[:4]) or f"{npair} Pauli pairs ({lr} long-range), n={n_ref:.6g}"}}]
    # the same input through the model: `denseNrm` of the driver must reproduce the real probability vector / branches
    cases += lc.lottery_case(state, nm, dt, spar, L, kind="pauli-pair-weight", tag=f"ppw:{skind}:{how}")
    return cases


def guarded(fn, inp, kind):
    """an exception of the real code on an in-domain outcome path is a failing input, not a harness crash"""
    try:
        return fn(inp)
    except lc.RealCodeError as e:
        return {"req": None, "impl": None, "edge": False, "kind": kind, "nontrivial": True, "sig": f"{kind}:raise",
                "oracle": {"ok": False, "detail": str(e)}}


def run(inp):
    k = str(inp["kind"])
    while k.startswith(("corpus:", "replay:")):  # a replayed corpus case carries both prefixes
        k = k.split(":", 1)[1]
    inp = dict(inp, kind=k)
    if k in ("lottery-diss", "lottery-raw"):
        return run_lottery(inp)
    if k == "zero-total":
        return run_zero_total(inp)
    if k == "explicit":
        return run_explicit(inp)
    if k == "step":
        return guarded(run_step, inp, "step")
    if k == "solver":
        return guarded(run_solver, inp, "solver:" + str(inp.get("solver")))
    if k == "consistency":
        return guarded(run_consistency, inp, "consistency:" + str(inp.get("solver")))
    if k == "pauli-pair-weight":
        return run_pauli_pair(inp)
    raise ValueError(k)


if __name__ == "__main__":
    import sys

    _tier = sys.argv[sys.argv.index("--tier") + 1] if "--tier" in sys.argv else "quick"
    BUDGET = {"quick": 95, "thorough": 1200, "search": 240}.get(_tier, 95)
    ib.main("C01", gen, run, driver="Lottery",
            rule="distinct (kind, state family, L, #processes, #non-zero branches / process name) signatures",
            trusted_base=["numpy Generator: random() uniform on [0,1), choice(p) distributed as p (zero-probability index never drawn: spec-tied)",
                          "dense numpy/scipy reference (kron embedding, Lindbladian expm) used in oracles only",
                          "analytic limit dt->0 of the one-step identity (C01.3) is cited, not formalised; measured as Richardson ratio",
                          "extension C01.7/C01.8: the derivative of the one-step average at dt=0 (= Lindbladian) and the O(dt^2) local "
                          "error ARE theorems now (Mathlib matrix exponential); cited remains only the accumulation over the grid. The "
                          "`consistency` cases measure the derivative on the real solvers (difference quotient vs dense Lindbladian)"],
            assumptions=["Pauli pair operators are unitary (weight uses the state norm) — tied through `bn` and `avg` requests",
                         "order of unitary/dissipation/lottery per grid column: Model.Pipeline (C15), not this file"],
            spec=spec, budget_s=BUDGET)
