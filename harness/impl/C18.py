"""C18 — implementation side: every gate class of `GateLibrary` vs `Model/Gates.lean`, plus direct oracles.

value tie  : `gate.matrix`, `gate.tensor`, `gate.generator`, the dense contraction of `gate.mpo_tensors` (through the real
             `MPO.custom(transpose=False)` + `MPO.to_matrix()`) after the real `set_sites(a, b)`, for distances 1..5 and both
             orientations, against the model evaluated on exact rationals.  Angles are rational unit-circle points
             (c, s) = ((1-t^2)/(1+t^2), 2t/(1+t^2)); the real class receives the float angle atan2(s, c) (or twice it where
             the class uses half angles), the model receives (c, s) exactly, so `c*c + s*s = 1` holds exactly on the model side.
             `extend_gate` is additionally tied on the factors the real `split_tensor` returned (shipped as exact rationals):
             the model builds the identity chain / reversal itself and contracts it.
             `construct_generator_mpo` is tied with sentinel generators (which factor lands on which site).
spec tie   : `np.linalg.svd` inside `split_tensor` (U diag(s) Vh = M, isometries, sorted, non-negative) and the split identity
             sum_k T1[a,c,k] T2[b,d,k] = tensor[a,b,c,d] — the only hypothesis of theorem `c18_mpo_identity_chain`.
oracles    : (model independent) matrix == qiskit's standard gate of that name; scipy expm(-1j*kron(A,B)) == matrix;
             tensor and MPO forms == the qiskit matrix embedded on the right qubits (own einsum embedding);
             expm(-1j * construct_generator_mpo(...).to_matrix()) == the gate on the right qubits for any distance;
             the real consumer `apply_two_qubit_gate` on a random 2/3-site state == dense gate applied to the state.

Qubit order (documented finding): qiskit's `Operator`/`to_matrix` is little-endian (qubit 0 = least significant bit), yaqs'
gate matrices put the FIRST gate qubit in the MOST significant position (`matrix[2a+b, 2c+d]`, a = sites[0]); so
yaqs matrix == Operator(circuit).reverse_qargs().  `MPO.to_matrix` puts site 0 leftmost (most significant).
"""
from __future__ import annotations

import contextlib
import math
import warnings
from fractions import Fraction

import numpy as np
import scipy.linalg

import implbase as ib
from mqt.yaqs.core.data_structures.networks import MPO, MPS
from mqt.yaqs.core.data_structures.simulation_parameters import Observable, StrongSimParams
from mqt.yaqs.core.libraries import gate_library as gl
from mqt.yaqs.core.libraries.gate_library import GateLibrary
from mqt.yaqs.digital import digital_tjm as dt_mod

warnings.simplefilter("ignore")

TOL = 1e-9  # oracle tolerance; observed deviations on the clean tree are <= 5e-15 (consumer: <= 2e-12)

FIXED_1Q = ["x", "y", "z", "sx", "h", "id", "destroy", "create", "p0", "p1"]
PLACEHOLDER = ["pvm", "runtime_cost", "max_bond", "total_bond", "entropy", "schmidt_spectrum"]
ROT_1Q = ["rx", "ry", "rz", "p"]
FIXED_2Q = ["cx", "cz", "swap"]
ROT_2Q = ["rxx", "ryy", "rzz", "cp"]
PAULI_2Q = ["xx", "yy", "zz"]
HALF_ANGLE = {"rx", "ry", "rz", "rxx", "ryy", "rzz", "u"}
WITH_GENERATOR = ["cx", "cz", "cp", "rxx", "ryy", "rzz"]
SET_SITES_2Q = FIXED_2Q + ROT_2Q  # classes that override set_sites (tensor, mpo_tensors)
ALL_NAMES = sorted(k for k in vars(GateLibrary) if not k.startswith("_"))

SPEC = {"svd_n": 0, "svd_bad": 0, "svd_worst": 0.0, "svd_detail": "", "split_n": 0, "split_bad": 0, "split_worst": 0.0,
        "split_detail": ""}


# ----------------------------------------------------------------------------------------------------------- helpers
def circle_point(t: Fraction):
    """rational point of the unit circle for parameter t (t = tan(phi/2)); t = None encodes phi = pi"""
    if t is None:
        return Fraction(-1), Fraction(0)
    return (1 - t * t) / (1 + t * t), 2 * t / (1 + t * t)


def point_of(spec):
    """spec = 'inf' | 'p/q' (rational circle parameter)  or  {'theta': float} (float angle: cos/sin shipped as their floats)"""
    if isinstance(spec, dict):
        return None
    if spec == "inf":
        return circle_point(None)
    return circle_point(Fraction(spec))


def fstr(q: Fraction) -> str:
    return str(q.numerator) if q.denominator == 1 else f"{q.numerator}/{q.denominator}"


class Angle:
    """an angle phi given either exactly (rational (cos, sin)) or as a float; `theta` is what the gate class receives"""

    def __init__(self, spec, half: bool):
        self.spec = spec
        self.half = half
        pt = point_of(spec)
        if pt is None:
            th = float(spec["theta"])
            phi = th / 2 if half else th
            self.theta = th
            self.c, self.s = Fraction(math.cos(phi)), Fraction(math.sin(phi))  # the model sees the floats numpy would produce (±1ulp)
            self.exact = False
        else:
            self.c, self.s = pt
            phi = math.atan2(float(self.s), float(self.c))
            self.theta = 2 * phi if half else phi
            self.exact = True

    def cs(self) -> str:
        return f"{fstr(self.c)} {fstr(self.s)}"


def cstr(arr) -> str:
    flat = np.asarray(arr, dtype=np.complex128).reshape(-1)
    return " ".join(f"{ib.fmt(z.real)} {ib.fmt(z.imag)}" for z in flat)


def cfracs(arr) -> str:
    flat = np.asarray(arr, dtype=np.complex128).reshape(-1)
    return " ".join(ib.cfrac(z) for z in flat)


def embed2(m4, p0: int, p1: int, length: int):
    """dense operator on `length` qubits (site 0 most significant) acting with the 4x4 matrix `m4` whose FIRST qubit is site p0
    and SECOND qubit is site p1, identity elsewhere.  Own einsum implementation, independent of yaqs and of the model."""
    t = np.asarray(m4, dtype=np.complex128).reshape(2, 2, 2, 2)  # (out0, out1, in0, in1)
    dim = 2**length
    full = np.eye(dim, dtype=np.complex128).reshape([2] * (2 * length))  # out_0..out_{L-1}, in_0..in_{L-1}
    # apply t to the "out" legs p0, p1 of the identity
    res = np.tensordot(t, full, axes=([2, 3], [p0, p1]))  # legs: o0, o1, remaining outs (in order), ins
    rest = [k for k in range(length) if k not in (p0, p1)]
    cur = [p0, p1] + rest
    perm = [cur.index(k) for k in range(length)] + list(range(length, 2 * length))
    res = np.transpose(res, perm)
    return res.reshape(dim, dim)


def contract_mpo(tensors):
    """own contraction of tensors in layout (phys_out, phys_in, left, right), site 0 leftmost"""
    cur = tensors[0]  # (o, i, l, r)
    for t in tensors[1:]:
        cur = np.einsum("abcd,efdg->aebfcg", cur, t)
        s = cur.shape
        cur = cur.reshape(s[0] * s[1], s[2] * s[3], s[4], s[5])
    assert cur.shape[2] == 1 and cur.shape[3] == 1
    return cur[:, :, 0, 0]


WORST = {"oracle": 0.0, "consumer": 0.0}


def maxdiff(a, b, track="oracle") -> float:
    a, b = np.asarray(a), np.asarray(b)
    if a.shape != b.shape:
        return float("inf")
    d = float(np.max(np.abs(a - b))) if a.size else 0.0
    if track and d < 1e-3:  # deviations of passing comparisons (tolerance calibration, reported in the evidence)
        WORST[track] = max(WORST[track], d)
    return d


def qiskit_matrix(name: str, params, nq: int):
    """standard matrix of the qiskit gate called `name`, converted to yaqs' first-qubit-most-significant order"""
    from qiskit import QuantumCircuit
    from qiskit.quantum_info import Operator, Pauli

    if name in PAULI_2Q:
        return Operator(Pauli(name.upper())).data  # symmetric strings
    import qiskit.circuit.library as lib

    classes = {"x": lib.XGate, "y": lib.YGate, "z": lib.ZGate, "h": lib.HGate, "id": lib.IGate, "sx": lib.SXGate,
               "rx": lib.RXGate, "ry": lib.RYGate, "rz": lib.RZGate, "p": lib.PhaseGate, "u": lib.UGate, "u2": lib.U2Gate,
               "cx": lib.CXGate, "cz": lib.CZGate, "cp": lib.CPhaseGate, "swap": lib.SwapGate,
               "rxx": lib.RXXGate, "ryy": lib.RYYGate, "rzz": lib.RZZGate}
    qc = QuantumCircuit(nq)
    qc.append(classes[name](*params), list(range(nq)))
    assert qc.data[0].operation.name == name, (qc.data[0].operation.name, name)  # the name dag_utils looks up in GateLibrary
    op = Operator(qc)
    return op.reverse_qargs().data if nq == 2 else op.data


def make_gate(name: str, params):
    cls = getattr(GateLibrary, name)
    return cls(list(params)) if params else cls()


@contextlib.contextmanager
def spy_split():
    """record what the real `split_tensor` returned and check the SVD it used (spec tie)"""
    rec = {"t": None, "svd": None}
    orig_split = gl.split_tensor
    orig_svd = np.linalg.svd

    def svd(a, *args, **kw):
        u, s, vh = orig_svd(a, *args, **kw)
        a = np.asarray(a)
        if a.shape == (4, 4):
            SPEC["svd_n"] += 1
            e1 = maxdiff(u @ np.diag(s) @ vh, a)
            e2 = maxdiff(u.conj().T @ u, np.eye(u.shape[1]))
            e3 = maxdiff(vh @ vh.conj().T, np.eye(vh.shape[0]))
            ok = e1 < 1e-12 and e2 < 1e-12 and e3 < 1e-12 and bool(np.all(s >= 0)) and bool(np.all(np.diff(s) <= 1e-13))
            SPEC["svd_worst"] = max(SPEC["svd_worst"], e1, e2, e3)
            if not ok:
                SPEC["svd_bad"] += 1
                SPEC["svd_detail"] = f"recon {e1:.2e} UhU {e2:.2e} VVh {e3:.2e} s={s}"
        return u, s, vh

    def split(tensor):
        out = orig_split(tensor)
        rec["t"] = [np.array(x) for x in out]
        rec["tensor"] = np.array(tensor)
        return out

    gl.split_tensor = split
    np.linalg.svd = svd
    try:
        yield rec
    finally:
        gl.split_tensor = orig_split
        np.linalg.svd = orig_svd


def check_split_spec(rec):
    """sum_k T1[a,c,0,k] T2[b,d,k,0] == tensor[a,b,c,d]  (hypothesis `hsplit` of c18_mpo_identity_chain)"""
    t1, t2 = rec["t"]
    ok_shape = t1.ndim == 4 and t2.ndim == 4 and t1.shape[:3] == (2, 2, 1) and t2.shape[:2] == (2, 2) and t2.shape[3] == 1 \
        and t1.shape[3] == t2.shape[2]
    SPEC["split_n"] += 1
    if not ok_shape:
        SPEC["split_bad"] += 1
        SPEC["split_detail"] = f"shapes {t1.shape} {t2.shape}"
        return False
    recon = np.einsum("ack,bdk->abcd", t1[:, :, 0, :], t2[:, :, :, 0])
    e = maxdiff(recon, rec["tensor"])
    SPEC["split_worst"] = max(SPEC["split_worst"], e)
    if e > 1e-6 * 4:  # split_tensor drops singular values <= 1e-6 by design; anything beyond is a broken split
        SPEC["split_bad"] += 1
        SPEC["split_detail"] = f"split reconstruction error {e:.3e}"
        return False
    return True


def oracle(problems, extra="ok"):
    return {"ok": not problems, "detail": "; ".join(problems) or extra}


# ----------------------------------------------------------------------------------------------------------- generators
def rational_ts(rng, n):
    """n circle parameters covering all four quadrants, the axes, tiny and near-pi angles; as strings"""
    # the tiny ones (angles 4e-4 … 5e-6, the far tail of a QFT or a small-dt Trotter step) sit between the library's
    # operator-Schmidt cut-off 1e-6 and 1e-3: a long-range gate must keep its second MPO term there
    special = ["0", "1", "-1", "inf", "1/2", "-1/2", "2", "-2", "1/3", "3", "-3", "1/1000", "-1/1000", "1000", "7/10", "99/100",
               "101/100", "1/7", "-5/3", "12/5", "1/5000", "-1/20000", "1/100000", "1/400000"]
    out = list(special[:n])
    seen = set(out)
    while len(out) < n:
        q = rng.randint(1, 60)
        p = rng.randint(-180, 180)
        t = Fraction(p, q)
        s = fstr(t)
        if s not in seen:
            seen.add(s)
            out.append(s)
    return out


def gen(rng, tier):
    n_ang = {"quick": 64, "thorough": 256, "search": 96}.get(tier, 64)
    inputs = []
    # every library entry once (fixed / placeholder / custom); parametrised ones come below
    for name in ALL_NAMES:
        if name in ROT_1Q or name in ROT_2Q or name in ("u", "u2"):
            continue
        inputs.append({"kind": "fixed", "gate": name})
    for d in (2, 3, 4, 5):
        inputs.append({"kind": "ladder", "d": d})
    # two-qubit gates without angle: all distances 1..5, both orientations, offsets
    for name in FIXED_2Q:
        for dist in (1, 2, 3, 4, 5):
            for rev in (0, 1):
                off = rng.randint(0, 3)
                a, b = (off, off + dist) if not rev else (off + dist, off)
                inputs.append({"kind": "gate2", "gate": name, "sites": [a, b], "heavy": dist <= 3 or name == "cx"})
                if dist <= 3:
                    # the same gate object placed twice: first reversed (or on a shifted pair), then on (a, b)
                    inputs.append({"kind": "gate2", "gate": name, "sites": [a, b], "heavy": True,
                                   "replace": [b, a] if (a + b) % 2 else [b + 1, a + 1]})
    ts = rational_ts(rng, n_ang)
    for name in ROT_1Q:
        for t in ts:
            inputs.append({"kind": "gate1", "gate": name, "angle": t})
    for k, t in enumerate(ts):
        inputs.append({"kind": "gate1", "gate": "u", "angle": t, "phi": ts[(k * 7 + 3) % len(ts)], "lam": ts[(k * 11 + 5) % len(ts)]})
        inputs.append({"kind": "gate1", "gate": "u2", "phi": t, "lam": ts[(k * 5 + 1) % len(ts)]})
    combos = [(d, r) for d in (1, 2, 3, 4, 5) for r in (0, 1)]
    for gi, name in enumerate(ROT_2Q):
        for k, t in enumerate(ts):
            dist, rev = combos[(k + 3 * gi) % len(combos)]
            off = rng.randint(0, 2)
            a, b = (off, off + dist) if not rev else (off + dist, off)
            # the factor-level tie `mpo` is expensive in the interpreter for distance >= 4: do it for the first lap only
            inputs.append({"kind": "gate2", "gate": name, "angle": t, "sites": [a, b], "heavy": dist <= 3 or k < len(combos)})
    # float angles (not on the rational circle): the model sees cos/sin as the floats' exact values
    n_float = {"quick": 6, "thorough": 40, "search": 60}.get(tier, 6)
    for name in ROT_2Q + ROT_1Q:
        for _ in range(n_float):
            th = rng.choice([rng.uniform(-7, 7), rng.uniform(-1e-3, 1e-3), rng.uniform(-400, 400), math.pi, -math.pi / 2, 0.7])
            if name in ROT_1Q:
                inputs.append({"kind": "gate1", "gate": name, "angle": {"theta": th}})
            else:
                dist, rev = rng.choice(combos[:6])
                a, b = (0, dist) if not rev else (dist, 0)
                inputs.append({"kind": "gate2", "gate": name, "angle": {"theta": th}, "sites": [a, b], "heavy": True})
    # generator placement (construct_generator_mpo) and exponential of the generator MPO on the right qubits
    n_slots = {"quick": 40, "thorough": 200, "search": 60}.get(tier, 40)
    for _ in range(n_slots):
        length = rng.randint(2, 7)
        a = rng.randrange(length)
        b = rng.choice([x for x in range(length) if x != a])
        inputs.append({"kind": "slots", "sites": [a, b], "length": length})
    for _ in range({"quick": 24, "thorough": 200, "search": 60}.get(tier, 24)):
        inputs.append({"kind": "lrlayer", "sub": rng.randrange(1 << 30)})
    n_cons = {"quick": 2, "thorough": 8, "search": 3}.get(tier, 2)
    for name in WITH_GENERATOR:
        for rev in (0, 1):
            for j in range(n_cons):
                length = 2 if j % 2 == 0 else 3
                lo = rng.randrange(length - 1)
                a, b = (lo, lo + 1) if not rev else (lo + 1, lo)
                inp = {"kind": "consumer", "gate": name, "sites": [a, b], "length": length, "sub": rng.randrange(10**9)}
                if name in ROT_2Q:
                    inp["angle"] = {"theta": rng.uniform(-6.5, 6.5)}
                inputs.append(inp)
    return inputs


# ----------------------------------------------------------------------------------------------------------- runners
def run_fixed(inp):
    name = inp["gate"]
    out = []
    if name == "custom":
        nprng = np.random.default_rng(7)
        m = nprng.normal(size=(4, 4)) + 1j * nprng.normal(size=(4, 4))
        g = GateLibrary.custom(m)
        probs = []
        if maxdiff(g.matrix, m) != 0 or maxdiff(g.tensor, m) != 0 or g.interaction != 2:
            probs.append("BaseGate(mat) does not keep its matrix / interaction")
        return {"req": None, "impl": None, "oracle": oracle(probs), "sig": "fixed:custom", "nontrivial": False}
    if name == "pvm":
        g = GateLibrary.pvm("0101")
    else:
        g = make_gate(name, [])
    mat = np.asarray(g.matrix, dtype=np.complex128)
    probs = []
    if name in PLACEHOLDER:
        req, nontrivial = "mat id", False
        if maxdiff(mat, np.eye(2)) > 0:
            probs.append(f"{name}: placeholder matrix is not the identity")
    elif name == "h":
        req, nontrivial = f"mat h {ib.frac(1 / np.sqrt(2))}", True
    else:
        req, nontrivial = f"mat {name}", True
    # oracle: qiskit's standard gate of that name
    ref = None
    if name in ("x", "y", "z", "sx", "h", "id"):
        ref = qiskit_matrix(name, [], 1)
    elif name in FIXED_2Q:
        ref = qiskit_matrix(name, [], 2)
    elif name in PAULI_2Q:
        ref = qiskit_matrix(name, [], 2)
    elif name == "destroy":
        ref = np.array([[0, 1], [0, 0]])
    elif name == "create":
        ref = np.array([[0, 0], [1, 0]])
    elif name == "p0":
        ref = np.diag([1, 0])
    elif name == "p1":
        ref = np.diag([0, 1])
    if ref is not None:
        d = maxdiff(mat, ref)
        if d > TOL:
            probs.append(f"{name}: matrix differs from the standard gate by {d:.3e}")
    if mat.shape[0] == 2 and g.interaction != 1 or mat.shape[0] == 4 and g.interaction != 2:
        probs.append(f"{name}: interaction {g.interaction} for a {mat.shape} matrix")
    if name in ("x", "y", "z", "sx", "h", "id") + tuple(FIXED_2Q) + tuple(PAULI_2Q):
        d = maxdiff(mat @ mat.conj().T, np.eye(mat.shape[0]))
        if d > TOL:
            probs.append(f"{name}: not unitary ({d:.3e})")
    out.append({"req": req, "impl": cstr(mat), "oracle": oracle(probs, "matches the standard gate"), "kind": "matrix",
                "sig": f"mat:{name}", "nontrivial": nontrivial, "key": f"matrix:{name}"})
    return out


def run_ladder(inp):
    d = int(inp["d"])
    a, ad = GateLibrary.destroy(d), GateLibrary.create(d)
    probs = []
    ref = np.diag(np.sqrt(np.arange(1, d)), k=1)
    if maxdiff(a.matrix, ref) > TOL:
        probs.append(f"destroy({d}) is not the truncated annihilation operator")
    if maxdiff(ad.matrix, ref.T) > TOL:
        probs.append(f"create({d}) is not its transpose")
    if maxdiff(ad.matrix @ a.matrix, np.diag(np.arange(d))) > TOL:
        probs.append(f"create({d}) @ destroy({d}) is not the number operator")
    return {"req": None, "impl": None, "oracle": oracle(probs), "sig": f"ladder:{d}", "nontrivial": d > 2}


def gate1_params(inp):
    name = inp["gate"]
    if name == "u":
        th, ph, la = Angle(inp["angle"], True), Angle(inp["phi"], False), Angle(inp["lam"], False)
        return [th.theta, ph.theta, la.theta], f"{th.cs()} {ph.cs()} {la.cs()}", (th, ph, la)
    if name == "u2":
        ph, la = Angle(inp["phi"], False), Angle(inp["lam"], False)
        return [ph.theta, la.theta], f"{ib.frac(1 / np.sqrt(2))} {ph.cs()} {la.cs()}", (ph, la)
    a = Angle(inp["angle"], name in HALF_ANGLE)
    return [a.theta], a.cs(), (a,)


def run_gate1(inp):
    name = inp["gate"]
    params, mstr, angles = gate1_params(inp)
    g = make_gate(name, params)
    mat = np.asarray(g.matrix, dtype=np.complex128)
    probs = []
    d = maxdiff(mat, qiskit_matrix(name, params, 1))
    if d > TOL:
        probs.append(f"{name}{tuple(params)}: matrix differs from qiskit's {name} by {d:.3e}")
    d = maxdiff(mat @ mat.conj().T, np.eye(2))
    if d > TOL:
        probs.append(f"{name}: not unitary ({d:.3e})")
    g.set_sites(3)
    if g.sites != [3] or g.interaction != 1 or maxdiff(g.tensor, mat) != 0:
        probs.append(f"{name}: set_sites/tensor/interaction inconsistent")
    exact = all(a.exact for a in angles)
    return {"req": f"mat {name} {mstr}", "impl": cstr(mat), "oracle": oracle(probs, "matches qiskit"), "kind": "matrix",
            "sig": f"mat:{name}:{[a.spec if a.exact else 'float' for a in angles]}", "nontrivial": True,
            "key": f"matrix:{name}", "exact_circle": exact}


def run_gate2(inp):
    name = inp["gate"]
    a, b = (int(v) for v in inp["sites"])
    rev = b < a
    dist = abs(a - b)
    n_id = dist - 1
    ang = Angle(inp["angle"], name in HALF_ANGLE) if name in ROT_2Q else None
    params = [ang.theta] if ang else []
    cs = ang.cs() if ang else "0 0"
    mcs = (" " + ang.cs()) if ang else ""
    g = make_gate(name, params)
    if inp.get("replace"):
        # the same gate object was placed somewhere else before (re-placement must not leave anything stale behind)
        g.set_sites(*[int(v) for v in inp["replace"]])
    with spy_split() as rec:
        g.set_sites(a, b)
    mat = np.asarray(g.matrix, dtype=np.complex128)
    tensor = np.asarray(g.tensor, dtype=np.complex128)
    ref = qiskit_matrix(name, params, 2)
    out = []
    tag = f"{name}:{'rev' if rev else 'fwd'}:d{dist}"
    aspec = ang.spec if (ang and ang.exact) else ("float" if ang else "-")

    # ---- matrix
    probs = []
    d = maxdiff(mat, ref)
    if d > TOL:
        probs.append(f"{name}{tuple(params)}: matrix differs from qiskit's {name} (first qubit most significant) by {d:.3e}")
    out.append({"req": f"mat {name}{mcs}", "impl": cstr(mat), "oracle": oracle(probs, "matches qiskit"), "kind": "matrix",
                "sig": f"mat:{name}:{aspec}", "key": f"matrix:{name}"})

    # ---- tensor (orientation)
    probs = []
    lo, hi = min(a, b), max(a, b)
    want2 = embed2(ref, 0 if not rev else 1, 1 if not rev else 0, 2)  # operator on (lower site, higher site)
    if tensor.shape != (2, 2, 2, 2):
        probs.append(f"{name}: tensor shape {tensor.shape}")
    else:
        d = maxdiff(tensor.reshape(4, 4), want2)
        if d > TOL:
            probs.append(f"{name} on sites ({a},{b}): tensor is not the gate placed on (lower, higher) site, off by {d:.3e}")
    out.append({"req": f"tensor {name} {int(rev)} {cs}", "impl": cstr(tensor), "oracle": oracle(probs, "tensor = gate on the given qubits"),
                "kind": "tensor", "sig": f"tensor:{tag}:{aspec}", "key": f"tensor:{name}"})

    # ---- generator
    if name in WITH_GENERATOR:
        gen_pair = [np.asarray(x, dtype=np.complex128) for x in g.generator]
        lam = {"cx": np.pi / 4, "cz": np.pi / 4, "cp": params[0] if params else 0.0}.get(name, (params[0] / 2) if params else 0.0)
        probs = []
        e = scipy.linalg.expm(-1j * np.kron(gen_pair[0], gen_pair[1]))
        d = maxdiff(e, ref)
        if d > TOL:
            probs.append(f"{name}{tuple(params)}: expm(-i A(x)B) differs from the {name} matrix by {d:.3e}")
        # the consumer's MPO: factor k on sites[k]; exponential of the dense generator == gate on the right qubits
        length = dist + 1
        if length <= 4:
            class _G:  # the same duck type construct_generator_mpo reads
                pass
            gg = _G()
            gg.generator, gg.sites = g.generator, [a - lo, b - lo]
            mpo, first, last = dt_mod.construct_generator_mpo(gg, length)
            hfull = mpo.to_matrix()
            efull = scipy.linalg.expm(-1j * hfull)
            wantl = embed2(ref, a - lo, b - lo, length)
            d = maxdiff(efull, wantl)
            if d > TOL or (first, last) != (0, dist):
                probs.append(f"{name} sites ({a},{b}): expm(-i generator MPO) is not the gate on those qubits (off {d:.3e})")
        out.append({"req": f"gen {name} {ib.frac(lam)}", "impl": cstr(np.concatenate([gen_pair[0].reshape(-1), gen_pair[1].reshape(-1)])),
                    "oracle": oracle(probs, "expm(-i A(x)B) = matrix"), "kind": "generator", "sig": f"gen:{name}:{aspec}",
                    "key": f"generator:{name}"})

    # ---- MPO form
    tensors = [np.asarray(t, dtype=np.complex128) for t in g.mpo_tensors]
    probs = []
    dense = None
    if len(tensors) != dist + 1:
        probs.append(f"{name} sites ({a},{b}): {len(tensors)} MPO tensors for distance {dist}")
    else:
        try:
            real_mpo = MPO()
            real_mpo.custom([t.copy() for t in tensors], transpose=False)
            dense = np.asarray(real_mpo.to_matrix(), dtype=np.complex128)
            own = contract_mpo(tensors)
            wantl = embed2(ref, a - lo, b - lo, dist + 1)
            d1, d2 = maxdiff(dense, wantl), maxdiff(own, wantl)
            if d1 > TOL or d2 > TOL:
                probs.append(f"{name} sites ({a},{b}): MPO does not contract to the gate on the end qubits with identities "
                             f"in between (off {max(d1, d2):.3e})")
        except Exception as e:  # noqa: BLE001 - a malformed MPO is a property failure, not a harness crash
            probs.append(f"{name} sites ({a},{b}): MPO cannot be contracted: {type(e).__name__}: {e}")
    split_ok = rec["t"] is not None and check_split_spec(rec)
    if dense is not None:
        out.append({"req": f"expect {name} {int(rev)} {n_id} {cs}", "impl": cstr(dense), "oracle": oracle(probs, "MPO = gate on end qubits"),
                    "kind": "mpo-expected", "sig": f"mpoexp:{tag}:{aspec}", "key": f"mpo:{name}"})
        if inp.get("heavy", True) and n_id <= 2:
            out.append({"req": f"mpog {name} {int(rev)} {n_id} {cs}", "impl": cstr(dense), "oracle": None, "kind": "mpo-trivial-split",
                        "sig": f"mpog:{tag}:{aspec}"})
        if split_ok and inp.get("heavy", True):
            t1, t2 = rec["t"]
            chi = t1.shape[3]
            out.append({"req": f"mpo {n_id} {int(rev)} {chi} | {cfracs(t1[:, :, 0, :])} | {cfracs(t2[:, :, :, 0])}", "impl": cstr(dense),
                        "oracle": None, "kind": "mpo-extend-gate", "sig": f"mpo:{tag}:chi{chi}:{aspec}"})
    else:
        out.append({"req": None, "impl": None, "oracle": oracle(probs), "kind": "mpo-expected", "sig": f"mpoexp:{tag}", "key": f"mpo:{name}"})
    return out


def run_lrlayer(inp):
    """the consumer of `mpo_tensors`: mpo_utils.apply_long_range_layer merges a long-range gate's MPO form into an operator MPO
    whose bonds are already > 1.  Oracle (dense): new = G . old, and old . G^dagger for the conjugated side."""
    import random as _r

    from qiskit import QuantumCircuit
    from qiskit.converters import circuit_to_dag
    from qiskit.quantum_info import Operator

    from mqt.yaqs.core.data_structures.networks import MPO
    from mqt.yaqs.digital.utils import mpo_utils as mu

    rng = _r.Random(inp["sub"])
    nprng = np.random.default_rng(inp["sub"])
    L = rng.choice([4, 5, 6])
    span = rng.randrange(2, L)                      # distance between the two qubits: 2 .. L-1  (3 .. L sites)
    lo = rng.randrange(0, L - span)
    a, b = (lo, lo + span) if rng.random() < 0.5 else (lo + span, lo)
    name = rng.choice(["cx", "cx", "cz", "cp", "rzz", "rxx", "ryy"])
    th = rng.uniform(0.2, 2.8)
    conj = rng.random() < 0.5
    chi = rng.choice([1, 2, 2, 3])
    dims = [1] + [chi] * (L - 1) + [1]
    ts = [nprng.normal(size=(2, 2, dims[i], dims[i + 1])) + 1j * nprng.normal(size=(2, 2, dims[i], dims[i + 1])) for i in range(L)]
    m = MPO()
    m.custom(ts, transpose=False)
    old = m.to_matrix()
    qc = QuantumCircuit(L)
    getattr(qc, name)(*([a, b] if name in ("cx", "cz") else [th, a, b]))
    empty = QuantumCircuit(L)
    d1, d2 = (circuit_to_dag(empty), circuit_to_dag(qc)) if conj else (circuit_to_dag(qc), circuit_to_dag(empty))
    probs = []
    try:
        mu.apply_long_range_layer(m, d1, d2, 1e-13, conjugate=conj)
        new = m.to_matrix()
        G = Operator(qc.reverse_bits()).data     # site 0 leftmost
        want = old @ G.conj().T if conj else G @ old
        dev = float(np.abs(new - want).max()) / max(1.0, float(np.abs(want).max()))
        if dev > 1e-8:
            probs.append(f"apply_long_range_layer({name} on ({a},{b}), L={L}, MPO bond {chi}, conjugate={conj}): result differs from "
                         f"{'old.G^dagger' if conj else 'G.old'} by {dev:.3e} (relative)")
        left = len(list((d2 if conj else d1).op_nodes()))
        if left != 0:
            probs.append(f"the long-range gate was not removed from its DAG ({left} nodes left)")
    except Exception as e:  # noqa: BLE001
        probs.append(f"apply_long_range_layer raised {type(e).__name__}: {e} ({name} on ({a},{b}), L={L}, bond {chi}, conjugate={conj})")
    return {"req": None, "impl": None, "kind": "lrlayer", "oracle": oracle(probs, "long-range layer = dense product"),
            "sig": f"lrlayer:{name}:{span}:{a < b}:{chi}:{conj}", "nontrivial": chi > 1}


def run_slots(inp):
    a, b = (int(v) for v in inp["sites"])
    length = int(inp["length"])

    class _G:
        pass

    g = _G()
    ga = np.array([[2.0, 3.0], [5.0, 7.0]], dtype=complex)  # sentinels: recognisable, asymmetric
    gb = np.array([[11.0, 13.0], [17.0, 19.0]], dtype=complex)
    g.generator, g.sites = [ga, gb], [a, b]
    mpo, first, last = dt_mod.construct_generator_mpo(g, length)
    labels = []
    for t in mpo.tensors:
        m = np.asarray(t)
        # MPO.custom transposed (2,3,0,1): stored layout is (phys, phys, 1, 1)
        m2 = m.reshape(2, 2) if m.shape == (2, 2, 1, 1) else m.reshape(-1)[:4].reshape(2, 2)
        if np.array_equal(m2, ga):
            labels.append("A")
        elif np.array_equal(m2, gb):
            labels.append("B")
        elif np.array_equal(m2, np.eye(2)):
            labels.append("I")
        else:
            labels.append("?")
    probs = []
    if (first, last) != (min(a, b), max(a, b)):
        probs.append(f"first/last site {(first, last)} for sites {(a, b)}")
    want = ["I"] * length
    want[a], want[b] = "A", "B"
    if labels != want:
        probs.append(f"generator factors on sites {labels}, gate.sites = {[a, b]}")
    return {"req": f"slots {a} {b} {length}", "impl": " ".join(labels), "oracle": oracle(probs, "factor k on sites[k]"),
            "kind": "generator-slots", "sig": f"slots:{a}:{b}:{length}", "key": "generator-slots"}


def dense_state(tensors):
    """MPS tensors in layout (phys, left, right) -> vector, site 0 most significant"""
    cur = tensors[0]  # (p, l, r)
    for t in tensors[1:]:
        cur = np.einsum("plr,qrs->pqls", cur, t)
        s = cur.shape
        cur = cur.reshape(s[0] * s[1], s[2], s[3])
    return cur[:, 0, 0]


def run_consumer(inp):
    """the real consumer of `generator`: apply_two_qubit_gate (generator MPO + two-site TDVP, dt = 1) on a random state"""
    from qiskit import QuantumCircuit
    from qiskit.converters import circuit_to_dag

    name = inp["gate"]
    a, b = (int(v) for v in inp["sites"])
    length = int(inp["length"])
    ang = Angle(inp["angle"], name in HALF_ANGLE) if "angle" in inp else None
    params = [ang.theta] if ang else []
    nprng = np.random.default_rng(int(inp.get("sub", 0)))
    # random full-bond-dimension MPS
    dims = [1] + [min(2**k, 2 ** (length - k)) for k in range(1, length)] + [1]
    tensors = [nprng.normal(size=(2, dims[k], dims[k + 1])) + 1j * nprng.normal(size=(2, dims[k], dims[k + 1])) for k in range(length)]
    state = MPS(length=length, tensors=[t.copy() for t in tensors])
    state.normalize(form="B", decomposition="QR")
    psi0 = dense_state([np.asarray(t) for t in state.tensors])
    qc = QuantumCircuit(length)
    getattr(qc, name)(*params, a, b)
    node = circuit_to_dag(qc).op_nodes()[0]
    sim = StrongSimParams([Observable(GateLibrary.z(), 0)], max_bond_dim=64, threshold=1e-14)
    first, last = dt_mod.apply_two_qubit_gate(state, node, sim)
    psi1 = dense_state([np.asarray(t) for t in state.tensors])
    ref = qiskit_matrix(name, params, 2)
    want = embed2(ref, a, b, length) @ psi0
    d = maxdiff(psi1, want, track="consumer")
    probs = []
    if d > 1e-7:
        probs.append(f"{name}{tuple(params)} on sites ({a},{b}) of {length}: apply_two_qubit_gate result differs from the dense gate by {d:.3e}")
    if (first, last) != (min(a, b), max(a, b)):
        probs.append(f"first/last {(first, last)}")
    return {"req": None, "impl": None, "oracle": oracle(probs, f"consumer agrees (dev {d:.1e})"), "kind": "consumer",
            "sig": f"consumer:{name}:{a}:{b}:{length}", "key": f"consumer:{name}"}


def run_circuit(inp):
    """corpus: a small circuit through the real single-/two-qubit appliers, compared with qiskit's state vector (D3: h0 h1 cz h1)"""
    from qiskit import QuantumCircuit
    from qiskit.converters import circuit_to_dag
    from qiskit.quantum_info import Statevector

    n = int(inp["n"])
    qc = QuantumCircuit(n)
    for op in inp["ops"]:
        getattr(qc, op[0])(*op[1], *op[2])
    state = MPS(length=n, state="zeros")
    sim = StrongSimParams([Observable(GateLibrary.z(), 0)], max_bond_dim=64, threshold=1e-14)
    for node in circuit_to_dag(qc).topological_op_nodes():
        if len(node.qargs) == 1:
            dt_mod.apply_single_qubit_gate(state, node)
        else:
            dt_mod.apply_two_qubit_gate(state, node, sim)
    psi = dense_state([np.asarray(t) for t in state.tensors])
    sv = np.asarray(Statevector(qc.reverse_bits()).data)  # reverse_bits: qiskit little-endian -> site 0 most significant
    d = maxdiff(psi, sv, track="consumer")
    probs = [] if d < 1e-7 else [f"circuit {inp['ops']}: state differs from qiskit's by {d:.3e}"]
    return {"req": None, "impl": None, "oracle": oracle(probs, f"state agrees (dev {d:.1e})"), "kind": "circuit",
            "sig": f"circuit:{inp.get('name')}", "key": f"circuit:{inp.get('name')}"}


def run(inp):
    k = inp["kind"]
    fn = {"fixed": run_fixed, "ladder": run_ladder, "gate1": run_gate1, "gate2": run_gate2, "slots": run_slots, "lrlayer": run_lrlayer,
          "consumer": run_consumer, "circuit": run_circuit}.get(k)
    if fn is None:
        raise ValueError(k)
    res = fn(inp)
    res = res if isinstance(res, list) else [res]
    if "corpus_file" in inp:  # keep the corpus marker on the per-form case kinds
        for r in res:
            r["kind"] = "corpus:" + str(r.get("kind", k))
            r["corpus_file"] = inp["corpus_file"]
    return res


def spec():
    return [
        {"name": "np.linalg.svd inside split_tensor: U diag(s) Vh = M, UhU = 1, Vh Vh^H = 1, s sorted, s >= 0",
         "ok": SPEC["svd_bad"] == 0, "n": SPEC["svd_n"], "worst_residual": SPEC["svd_worst"], "detail": SPEC["svd_detail"]},
        {"name": "split_tensor: sum_k T1[a,c,0,k] T2[b,d,k,0] = tensor[a,b,c,d], shapes (2,2,1,chi)/(2,2,chi,1) "
                 "(hypothesis hsplit of c18_mpo_identity_chain)",
         "ok": SPEC["split_bad"] == 0, "n": SPEC["split_n"], "worst_residual": SPEC["split_worst"], "detail": SPEC["split_detail"]},
        {"name": "calibration: largest deviation of a passing oracle comparison (tolerance 1e-9; consumer 1e-7)", "ok": True,
         "worst_oracle_deviation": WORST["oracle"], "worst_consumer_deviation": WORST["consumer"]},
    ]


if __name__ == "__main__":
    ib.main("C18", gen, run, driver="Gates",
            rule="every GateLibrary entry; parametrised classes at 64 rational unit-circle points (all quadrants, axes, tiny and "
                 "near-pi angles) plus float angles; two-qubit classes over distances 1..5 x both orientations x offsets; "
                 "distinct = distinct (form, gate, orientation, distance, angle) signatures; forms: matrix, tensor, generator, "
                 "MPO (expected / trivial split / real split factors), generator placement",
            trusted_base=["SVD spec and split identity (checked on every split this run)",
                          "qiskit standard gate matrices, scipy.linalg.expm, numpy einsum in the oracles",
                          "functional calculus is NOT trusted: c18_generator_exp uses Mathlib's matrix exponential"],
            assumptions=["rational circle points are handed to the model exactly; the real class receives atan2 of them as a float",
                         "float angles: the model receives cos/sin and theta/2 as the exact values of the floats"],
            spec=spec)
