"""C15 — implementation side: results are reported on the time grid the user asked for.

value tie  : `AnalogSimParams(elapsed_time=T, dt=dt).times` (length and entries, bit for bit) vs Model.Grid (`grid`
             request: Lean `Float` and the exact-rational `fl` version must agree with each other and with numpy),
             for classic offenders (0.2/0.1, 0.3/0.1, 0.7/0.1, 1.1/0.1 …), products k*dt, decimal literals, halves,
             non-multiples, long grids.  `np.arange(0, T+dt, dt)` vs the old variant (`gridold`, spec of the code as found).
trace tie  : the real analog_tjm_1 / analog_tjm_2 without scheduled jumps, n = 2…7 grid points, both orders, both
             sample_timesteps, with / without a noise model, TDVP / BUG (pipeline_common.traced_tjm);
             MCWF through `simulator.run` (expm_arnoldi, Generator.random, every `measure`);
             Lindblad through `simulator.run` (which `solve_ivp` state ends up in which returned column).
spec tie   : `solve_ivp(t_eval=times)` returns exactly the requested points in order.
extension  : kinds `st-*` (module C15_storage.py): the result-storage layer — `Observable.initialize`, `trajectories` /
             `results` / `times`, `aggregate_trajectories`, `aggregate_measurements`, and allocate -> fill -> reduce of the three
             front-ends through the real `simulator.run` with shape-preserving sentinel back-ends — vs `Model.Storage`.
oracle     : for every solver x sample_timesteps on a 2-site chain without noise: the grid starts at 0, advances by dt,
             ends at T and has k+1 points; each observable has one entry per grid point (one entry when sampling is
             off) and entry j equals the exact dense value at time j*dt (the single entry: at T).
"""
from __future__ import annotations

import random
from fractions import Fraction

import numpy as np

import implbase as ib
import pipeline_common as pc
import C15_storage as st  # extension: the result-storage layer vs Model.Storage (requests `st…` of driver Pipeline)

OFFENDERS = [(0.2, 0.1), (0.3, 0.1), (0.7, 0.1), (1.1, 0.1), (0.5, 0.2), (0.6, 0.2), (0.9, 0.3), (1.0, 0.2), (0.1, 0.1),
             (2.3, 0.1), (0.35, 0.05), (0.15, 0.05), (4.35, 0.01), (1.0, 0.1), (10.0, 0.1), (0.06, 0.02), (0.57, 0.01),
             (1.9, 0.1), (0.8, 0.1), (3.3, 0.3), (0.25, 0.1), (0.35, 0.1), (0.45, 0.1), (0.05, 0.1), (0.15, 0.1)]
DTS = [0.1, 0.01, 0.05, 0.2, 0.3, 0.025, 0.125, 1.0 / 3.0, 0.07, 1e-3, 0.7, 0.011, 2.5, 1e-4]
SOLVER_TOL = {"TJM": 1e-7, "MCWF": 1e-6, "Lindblad": 1e-5}   # measured on the clean tree (180 runs): 9e-15, 3e-15, 1e-10


def sel_idx(n):
    return list(range(n)) if n <= 48 else list(range(32)) + [n - 8 + i for i in range(8)]


# ------------------------------------------------------------------------------------------------ generators
def gen(rng, tier):
    n_grid = {"quick": 2000, "thorough": 20000, "search": 300}.get(tier, 2000)
    n_trace = {"quick": 22, "thorough": 112, "search": 10}.get(tier, 22)
    n_solver = {"quick": 30, "thorough": 300, "search": 80}.get(tier, 30)
    n_st = {"quick": 10, "thorough": 80, "search": 10}.get(tier, 10)
    yield {"kind": "zero-time"}
    for T, dt in OFFENDERS:
        yield {"kind": "grid", "T": T, "dt": dt, "k": int(round(Fraction(str(T)) / Fraction(str(dt)))) if Fraction(str(T)) % Fraction(str(dt)) == 0 else None}
    # systematic traces: both orders x both sampling settings x n = 2..4 without noise model / with
    combos = [(o, s, n) for o in (1, 2) for s in (True, False) for n in (2, 3, 5)]
    for o, s, n in combos:
        yield {"kind": "trace", "sub": rng.randrange(1 << 30), "order": o, "samp": s, "n": n}
    for solver in ("MCWF", "Lindblad"):
        for s in (True, False):
            yield {"kind": "solver-trace", "sub": rng.randrange(1 << 30), "solver": solver, "samp": s}
    for solver, order in (("TJM", 1), ("TJM", 2), ("MCWF", 1), ("Lindblad", 1)):
        for s in (True, False):
            yield {"kind": "solver", "sub": rng.randrange(1 << 30), "solver": solver, "order": order, "samp": s}
    # extension (result storage): its own generator state, so the seeded cases above/below are what they were before
    st_rng = random.Random(f"storage:{rng.getstate()[1][:6]}:{tier}")
    yield from st.gen_storage(st_rng, tier, part="head")
    plan = ["grid"] * n_grid + ["trace"] * n_trace + ["solver"] * n_solver + ["solver-trace"] * n_st + ["arange"] * 60
    rng.shuffle(plan)
    for k in plan:
        yield {"kind": k, "sub": rng.randrange(1 << 30)}
    yield from st.gen_storage(st_rng, tier, part="tail")


def draw_pair(rng):
    """(T, dt, k): k = the intended whole number of steps, or None when T is not meant to be a multiple"""
    style = rng.choice(["prod", "prod", "lit", "lit", "lit", "half", "free", "long", "ulp"])
    dt = rng.choice(DTS) if rng.random() < 0.7 else float(f"{rng.uniform(1e-3, 2):.3g}")
    if style == "long":
        k = rng.choice([999, 4096, 10_000, 65_537, 100_000, 250_001])
        return float(k * dt), dt, k
    k = rng.randrange(0, 130) if rng.random() < 0.8 else rng.randrange(130, 3000)
    if style == "prod":
        return float(k * dt), dt, k
    if style == "lit":
        return float(f"{k * dt:.12g}"), dt, k
    if style == "ulp":
        T = float(k * dt)
        return float(np.nextafter(T, T + rng.choice([-1.0, 1.0]))), dt, k
    if style == "half":
        return float((k + 0.5) * dt), dt, None
    return float(rng.uniform(0, 50) * dt), dt, None


# ------------------------------------------------------------------------------------------------ grid
def run_grid(inp, old=False):
    if "T" in inp:
        T, dt, k = float(inp["T"]), float(inp["dt"]), inp.get("k")
    else:
        T, dt, k = draw_pair(random.Random(inp["sub"]))
    exc = None
    times = None
    try:
        times = np.arange(0, T + dt, dt) if old else pc.AnalogSimParams(elapsed_time=T, dt=dt).times
    except Exception as e:  # noqa: BLE001
        exc = type(e).__name__
    if exc:
        impl = "err"
    else:
        n = len(times)
        impl = " ".join([str(n)] + [str(pc.bits(times[i])) for i in sel_idx(n)])
    oracle = None
    if not old and k is not None:
        probs = []
        if exc:
            probs.append(f"constructor raised {exc}")
        else:
            n = len(times)
            if n != k + 1:
                probs.append(f"{n} grid points, expected {k}+1")
            if n and times[0] != 0.0:
                probs.append(f"grid starts at {times[0]!r}")
            if n == k + 1 and k >= 1:
                idx = np.arange(n)
                dev = np.abs(times - idx * dt)
                lim = 1e-14 * np.maximum(idx * dt, dt)
                if np.any(dev > lim):
                    j = int(np.argmax(dev - lim))
                    probs.append(f"point {j} is {times[j]!r}, expected {j}*dt = {j * dt!r}")
                # "ends at T" is claimed when T is k*dt in floating point (within 2^-52 relative), not for a
                # 12-digit decimal literal of a non-decimal step
                exact_multiple = abs(Fraction(T) - k * Fraction(dt)) <= k * Fraction(dt) / 2**52
                if exact_multiple and abs(times[-1] - T) > 1e-14 * T:
                    probs.append(f"grid ends at {times[-1]!r}, requested {T!r}")
            if n > k + 1 and n and times[-1] > T * (1 + 1e-14):
                probs.append(f"last point {times[-1]!r} lies beyond the requested total time {T!r}")
        oracle = {"ok": not probs, "detail": ("; ".join(probs) + f" [elapsed_time={T!r}, dt={dt!r}]") if probs else f"{k + 1} points"}
    return {"req": f"{'gridold' if old else 'grid'} {pc.bits(T)} {pc.bits(dt)}", "impl": impl, "oracle": oracle,
            "kind": "arange-spec" if old else "grid",
            "sig": f"{'old' if old else 'g'}:{T!r}:{dt!r}", "nontrivial": (not exc) and len(times) > 2}


# ------------------------------------------------------------------------------------------------ traces
def run_trace(inp):
    rng = random.Random(inp["sub"])
    order = inp.get("order", rng.choice([1, 2]))
    samp = inp.get("samp", rng.random() < 0.5)
    n = inp.get("n", rng.choice([2, 3, 4, 5, 6, 7]))
    dt = inp.get("dt", rng.choice([0.1, 0.05, 0.2, 0.3, 0.07]))
    T = float((n - 1) * dt) if "T" not in inp else float(inp["T"])
    mode = rng.choice(["TDVP", "BUG"])
    L = rng.choice([2, 3])
    nmkind = inp.get("nm", rng.choice(["none", "procs", "procs", "empty"]))
    procs = [{"name": "lowering", "sites": [0], "strength": 0.2}, {"name": "pauli_x", "sites": [L - 1], "strength": 0.1}] if nmkind == "procs" else None
    got = pc.guarded(pc.traced_tjm, (order, T, dt, samp, None, procs, L, mode, nmkind != "none"), timeout=120)
    if got[0] != "ok":
        return {"req": None, "impl": None, "kind": "trace", "sig": f"trace-crash:{order}:{samp}:{n}",
                "oracle": {"ok": False, "detail": f"analog_tjm_{order} {got[0]}: {got[1] if len(got) > 1 else ''} "
                                                   f"(elapsed_time={T}, dt={dt}, sample_timesteps={samp}, noise model {nmkind})"}}
    r = got[1]
    backend = "tjm1" if order == 1 else "tjm2"
    noise = 0 if nmkind == "none" else 1
    cols_written = sorted(int(t.lstrip("c")[1:]) for t in r["tokens"] if t.lstrip("c").startswith("E"))
    want_cols = list(range(r["n"])) if samp else [0]
    want_shape = r["n"] if samp else 1
    probs = []
    if cols_written != want_cols:
        probs.append(f"columns written {cols_written}, expected {want_cols}")
    if r["shape"][1] != want_shape:
        probs.append(f"trajectory array has {r['shape'][1]} columns, expected {want_shape}")
    return [
        {"req": f"trace {backend} {r['n']} {int(samp)} {noise} |", "impl": " ".join(r["tokens"]), "oracle": None,
         "kind": "trace", "sig": f"tr:{backend}:{r['n']}:{int(samp)}:{nmkind}:{mode}", "nontrivial": r["n"] > 2},
        {"req": None, "impl": None, "kind": "trace-oracle", "sig": f"tro:{backend}:{r['n']}:{int(samp)}:{nmkind}",
         "oracle": {"ok": not probs, "detail": "; ".join(probs) or f"columns {want_cols}"}},
    ]


def run_solver_trace(inp):
    rng = random.Random(inp["sub"])
    solver = inp.get("solver", rng.choice(["MCWF", "Lindblad"]))
    samp = inp.get("samp", rng.random() < 0.5)
    n = inp.get("n", rng.choice([2, 3, 4, 5, 6, 7]))
    dt = rng.choice([0.1, 0.05, 0.2])
    T = float((n - 1) * dt)
    noisy = rng.random() < 0.5
    if solver == "MCWF" and rng.random() < 0.5:
        noisy = "jump"      # a jump fires at every step: the column of a jump step must still be written
    if solver == "MCWF":
        got = pc.guarded(pc.traced_mcwf, (T, dt, samp, noisy), timeout=120)
    else:
        got = pc.guarded(pc.lindblad_cols, (T, dt, samp, noisy), timeout=120)
    if got[0] != "ok":
        return {"req": None, "impl": None, "kind": "solver-trace", "sig": f"st-crash:{solver}:{samp}",
                "oracle": {"ok": False, "detail": f"simulator.run(solver={solver}) {got[0]}: {got[1] if len(got) > 1 else ''} "
                                                   f"(elapsed_time={T}, dt={dt}, sample_timesteps={samp})"}}
    r = got[1]
    want_len = r["n"] if samp else 1
    probs = [] if r["user_len"] == want_len else [f"Observable.results has {r['user_len']} entries, expected {want_len}"]
    out = []
    if solver == "MCWF":
        calls = r["returned_calls"]
        if samp and any(c == 0 for c in calls):
            probs.append(f"MCWF result columns never written: {[j for j, c in enumerate(calls) if c == 0]} of {len(calls)} (noise={noisy})")
        if not samp and calls[0] == 0:
            probs.append(f"MCWF with sampling off returned an unwritten column (noise={noisy})")
        out.append({"req": f"trace mcwf {r['n']} {int(samp)} 1 |", "impl": " ".join(r["tokens"]), "oracle": None,
                    "kind": "mcwf-trace", "sig": f"mcwf:{r['n']}:{int(samp)}:{noisy}", "nontrivial": r["n"] > 2})
    else:
        out.append({"req": f"steps lindblad {r['n']} {int(samp)} 1 |", "impl": " ".join(str(s) for s in r["steps"]),
                    "oracle": None, "kind": "lindblad-cols", "sig": f"lind:{r['n']}:{int(samp)}:{noisy}",
                    "nontrivial": r["n"] > 2})
        SPEC["n"] += 1
        if not (r["spec"]["t_equals_times"] and r["spec"]["ycols"] == r["n"]):
            SPEC["bad"] += 1
            SPEC["detail"] = f"solve_ivp returned {r['spec']} for a grid of {r['n']} points"
    out.append({"req": None, "impl": None, "kind": "solver-trace-oracle", "sig": f"sto:{solver}:{r['n']}:{int(samp)}",
                "oracle": {"ok": not probs, "detail": "; ".join(probs) or f"{want_len} entries"}})
    return out


SPEC = {"n": 0, "bad": 0, "detail": ""}


# ------------------------------------------------------------------------------------------------ solver oracle
def _solver_child(solver, order, T, dt, samp, vecs, Jc, g, bug=False):
    L = len(vecs)
    mps, _ = pc.product_state(vecs)
    H = pc.MPO.ising(L, Jc, g)
    obs, _ = pc.all_site_observables(L)
    sp = pc.AnalogSimParams(observables=obs, elapsed_time=T, dt=dt, num_traj=1, order=order, sample_timesteps=samp,
                            show_progress=False, threshold=1e-12 if solver == "TJM" else 1e-10, max_bond_dim=64, solver=solver)
    if bug:   # the BUG integrator (honoured by the order-2 pipeline); exact on two sites
        sp.evolution_mode = pc.EvolutionMode.BUG
    pc.simulator.run(mps, H, sp, None, parallel=False)
    return ([np.asarray(o.results, dtype=float).tolist() for o in obs], [float(t) for t in sp.times],
            [np.asarray(o.times, dtype=float).reshape(-1).tolist() for o in obs])


def run_solver(inp):
    rng = random.Random(inp["sub"])
    solver = inp.get("solver") or rng.choice(["TJM", "TJM", "MCWF", "Lindblad"])
    order = inp.get("order") or (rng.choice([1, 2]) if solver == "TJM" else 1)
    samp = inp.get("samp", rng.random() < 0.5)
    if "T" in inp:
        T, dt, k = float(inp["T"]), float(inp["dt"]), int(inp["k"])
    else:
        if rng.random() < 0.5:
            T, dt = rng.choice([p for p in OFFENDERS if 1 <= round(p[0] / p[1]) <= 12 and abs(p[0] / p[1] - round(p[0] / p[1])) < 1e-9])
            k = int(round(T / dt))
        else:
            dt = rng.choice([0.1, 0.05, 0.2, 0.125, 0.07, 0.3])
            k = rng.randrange(1, 9)
            T = float(k * dt) if rng.random() < 0.5 else float(f"{k * dt:.12g}")
    L = 2
    Jc, g = rng.choice([1.0, 0.6]), rng.choice([0.7, 1.1])
    vecs = pc.site_vecs(rng, L)
    bug = bool(inp.get("bug", solver == "TJM" and order == 2 and rng.random() < 0.4))
    got = pc.guarded(_solver_child, (solver, order, T, dt, samp, vecs, Jc, g, bug), timeout=120)
    label = f"solver={solver} order={order} elapsed_time={T!r} dt={dt!r} sample_timesteps={samp} evolution_mode={'BUG' if bug else 'TDVP'}"
    if got[0] != "ok":
        return {"req": None, "impl": None, "kind": "solver", "sig": f"solver-crash:{solver}:{order}:{samp}",
                "oracle": {"ok": False, "detail": f"simulator.run {got[0]}: {got[1] if len(got) > 1 else ''} [{label}]"}}
    res, times, otimes = got[1]
    res = np.array(res)
    _, psi0 = pc.product_state(vecs)
    _, mats = pc.all_site_observables(L)
    ref = pc.dense_reference(psi0, pc.ising_dense(L, Jc, g), dt, k, {}, mats)
    tol = SOLVER_TOL[solver]
    probs = []
    if len(times) != k + 1:
        probs.append(f"grid has {len(times)} points, expected {k}+1")
    if samp:
        if res.shape[1] != k + 1:
            probs.append(f"{res.shape[1]} result entries, expected one per grid point ({k + 1})")
        else:
            dev = np.abs(res - ref).max(axis=0)
            badc = [int(c) for c in np.where(dev > tol)[0]]
            if badc:
                probs.append(f"entries {badc} are not the values at j*dt (max deviation {dev[badc].max():.3e})")
    else:
        if res.shape[1] != 1:
            probs.append(f"{res.shape[1]} result entries with sample_timesteps=False, expected 1")
        else:
            dev = float(np.abs(res[:, 0] - ref[:, -1]).max())
            if dev > tol:
                # say which time it is, if any
                near = int(np.argmin(np.abs(ref - res[:, :1]).max(axis=0)))
                probs.append(f"the single entry is not the value at the total time (deviation {dev:.3e}; closest to t_{near})")
        if otimes and abs(otimes[0][0] - T) > 1e-12 * max(T, 1):
            probs.append(f"Observable.times is {otimes[0]!r}, expected the total time {T!r}")
    moved = float(np.abs(ref[:, -1] - ref[:, 0]).max())
    return {"req": None, "impl": None, "kind": "solver", "sig": f"solver:{solver}:{order}:{int(samp)}:{k}:{dt!r}",
            "nontrivial": moved > 1e-3,
            "oracle": {"ok": not probs, "detail": ("; ".join(probs) + f" [{label}]") if probs else f"ok [{label}]"}}


def _zero_child(solver, order, samp):
    mps, _ = pc.product_state([[0.6, 0.8], [1.0, 0.0]])
    H = pc.MPO.ising(2, 1.0, 0.7)
    obs = [pc.Observable(pc.Z(), 0)]
    sp = pc.AnalogSimParams(observables=obs, elapsed_time=0.0, dt=0.1, num_traj=1, order=order, sample_timesteps=samp,
                            show_progress=False, solver=solver)
    pc.simulator.run(mps, H, sp, None, parallel=False)
    return [float(t) for t in sp.times], np.asarray(obs[0].results, dtype=complex).real.tolist()


def run_zero_time(inp):
    """known finding D25 (key C15:zero-elapsed-time): elapsed_time = 0 is the point excluded by the hypothesis
    `2 <= n` of the theorems; run on the real code, it must report the value at t = 0 (here <Z_0> = -0.28)."""
    want = 0.6**2 - 0.8**2
    probs = []
    for solver, order, samp in (("TJM", 1, False), ("TJM", 2, False), ("MCWF", 1, False), ("Lindblad", 1, False),
                                ("TJM", 1, True), ("TJM", 2, True), ("MCWF", 1, True), ("Lindblad", 1, True)):
        got = pc.guarded(_zero_child, (solver, order, samp), timeout=60)
        tag = f"{solver} order {order} sample_timesteps={samp}"
        if got[0] != "ok":
            probs.append(f"{tag}: {got[0]} {got[1] if len(got) > 1 else ''}")
            continue
        times, res = got[1]
        if len(times) != 1 or len(res) != 1:
            probs.append(f"{tag}: {len(times)} grid points, {len(res)} entries (expected 1 and 1)")
        elif abs(res[0] - want) > 1e-9:
            probs.append(f"{tag}: reports {res[0]!r} instead of the value at t=0 ({want:.2f})")
    return {"req": None, "impl": None, "kind": "zero-time", "key": "C15:zero-elapsed-time", "sig": "zero-time",
            "oracle": {"ok": not probs, "detail": "elapsed_time=0.0, dt=0.1: " + ("; ".join(probs) or "all solvers report the value at t=0")}}


def run(inp):
    res = _run(inp)
    if "corpus_file" in inp:      # keep corpus cases recognisable in the evidence
        many = res if isinstance(res, list) else [res]
        for r in many:
            r["kind"] = "corpus:" + str(r.get("kind", inp["kind"]))
            r.setdefault("meta", {})["corpus_file"] = inp["corpus_file"]
    return res


def _run(inp):
    k = inp["kind"]
    if k == "zero-time":
        return run_zero_time(inp)
    if k == "grid":
        return run_grid(inp)
    if k == "arange":
        return run_grid(inp, old=True)
    if k == "trace":
        return run_trace(inp)
    if k == "solver-trace":
        return run_solver_trace(inp)
    if k == "solver":
        return run_solver(inp)
    if k in st.RUNNERS:
        return st.run_storage(inp)
    raise ValueError(k)


def spec():
    out = [{"name": "solve_ivp(t_eval=times) returns exactly the requested points, one state per point, in order",
            "ok": SPEC["bad"] == 0, "n": SPEC["n"], "detail": SPEC["detail"]}]
    d = float(np.abs(pc.MPO.ising(2, 1.0, 0.7).to_matrix() - pc.ising_dense(2, 1.0, 0.7)).max())
    out.append({"name": "dense Ising reference equals MPO.ising(2).to_matrix()", "ok": d < 1e-12, "worst": d})
    return out


if __name__ == "__main__":
    ib.main("C15", gen, run, driver="Pipeline",
            rule="grid: classic offenders + seeded (T, dt) pairs: T = fl(k*dt), decimal literal of k*dt, one ulp off, "
                 "half-way (k+1/2)*dt, arbitrary, long grids up to 250001 points; traces: orders 1/2 x sample_timesteps x "
                 "n = 2..7 x noise model none/empty/processes x TDVP/BUG, MCWF and Lindblad through simulator.run; solver "
                 "oracle: TJM 1/2, MCWF, Lindblad x sample_timesteps x k = 1..12.  distinct = distinct (T, dt) bit patterns "
                 "resp. (backend, n, sample, noise, mode) signatures; non-trivial = more than 2 grid points / the observable "
                 "moves by > 1e-3 over the run.  "
                 "storage (C15_storage.py): Observable.initialize for analog / strong / weak x sampling x every observable kind x "
                 "num_traj 0..7 x grids of 1..41 points incl. non-multiples of dt and reused observables; aggregate_trajectories on "
                 "random dyadic tables (0..8 trajectories x 1..7 columns, float64 and complex128, schmidt concatenation); "
                 "aggregate_measurements on slot lists (all dicts / dict + Nones / one dict / empty dicts / None first / none); real "
                 "simulator.run with shape-preserving sentinel back-ends (TJM 1/2, MCWF, Lindblad, digital strong, weak; serial and "
                 "pool branch)",
            trusted_base=["numpy/scipy dense evolution (expm) as the reference of the solver oracle",
                          "Lean Float is IEEE binary64 with correctly rounded + - * / (compared bit for bit with numpy here)",
                          "scipy solve_ivp contract (checked: spec tie)"],
            assumptions=["no overflow/underflow/subnormals in the grid computation (pairs drawn from 1e-4 <= dt <= 2.5, k <= 250001)",
                         "column bookkeeping of MCWF/Lindblad is observed through spy observables (the k-th evaluation writes k)",
                         "storage ties: table entries are small dyadic rationals (sums exact in binary64, one rounding in the division); "
                         "in st-run the back-end's values are replaced by sentinels of the shape the real back-end returned"],
            spec=spec, budget_s={"quick": 100, "thorough": 1100, "search": 200}.get(pc.tier_from_argv(), 100))
