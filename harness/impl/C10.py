"""C10 — implementation side: gauge moves of the real MPS class vs Model.Mps, plus direct oracles.

The real methods (`shift_orthogonality_center_right/left`, `set_canonical_form`, `normalize`, `flip_network`,
`pad_bond_dimension`, `truncate`, `check_canonical_form`, `to_vec`) run in-process with their collaborators
observed through replaced module attributes (`networks.right_qr`, `networks.two_site_svd`, `networks.oe`,
`decompositions.robust_svd`, `numpy.linalg.qr`, and the class attributes `MPS.flip_network`,
`MPS.shift_orthogonality_center_right`, `MPS.normalize`).

value tie : for every primitive call of a run the captured (A_i, A_{i+1}, Q, R) resp. (A_i, A_{i+1}, U, S, Vh) go to the
            model move as exact rationals; the model's new tensors are compared entrywise with `mps.tensors` after the
            call (einsum / reshape / transpose conventions, kept rank of the SVD shift);  the matrix handed to
            `np.linalg.qr` / `robust_svd`; `to_vec`; `flip_network`; the enlargement loop of `pad_bond_dimension`;
            the Gram matrices and the returned list of `check_canonical_form` (truth tables measured on the real
            tensors, and all 4^L tables for L <= 4 on constructed tensors).
trace tie : the sequence of primitive calls (flip / right_qr with or without contraction of R / two_site_svd) of every
            public operation vs the model's event list.
spec tie  : Q R = M, Q^H Q = 1;  U diag(s) Vh = theta, U^H U = 1, Vh Vh^H = 1, s sorted and non-negative.
            (extension x10) shape hypotheses of the executable SVD shift / last-site QR (`svdShaped`, `R` is 1x1) on every call.
oracle    : `to_vec()` before vs after every operation (unchanged; normalize / pad: equal up to a scalar of modulus
            1/||psi||), the isometry conditions of the requested form afterwards, `check_canonical_form` contains the
            requested centre.
            (extension x10, kinds `svdx-*`, `canon-rect`) change of the merged two-site matrix = discarded weight; last-site
            QR: old vector = r00 x new vector; `truncate` / `set_canonical_form` touch every bond exactly once; error of a
            truncating `truncate` bounded by the discarded weights.
"""
from __future__ import annotations

import contextlib
import random
import warnings

import numpy as np

import implbase as ib
from mqt.yaqs.core.data_structures import networks as networks_mod
from mqt.yaqs.core.data_structures.networks import MPS
from mqt.yaqs.core.methods import decompositions as dec_mod

warnings.simplefilter("ignore")

KNOWN_KEY = "C10:svd-shift-absolute-threshold"
SHIFT_THR = 1e-12
SPEC = {"qr_n": 0, "qr_bad": 0, "qr_worst": 0.0, "svd_n": 0, "svd_bad": 0, "svd_worst": 0.0, "detail": ""}
SHAPE = {"svd_n": 0, "svd_bad": 0, "qrlast_n": 0, "qrlast_bad": 0, "detail": ""}  # hypotheses of Lemmas/MpsBridgeSvd.lean
BLOCK = {"n": 0, "bad": 0, "worst": 0.0, "detail": ""}
COUNTS = ib.Hist()
WORST = {"vec": 0.0, "iso": 0.0, "scalar": 0.0}

# ----------------------------------------------------------------------------------------------- formatting


def cnum(z) -> str:
    z = complex(z)
    return f"{ib.frac(z.real)} {ib.frac(z.imag)}"


def req_tensor(t) -> str:
    t = np.asarray(t)
    return f"{t.shape[0]} {t.shape[1]} {t.shape[2]} " + " ".join(cnum(z) for z in t.reshape(-1))


def req_mat(m) -> str:
    m = np.asarray(m)
    return f"{m.shape[0]} {m.shape[1]} " + " ".join(cnum(z) for z in m.reshape(-1))


def req_reals(s) -> str:
    return f"{len(s)} " + " ".join(ib.frac(float(x)) for x in s)


def req_tensors(ts) -> str:
    return f"{len(ts)} " + " ".join(req_tensor(t) for t in ts)


def fnum(z, k=0) -> str:
    z = complex(z) * 2.0 ** (-k)
    return f"{float(z.real)!r} {float(z.imag)!r}"


def impl_tensor(t, k=0) -> str:
    t = np.asarray(t)
    return f"{t.shape[0]} {t.shape[1]} {t.shape[2]} " + " ".join(fnum(z, k) for z in t.reshape(-1))


def impl_mat(m, k=0) -> str:
    m = np.asarray(m)
    return f"{m.shape[0]} {m.shape[1]} " + " ".join(fnum(z, k) for z in m.reshape(-1))


def impl_tensors(ts, k=0) -> str:
    return " ; ".join(impl_tensor(t, k) for t in ts)


def pow2(*arrays) -> int:
    """k such that the largest entry of the implementation's answer, divided by 2^k, is at most 1 (0 for small answers).
    Scaling by a power of two is exact in binary64; the driver scales the model's exact answer by the same factor, so the
    absolute tolerance of the comparison is not eaten by the rounding noise of large entries."""
    m = max((float(np.max(np.abs(a))) for a in arrays if a is not None and np.size(a)), default=0.0)
    if not np.isfinite(m) or m <= 4.0:
        return 0
    return int(np.ceil(np.log2(m)))


def scaled(req: str, k: int) -> str:
    return req if k == 0 else f"@{k} " + req


# ----------------------------------------------------------------------------------------------- spec ties


def check_qr_spec(m, q, r):
    SPEC["qr_n"] += 1
    scale = max(1.0, float(np.linalg.norm(m)))
    e1 = float(np.linalg.norm(q @ r - m)) / scale
    e2 = float(np.linalg.norm(q.conj().T @ q - np.eye(q.shape[1])))
    SPEC["qr_worst"] = max(SPEC["qr_worst"], e1, e2)
    if not (e1 < 1e-10 and e2 < 1e-10):
        SPEC["qr_bad"] += 1
        SPEC["detail"] = f"QR: |QR-M|/scale {e1:.2e} |QhQ-1| {e2:.2e} shape {m.shape}"


def check_svd_spec(m, u, s, vh):
    SPEC["svd_n"] += 1
    scale = max(1.0, float(np.linalg.norm(m)))
    e1 = float(np.linalg.norm(u @ np.diag(s) @ vh - m)) / scale
    e2 = float(np.linalg.norm(u.conj().T @ u - np.eye(u.shape[1])))
    e3 = float(np.linalg.norm(vh @ vh.conj().T - np.eye(vh.shape[0])))
    ok = e1 < 1e-10 and e2 < 1e-10 and e3 < 1e-10 and bool(np.all(s >= 0)) and bool(np.all(np.diff(s) <= 1e-13 * scale))
    SPEC["svd_worst"] = max(SPEC["svd_worst"], e1, e2, e3)
    if not ok:
        SPEC["svd_bad"] += 1
        SPEC["detail"] = f"SVD: recon {e1:.2e} UhU {e2:.2e} VVh {e3:.2e} s={s[:6]}"


def check_svd_shape(a, b, u, s, vh, a_new):
    """`svdShaped` of Lemmas/MpsBridgeSvd.lean on the real call: U (phys_i*left) x k, s of length k, Vh k x (phys_j*right),
    1 <= keep <= k"""
    SHAPE["svd_n"] += 1
    k = len(s)
    keep = a_new.shape[2]
    ok = (u.shape == (a.shape[0] * a.shape[1], k) and vh.shape == (k, b.shape[0] * b.shape[2]) and 1 <= keep <= k
          and a.shape[2] == b.shape[1])
    if not ok:
        SHAPE["svd_bad"] += 1
        SHAPE["detail"] = f"SVD shapes: a {a.shape} b {b.shape} U {u.shape} s {k} Vh {vh.shape} keep {keep}"


def check_qrlast_shape(tensor, q, r, is_last):
    """hypotheses of `c10_exec_qr_last`: at the last site of a chain (right bond 1) the reduced QR has a 1 x 1 `R`"""
    if not is_last:
        return
    SHAPE["qrlast_n"] += 1
    ok = tensor.shape[2] == 1 and r.shape == (1, 1) and q.shape == (tensor.shape[0] * tensor.shape[1], 1)
    if not ok:
        SHAPE["qrlast_bad"] += 1
        SHAPE["detail"] = f"last-site QR shapes: tensor {tensor.shape} Q {q.shape} R {r.shape}"


# ----------------------------------------------------------------------------------------------- observation

REC = {"on": False, "mps": None, "events": [], "depth": 0, "contracts": [], "pad_entry": None, "canon_ret": []}


def find_site(arr):
    mps = REC["mps"]
    if mps is None:
        return -1
    for j, t in enumerate(mps.tensors):
        if t is arr:
            return j
    return -1


class OeProxy:
    """stands in for the `opt_einsum` module inside networks.py; records every `contract` call"""

    def __init__(self, real):
        self._real = real

    def contract(self, subscripts, *operands, **kw):
        out = self._real.contract(subscripts, *operands, **kw)
        if REC["on"]:
            REC["contracts"].append((subscripts.replace(" ", ""), np.array(out)))
        return out

    def __getattr__(self, name):
        return getattr(self._real, name)


@contextlib.contextmanager
def observed(mps):
    """install all spies; yields the record dict"""
    o_right_qr = networks_mod.right_qr
    o_two = networks_mod.two_site_svd
    o_oe = networks_mod.oe
    o_flip = MPS.flip_network
    o_shift = MPS.shift_orthogonality_center_right
    o_norm = MPS.normalize
    o_canon = MPS.check_canonical_form

    def spy_right_qr(tensor):
        if not REC["on"]:
            return o_right_qr(tensor)
        site = find_site(tensor)
        cap = {}
        o_qr = np.linalg.qr

        def spy_qr(a, *args, **kw):
            q, r = o_qr(a, *args, **kw)
            cap["M"], cap["Q"], cap["R"] = np.array(a), np.array(q), np.array(r)
            return q, r

        np.linalg.qr = spy_qr
        try:
            out = o_right_qr(tensor)
        finally:
            np.linalg.qr = o_qr
        if "M" in cap:
            check_qr_spec(cap["M"], cap["Q"], cap["R"])
            check_qrlast_shape(np.asarray(tensor), cap["Q"], cap["R"], site >= 0 and site == len(REC["mps"].tensors) - 1)
        mps_ = REC["mps"]
        nxt = mps_.tensors[site + 1].copy() if site >= 0 and site + 1 < len(mps_.tensors) else None
        REC["events"].append({"ev": "qr", "site": site, "A": np.array(tensor), "B": nxt, "ret": (np.array(out[0]), np.array(out[1])), **cap})
        return out

    def spy_two(a, b, threshold, max_bond_dim=None):
        if not REC["on"]:
            return o_two(a, b, threshold, max_bond_dim)
        site = find_site(a)
        cap = {}
        o_svd = dec_mod.robust_svd

        def spy_svd(m, *args, **kw):
            u, s, vh = o_svd(m, *args, **kw)
            cap["theta"], cap["U"], cap["S"], cap["V"] = np.array(m), np.array(u), np.array(s), np.array(vh)
            return u, s, vh

        dec_mod.robust_svd = spy_svd
        try:
            out = o_two(a, b, threshold, max_bond_dim)
        finally:
            dec_mod.robust_svd = o_svd
        if "theta" in cap:
            check_svd_spec(cap["theta"], cap["U"], cap["S"], cap["V"])
            check_svd_shape(np.asarray(a), np.asarray(b), cap["U"], cap["S"], cap["V"], np.asarray(out[0]))
        REC["events"].append({"ev": "svd" if REC["depth"] > 0 else "svdT", "site": site, "A": np.array(a), "B": np.array(b),
                              "thr": float(threshold), "cap": max_bond_dim, "ret": (np.array(out[0]), np.array(out[1])), **cap})
        return out

    def spy_flip(self):
        if REC["on"] and self is REC["mps"]:
            REC["events"].append({"ev": "F"})
        return o_flip(self)

    def spy_shift(self, current_orthogonality_center, decomposition="QR"):
        if not (REC["on"] and self is REC["mps"]):
            return o_shift(self, current_orthogonality_center, decomposition)
        before = list(self.tensors)
        n0 = len(REC["events"])
        REC["depth"] += 1
        try:
            out = o_shift(self, current_orthogonality_center, decomposition)
        finally:
            REC["depth"] -= 1
        changed = [j for j in range(len(before)) if self.tensors[j] is not before[j]]
        c = current_orthogonality_center
        prim = [e for e in REC["events"][n0:] if e["ev"] in ("qr", "svd")]
        for e in prim:
            e["arg_site"], e["arg_dec"], e["changed"] = c, decomposition, changed
            e["Anew"] = np.array(self.tensors[c])
            e["Bnew"] = np.array(self.tensors[c + 1]) if c + 1 < len(self.tensors) else None
        if not prim:
            REC["events"].append({"ev": "noop", "arg_site": c, "arg_dec": decomposition, "changed": changed})
        return out

    def spy_norm(self, *args, **kw):
        if REC["on"] and self is REC["mps"] and REC["pad_entry"] is None:
            REC["pad_entry"] = [np.array(t) for t in self.tensors]
        return o_norm(self, *args, **kw)

    def spy_canon(self):
        out = o_canon(self)
        if REC["on"] and self is REC["mps"]:
            REC["canon_ret"].append(list(out))
        return out

    REC.update(on=False, mps=mps, events=[], depth=0, contracts=[], pad_entry=None, canon_ret=[])
    networks_mod.right_qr = spy_right_qr
    networks_mod.two_site_svd = spy_two
    networks_mod.oe = OeProxy(o_oe)
    MPS.flip_network = spy_flip
    MPS.shift_orthogonality_center_right = spy_shift
    MPS.normalize = spy_norm
    MPS.check_canonical_form = spy_canon
    try:
        yield REC
    finally:
        networks_mod.right_qr = o_right_qr
        networks_mod.two_site_svd = o_two
        networks_mod.oe = o_oe
        MPS.flip_network = o_flip
        MPS.shift_orthogonality_center_right = o_shift
        MPS.normalize = o_norm
        MPS.check_canonical_form = o_canon
        REC.update(on=False, mps=None)


def record(fn):
    """run `fn()` with recording on; returns (events, contracts, pad_entry, canon_ret, exception name or None)"""
    REC.update(on=True, events=[], contracts=[], pad_entry=None, canon_ret=[], depth=0)
    exc = None
    try:
        fn()
    except Exception as e:  # noqa: BLE001
        exc = type(e).__name__
    finally:
        REC["on"] = False
    return REC["events"], REC["contracts"], REC["pad_entry"], REC["canon_ret"], exc


def ev_token(e) -> str:
    if e["ev"] == "F":
        return "F"
    if e["ev"] == "qr":
        contracted = e.get("changed") is not None and len(e["changed"]) == 2
        return ("Q" if contracted else "D") + str(e["site"])
    if e["ev"] == "svd":  # the centre shift must call two_site_svd(threshold=1e-12, max_bond_dim=None)
        if e["thr"] == SHIFT_THR and e["cap"] is None:
            return "S" + str(e["site"])
        return f"S{e['site']}[threshold={e['thr']!r},max_bond_dim={e['cap']}]"
    if e["ev"] == "svdT":
        return "T" + str(e["site"])
    return "?"


def trace_string(events) -> str:
    toks = [ev_token(e) for e in events if e["ev"] != "noop"]
    return " ".join(toks) if toks else "-"


# ----------------------------------------------------------------------------------------------- generators


def random_unitary(nprng, n):
    z = nprng.normal(size=(n, n)) + 1j * nprng.normal(size=(n, n))
    q, r = np.linalg.qr(z)
    return q * (np.diag(r) / np.abs(np.diag(r)))


def random_mps(rng, nprng, lmax=7, chimax=4):
    """random MPS: mixed physical dimensions, bond dimensions chosen freely (bonds larger than the Schmidt bound are
    rank-deficient automatically), extra exact rank deficiency (duplicated / zero columns), random gauges X, X^-1"""
    L = rng.choice([1, 2, 2, 3, 3, 4, 4, 5, 5, 6, 7]) if lmax >= 7 else rng.randint(1, lmax)
    dims = [rng.choice([2, 2, 3]) for _ in range(L)]
    bonds = [1] + [rng.choice([1, 2, 2, 3, 3, 4][: chimax + 2]) for _ in range(L - 1)] + [1]
    ts = []
    for i in range(L):
        t = nprng.normal(size=(dims[i], bonds[i], bonds[i + 1])) + 1j * nprng.normal(size=(dims[i], bonds[i], bonds[i + 1]))
        mode = rng.random()
        if mode < 0.15 and bonds[i + 1] >= 2:  # duplicate a column of the right bond -> rank-deficient bond
            t[:, :, -1] = t[:, :, 0]
        elif mode < 0.25 and bonds[i + 1] >= 2:
            t[:, :, -1] = 0.0
        elif mode < 0.32:
            t = t.real.astype(complex)
        elif mode < 0.42 and bonds[i + 1] >= 2:  # a small but relevant Schmidt direction (weight >> 1e-12: must survive an SVD shift)
            t[:, :, -1] *= 10.0 ** (-rng.uniform(3.0, 5.0))
        ts.append(t)
    gauges = 0
    for i in range(L - 1):  # random gauge on bond i
        if rng.random() < 0.5:
            chi = bonds[i + 1]
            x = random_unitary(nprng, chi) @ np.diag(nprng.uniform(0.5, 2.0, size=chi)) @ random_unitary(nprng, chi)
            xi = np.linalg.inv(x)
            ts[i] = np.einsum("slr,rk->slk", ts[i], x)
            ts[i + 1] = np.einsum("kl,slr->skr", xi, ts[i + 1])
            gauges += 1
    return L, dims, bonds, ts, gauges


def gen_ops(rng, L, n):
    ops = []
    for _ in range(n):
        r = rng.random()
        dec = rng.choice(["QR", "QR", "SVD"])
        if r < 0.18:
            ops.append(["shiftR", rng.randrange(L), dec])
        elif r < 0.36:
            ops.append(["shiftL", rng.randrange(L), dec])
        elif r < 0.58:
            ops.append(["setcanon", rng.randrange(L), dec])
        elif r < 0.70:
            ops.append(["normalize", rng.choice(["A", "B"]), dec])
        elif r < 0.80:
            ops.append(["flip"])
        elif r < 0.88:
            ops.append(["pad", rng.choice([1, 2, 3, 4, 5, 8])])
        elif r < 0.96:
            ops.append(["truncate", rng.choice([1e-30, 1e-26, 1e-22])])
        else:
            ops.append(["setcanon", rng.randrange(L), "SVD"])
    return ops


def gen(rng, tier):
    nseq = {"quick": 160, "thorough": 1500, "search": 400}.get(tier, 160)
    # exhaustive truth tables first (cheap), then op sequences, then the small-scale SVD family
    for L in (1, 2, 3, 4):
        yield {"kind": "canon-tables", "L": L}
    for _ in range(nseq):
        yield {"kind": "sequence", "sub": rng.randrange(1 << 30)}
    for _ in range({"quick": 8, "thorough": 60, "search": 20}.get(tier, 8)):
        yield {"kind": "svd-smallscale", "sub": rng.randrange(1 << 30), "variant": rng.choice(["gauge", "scale"]),
               "g": 10.0 ** rng.uniform(-6.5, -5.0), "scale": 10.0 ** rng.uniform(-2.05, -1.7),
               "op": rng.choice([["shiftR", 1, "SVD"], ["setcanon", 2, "SVD"], ["normalize", "B", "SVD"]])}
    for _ in range({"quick": 12, "thorough": 100, "search": 30}.get(tier, 12)):
        yield {"kind": "pad-error", "sub": rng.randrange(1 << 30)}
    # list model <-> Matrix model bridge (Lemmas/MpsBridge.lean) on real tensors
    for _ in range({"quick": 40, "thorough": 300, "search": 80}.get(tier, 40)):
        yield {"kind": "bridge", "sub": rng.randrange(1 << 30)}
    # extension x10: SVD shift / last-site QR / truncate bonds / rectangular Gram tests
    for n in range({"quick": 70, "thorough": 500, "search": 150}.get(tier, 70)):
        yield {"kind": "svdx", "sub": rng.randrange(1 << 30), "variant": ["tiny", "rankdef", "d3", "plain", "tiny"][n % 5],
               "thr": rng.choice([1e-2, 1e-3, 1e-4, 1e-6, 1e-12])}
    for _ in range({"quick": 60, "thorough": 400, "search": 120}.get(tier, 60)):
        yield {"kind": "canon-rect", "sub": rng.randrange(1 << 30)}


# ----------------------------------------------------------------------------------------------- oracles


def left_iso_dev(t):
    m = t.reshape(-1, t.shape[2])
    return float(np.linalg.norm(m.conj().T @ m - np.eye(t.shape[2])))


def right_iso_dev(t):
    m = t.transpose(1, 0, 2).reshape(t.shape[1], -1)
    return float(np.linalg.norm(m @ m.conj().T - np.eye(t.shape[1])))


def reverse_sites(vec, dims):
    """to_vec of the site-reversed network: `dims` are the dimensions of the network that produced `vec`
    (site 0 least significant)"""
    L = len(dims)
    arr = vec.reshape(tuple(reversed(dims)))  # axes: site L-1, …, site 0
    return arr.transpose(tuple(reversed(range(L)))).reshape(-1)


ISO_TOL = 1e-9
VEC_TOL = 1e-10


def apply_op(mps, op):
    k = op[0]
    if k == "shiftR":
        mps.shift_orthogonality_center_right(op[1], op[2])
    elif k == "shiftL":
        mps.shift_orthogonality_center_left(op[1], op[2])
    elif k == "setcanon":
        mps.set_canonical_form(op[1], op[2])
    elif k == "normalize":
        mps.normalize(op[1], op[2])
    elif k == "flip":
        mps.flip_network()
    elif k == "pad":
        mps.pad_bond_dimension(op[1])
    elif k == "truncate":
        mps.truncate(threshold=op[1], max_bond_dim=None)
    else:
        raise ValueError(k)


def trace_request(L, op, canon_first):
    k = op[0]
    if k == "shiftR":
        return f"trace shiftR {L} {op[1]} {op[2]}"
    if k == "shiftL":
        return f"trace shiftL {L} {op[1]} {op[2]}"
    if k == "setcanon":
        return f"trace setcanon {L} {op[1]} {op[2]}"
    if k == "normalize":
        return f"trace normalize {L} {op[1]} {op[2]}"
    if k == "pad":
        return f"trace normalize {L} B QR"
    if k == "truncate":
        return f"trace truncate {L} {canon_first}"
    return None


def significant_truncation(events):
    """over the SVD calls of one operation: (largest discarded singular value relative to the largest one,
    largest |theta|_F^2 among the calls that discarded a singular value above 1e-12 — inf when there is none,
    square root of the total discarded weight)"""
    worst, block, weight = 0.0, 0.0, 0.0
    for e in events:
        if e["ev"] in ("svd", "svdT") and "S" in e:
            keep = e["ret"][0].shape[2]
            s = e["S"]
            if keep < len(s) and s[0] > 0:
                worst = max(worst, float(s[keep] / s[0]))
                weight += float(np.sum(s[keep:] ** 2))
                if s[keep] > 1e-12:
                    block = max(block, float(np.sum(s**2)))
    return worst, (block if block > 0 else np.inf), float(np.sqrt(weight))


def primitive_cases(events, seq_id, budget):
    """value ties of every primitive call (bounded by `budget` requests per sequence, largest first dropped)"""
    out = []
    for n, e in enumerate(events):
        if len(out) >= budget:
            COUNTS.add("primitive_ties_dropped_by_budget")
            break
        if e["ev"] == "qr" and "M" in e and e.get("changed") is not None:
            contracted = len(e["changed"]) == 2
            k = pow2(e["M"])
            out.append({"kind": "qrmat", "req": scaled("qrmat " + req_tensor(e["A"]), k), "impl": impl_mat(e["M"], k), "oracle": None,
                        "sig": f"qrmat:{e['A'].shape}", "nontrivial": e["A"].shape[1] > 1})
            if contracted:
                k = pow2(e["Anew"], e["Bnew"])
                req = "qr " + " ".join([req_tensor(e["A"]), req_tensor(e["B"]), req_mat(e["Q"]), req_mat(e["R"])])
                impl = impl_tensor(e["Anew"], k) + " ; " + impl_tensor(e["Bnew"], k)
                out.append({"kind": "qr-shift", "req": scaled(req, k), "impl": impl, "oracle": None,
                            "sig": f"qr:{e['A'].shape}:{e['B'].shape}:{e['Q'].shape}",
                            "nontrivial": e["R"].shape[0] > 1 or e["R"].shape[1] > 1})
            else:
                req = "qrlast " + " ".join([req_tensor(e["A"]), req_mat(e["Q"])])
                out.append({"kind": "qr-last", "req": req, "impl": impl_tensor(e["Anew"]), "oracle": None,
                            "sig": f"qrlast:{e['A'].shape}", "nontrivial": True})
        elif e["ev"] in ("svd", "svdT") and "theta" in e:
            k = pow2(e["theta"])
            out.append({"kind": "theta", "req": scaled("theta " + req_tensor(e["A"]) + " " + req_tensor(e["B"]), k),
                        "impl": impl_mat(e["theta"], k), "oracle": None, "sig": f"theta:{e['A'].shape}:{e['B'].shape}",
                        "nontrivial": e["A"].shape[2] > 1})
            s, thr = e["S"], e["thr"]
            acc, edge = 0.0, False
            for v in reversed(list(s)):
                acc += float(v) ** 2
                if abs(acc - thr) <= 1e-9 * thr:
                    edge = True
            anew, bnew = (e["Anew"], e["Bnew"]) if e["ev"] == "svd" else e["ret"]
            k = pow2(anew, bnew)
            req = "svd " + " ".join([ib.frac(thr), req_tensor(e["A"]), req_tensor(e["B"]), req_mat(e["U"]), req_reals(s), req_mat(e["V"])])
            impl = f"keep {anew.shape[2]} " + impl_tensor(anew, k) + " ; " + impl_tensor(bnew, k)
            out.append({"kind": "svd-shift" if e["ev"] == "svd" else "svd-truncate", "req": scaled(req, k), "impl": impl, "oracle": None, "edge": edge,
                        "sig": f"svd:{e['A'].shape}:{e['B'].shape}:{anew.shape[2]}:{len(s)}", "nontrivial": anew.shape[2] < len(s)})
    for c in out:
        c["id"] = f"{seq_id}.{c['kind']}.{len(c['req'])}"
    return out


def canon_cases(mps, tag):
    """check_canonical_form on the real tensors: Gram matrices (value tie) and truth-table logic"""
    evs, contracts, _, rets, exc = record(mps.check_canonical_form)
    L = mps.length
    out = []
    if exc or not rets:
        return [{"kind": "canon", "req": None, "impl": None, "oracle": {"ok": False, "detail": f"check_canonical_form raised {exc}"},
                 "sig": "canon-exc"}], None
    left = [m for s, m in contracts if s == "ijk,ijl->kl"]
    right = [m for s, m in contracts if s == "ijk,ilk->jl"]
    if len(left) != L or len(right) != L:
        return [{"kind": "canon", "req": "canon ? ?", "impl": "contract-pattern-changed", "oracle": None, "sig": "canon-pattern"}], rets[0]
    right = list(reversed(right))  # the code loops over reversed(range(L))
    a = [bool(np.allclose(m, np.eye(m.shape[0], dtype=complex))) for m in left]
    b = [bool(np.allclose(m, np.eye(m.shape[0], dtype=complex))) for m in right]
    abits, bbits = "".join("1" if x else "0" for x in a), "".join("1" if x else "0" for x in b)
    ret = rets[0]
    out.append({"kind": "canon-real", "req": f"canon {abits} {bbits}", "impl": "c" + "".join(f" {i}" for i in ret), "oracle": None,
                "sig": f"canon:{abits}:{bbits}", "nontrivial": 0 < sum(a) + sum(b) < 2 * L})
    # independent oracle: the returned list is exactly the set of valid centres (dense isometry tests, clear margins only)
    ld = [left_iso_dev(t) for t in mps.tensors]
    rd = [right_iso_dev(t) for t in mps.tensors]
    if all(d < 1e-9 or d > 1e-3 for d in ld + rd):
        want = [i for i in range(L) if all(d < 1e-9 for d in ld[:i]) and all(d < 1e-9 for d in rd[i + 1:])]
        out.append({"kind": "canon-oracle", "req": None, "impl": None, "sig": f"canon-or:{tag}:{want}",
                    "oracle": {"ok": want == ret, "detail": f"check_canonical_form returned {ret}, valid centres by dense isometry test {want}"}})
    # Gram matrix of one site (einsum convention of the two tests)
    j = (len(tag) * 7 + L) % L
    t = mps.tensors[j]
    if t.size <= 48:
        kl, kr = pow2(left[j]), pow2(right[j])
        out.append({"kind": "gramL", "req": scaled("gram L " + req_tensor(t), kl), "impl": impl_mat(left[j], kl), "oracle": None,
                    "sig": f"gramL:{t.shape}", "nontrivial": t.shape[2] > 1})
        out.append({"kind": "gramR", "req": scaled("gram R " + req_tensor(t), kr), "impl": impl_mat(right[j], kr), "oracle": None,
                    "sig": f"gramR:{t.shape}", "nontrivial": t.shape[1] > 1})
    return out, ret


def op_oracle(op, L, dims_now, before, after, mps, canon_ret, events, exc):
    """direct check of the property for one operation; returns (ok, detail, edge, key)"""
    k = op[0]
    probs = []
    if exc:
        return False, f"{op} raised {exc}", False, None
    nb = float(np.linalg.norm(before))
    scale = max(1.0, nb)
    phase_note = ""
    if k == "flip":
        want = reverse_sites(before, dims_now)
        dev = float(np.linalg.norm(after - want))
        if dev > VEC_TOL * scale:
            probs.append(f"flip_network: to_vec is not the site-reversed vector (dev {dev:.3e})")
    elif k in ("normalize", "pad") or (k == "shiftR" and op[1] == L - 1) or (k == "shiftL" and op[1] == 0):
        # a right shift at the last site (left shift at site 0) has no neighbour: the code drops the 1x1 R, i.e. rescales
        if nb == 0:
            return True, "zero vector", True, None
        c = np.vdot(before, after) / np.vdot(before, before)
        dev = float(np.linalg.norm(after - c * before)) / max(1.0, float(np.linalg.norm(after)))
        WORST["scalar"] = max(WORST["scalar"], dev)
        if dev > 1e-9:
            probs.append(f"{k}: result is not a multiple of the input vector (dev {dev:.3e})")
        if k in ("normalize", "pad") and abs(abs(c) * nb - 1.0) > 1e-9:
            probs.append(f"{k}: result has norm {float(np.linalg.norm(after))!r}, scalar*|psi| = {abs(c) * nb!r}")
        ph = c * nb
        if k not in ("normalize", "pad"):
            COUNTS.add("boundary_shift_drops_R")
        elif abs(ph - 1.0) > 1e-6:
            COUNTS.add("normalize_phase_not_plus_one")
            phase_note = f" phase {ph:.3f}"
        else:
            COUNTS.add("normalize_phase_plus_one")
    else:
        dev = float(np.linalg.norm(after - before))
        tol = VEC_TOL * scale
        if k == "truncate":
            tol = max(tol, 10 * np.sqrt(op[1]) * scale * L)
        if dev <= tol:
            WORST["vec"] = max(WORST["vec"], dev / scale)
        if dev > tol:
            probs.append(f"{op}: to_vec changed by {dev:.3e} (|psi| = {nb:.3e})")
    # isometry conditions of the requested form
    ld = [left_iso_dev(t) for t in mps.tensors]
    rd = [right_iso_dev(t) for t in mps.tensors]
    if k == "shiftR":
        WORST["iso"] = max(WORST["iso"], min(ld[op[1]], 1.0))
        if ld[op[1]] > ISO_TOL:
            probs.append(f"site {op[1]} not left-isometric after shift right (dev {ld[op[1]]:.2e})")
    elif k == "shiftL":
        if rd[op[1]] > ISO_TOL:
            probs.append(f"site {op[1]} not right-isometric after shift left (dev {rd[op[1]]:.2e})")
    elif k == "setcanon":
        c = op[1]
        bad = [i for i in range(c) if ld[i] > ISO_TOL] + [i for i in range(c + 1, L) if rd[i] > ISO_TOL]
        if not bad:
            WORST["iso"] = max([WORST["iso"]] + ld[:c] + rd[c + 1:])
        if bad:
            probs.append(f"set_canonical_form({c}): sites {bad} violate the mixed-canonical isometry conditions")
        if canon_ret is not None and c not in canon_ret:
            probs.append(f"check_canonical_form returned {canon_ret} after set_canonical_form({c})")
    elif k in ("normalize", "pad"):
        form = op[1] if k == "normalize" else "B"
        devs = rd if form == "B" else ld
        bad = [i for i in range(L) if devs[i] > ISO_TOL]
        if bad:
            probs.append(f"{k}: sites {bad} not {'right' if form == 'B' else 'left'}-isometric afterwards")
        centre = 0 if form == "B" else L - 1
        if canon_ret is not None and centre not in canon_ret:
            probs.append(f"check_canonical_form returned {canon_ret} after {k} (form {form})")
    # by-design truncation of the SVD shift in a normal-scale block: razor edge, skipped
    # a cut of weight < 1e-12 in a block of normal size moves the vector by < 1e-6 x environment: by design, skipped
    worst, block, sqrt_weight = significant_truncation(events)
    edge = bool(probs) and 1e-6 < block < np.inf and dev <= min(1e-5 * scale, 1e3 * sqrt_weight * scale)
    if edge:
        COUNTS.add("skipped_by_design_truncation_below_1e-12_weight")
        return True, "skipped (edge): " + "; ".join(probs) + f" — the SVD shift cut a singular value {worst:.2e} x the largest " \
                     f"in a block of squared norm {block:.2e} (discarded weight < 1e-12 by design)", True, None
    return not probs, ("; ".join(probs) or f"ok dev<={VEC_TOL:g}{phase_note}"), edge, None


# ----------------------------------------------------------------------------------------------- runners


def run_sequence(inp):
    rng = random.Random(inp["sub"])
    nprng = np.random.default_rng(inp["sub"])
    L, dims, bonds, ts, gauges = random_mps(rng, nprng)
    ops = inp.get("ops") or gen_ops(rng, L, rng.randint(3, 7))
    mps = MPS(L, tensors=[t.copy() for t in ts], physical_dimensions=list(dims))
    seq = f"seq{inp['sub']}"
    out = []
    dims_now = list(dims)
    with observed(mps):
        # to_vec value tie at the start (model chain product in to_vec order)
        v0 = mps.to_vec()
        if v0.size <= 108:
            k = pow2(v0)
            out.append({"kind": "vec", "req": scaled("vec " + req_tensors(mps.tensors), k), "impl": " ".join(fnum(z, k) for z in v0), "oracle": None,
                        "sig": f"vec:{dims}:{bonds}", "nontrivial": L > 1})
        flip_tied = False
        for n, op in enumerate(ops):
            op = list(op)
            k = op[0]
            if k == "truncate":
                cur = mps.check_canonical_form()
                if not cur:  # truncate() indexes check_canonical_form()[0]; bring the MPS into a canonical form first
                    op = ["setcanon", rng.randrange(L), "QR"]
                    k = "setcanon"
            if k == "pad":  # the code refuses targets below the present bonds: choose a legal target for this op kind
                need = max(max(t.shape[1], t.shape[2]) for t in mps.tensors)
                legal = all(t.shape[2] <= 2 ** min(i + 1, L - 1 - i) for i, t in enumerate(mps.tensors[:-1]))
                if not legal:
                    op = ["normalize", "B", "QR"]
                    k = "normalize"
                else:
                    op[1] = max(op[1], need)
            before = mps.to_vec()
            tensors_before = [t.copy() for t in mps.tensors]
            events, contracts, pad_entry, canon_rets, exc = record(lambda: apply_op(mps, op))
            after = mps.to_vec() if not exc else before
            ccases, canon_ret = ([], None) if exc else canon_cases(mps, f"{seq}.{n}")
            ok, detail, edge, key = op_oracle(op, L, dims_now, before, after, mps, canon_ret, events, exc)
            if k == "flip":
                dims_now = list(reversed(dims_now))
            treq = trace_request(L, op, canon_rets[0][0] if (k == "truncate" and canon_rets and canon_rets[0]) else 0)
            case = {"kind": "op-" + k, "req": treq, "impl": trace_string(events) if treq else None,
                    "oracle": {"ok": ok, "detail": detail}, "edge": edge, "id": f"{seq}.{n}",
                    "sig": f"{k}:{L}:{op[1:]}:{trace_string(events)}", "nontrivial": len(events) > 0,
                    "meta": {"L": L, "dims": dims, "bonds": bonds, "gauges": gauges, "op": op}}
            if key:
                case["key"] = key
            out.append(case)
            COUNTS.add("op=" + k + ("/" + str(op[2]) if len(op) > 2 else ""))
            out += primitive_cases(events, f"{seq}.{n}", budget=inp.get("prim_budget", 6))
            if k == "flip" and not flip_tied and sum(t.size for t in tensors_before) <= 120:
                flip_tied = True
                k = pow2(*mps.tensors)
                out.append({"kind": "flip", "req": scaled("flip " + req_tensors(tensors_before), k), "impl": impl_tensors(mps.tensors, k), "oracle": None,
                            "sig": f"flip:{[t.shape for t in tensors_before]}", "nontrivial": L > 1})
            if k == "pad" and pad_entry is not None and sum(t.size for t in pad_entry) <= 400:
                k = pow2(*pad_entry)
                out.append({"kind": "pad", "req": scaled(f"pad {op[1]} " + req_tensors(tensors_before), k), "impl": impl_tensors(pad_entry, k), "oracle": None,
                            "sig": f"pad:{op[1]}:{[t.shape for t in tensors_before]}",
                            "nontrivial": any(a.shape != b.shape for a, b in zip(pad_entry, tensors_before))})
            out += ccases
            if exc:
                break
    return out


def build_scaled(inp):
    """the D23 family: random MPS (L=4 qubits, bonds [1,2,4,2,1]) brought to unit norm, then either an unbalanced gauge
    (tensor 1 scaled by g, tensor 3 by 1/g; the vector is unchanged) or a global scale"""
    nprng = np.random.default_rng(inp["sub"])
    L, b = 4, [1, 2, 4, 2, 1]
    ts = [nprng.normal(size=(2, b[i], b[i + 1])) + 1j * nprng.normal(size=(2, b[i], b[i + 1])) for i in range(L)]
    m = MPS(L, tensors=ts, physical_dimensions=[2] * L)
    m.normalize("B")
    ts = [t.copy() for t in m.tensors]
    if inp["variant"] == "gauge":
        g = float(inp.get("g", 1e-6))
        ts[1] = ts[1] * g
        ts[3] = ts[3] / g
    else:
        sc = float(inp.get("scale", 1e-2))
        ts = [t * sc for t in ts]
    return L, ts


def run_smallscale(inp):
    L, ts = build_scaled(inp)
    op = list(inp["op"])
    out = []
    mps = MPS(L, tensors=[t.copy() for t in ts], physical_dimensions=[2] * L)
    with observed(mps):
        before = mps.to_vec()
        events, _, _, _, exc = record(lambda: apply_op(mps, op))
        after = mps.to_vec()
    # the same operation with QR on a copy
    ref = MPS(L, tensors=[t.copy() for t in ts], physical_dimensions=[2] * L)
    apply_op(ref, op[:-1] + ["QR"])
    after_qr = ref.to_vec()
    nb = float(np.linalg.norm(before))

    def rel_dev(a):
        if op[0] == "normalize":
            c = np.vdot(before, a) / np.vdot(before, before)
            return float(np.linalg.norm(a - c * before))  # a has unit norm
        return float(np.linalg.norm(a - before)) / nb

    dev_svd, dev_qr = rel_dev(after), rel_dev(after_qr)
    worst, small, _ = significant_truncation(events)
    ok = dev_svd <= 1e-9 and not exc
    # the known finding: a two-site block whose squared norm is within 1e6 x of the absolute threshold 1e-12 was cut,
    # and the QR variant of the same operation is exact; anything else that fails here is reported without a key
    known = (not ok) and small <= 1e-6 and dev_qr <= 1e-9 and not exc
    case = {"kind": "svd-smallscale", "req": f"trace {op[0] if op[0] != 'shiftR' else 'shiftR'} {L} {op[1]} {op[2]}",
            "impl": trace_string(events),
            "oracle": {"ok": ok, "detail": f"{op} on a {inp['variant']}-scaled MPS (|psi| = {nb:.3e}, truncated two-site block |theta|_F^2 = {small:.3e}): "
                                           f"relative change of the vector {dev_svd:.3e} with SVD, {dev_qr:.3e} with QR; "
                                           f"largest discarded singular value / largest = {worst:.3e} (absolute threshold 1e-12 in shift_orthogonality_center_right)"},
            "sig": f"smallscale:{inp['variant']}:{op}", "nontrivial": True,
            "meta": {"dev_svd": dev_svd, "dev_qr": dev_qr, "theta2": small}}
    if op[0] == "setcanon":
        case["req"] = f"trace setcanon {L} {op[1]} {op[2]}"
    if known:
        case["key"] = KNOWN_KEY
    out.append(case)
    out += primitive_cases(events, f"small{inp['sub']}", budget=4)
    return out


def run_pad_error(inp):
    """pad_bond_dimension with a target below a present bond: ValueError, model `err`"""
    rng = random.Random(inp["sub"])
    nprng = np.random.default_rng(inp["sub"])
    L = rng.choice([2, 3, 4, 5])
    dims = [rng.choice([2, 3]) for _ in range(L)]
    bonds = [1] + [rng.choice([1, 2, 3, 4]) for _ in range(L - 1)] + [1]
    ts = [nprng.normal(size=(dims[i], bonds[i], bonds[i + 1])) + 0j for i in range(L)]
    target = rng.choice([1, 2, 3, 4])
    mps = MPS(L, tensors=[t.copy() for t in ts], physical_dimensions=dims)
    with observed(mps):
        before = mps.to_vec()
        events, _, pad_entry, _, exc = record(lambda: mps.pad_bond_dimension(target))
    if exc == "ValueError":
        impl = "err"
    elif exc:
        impl = "exc:" + exc
    else:
        impl = impl_tensors(pad_entry) if pad_entry is not None else "no-normalize"
    oracle = None
    if not exc:
        after = mps.to_vec()
        c = np.vdot(before, after) / np.vdot(before, before)
        dev = float(np.linalg.norm(after - c * before))
        oracle = {"ok": dev < 1e-9 and abs(float(np.linalg.norm(after)) - 1) < 1e-9, "detail": f"pad({target}) dev {dev:.2e}"}
    else:
        COUNTS.add("pad_valueerror")
        consistent = all(mps.tensors[i].shape[2] == mps.tensors[i + 1].shape[1] for i in range(L - 1))
        COUNTS.add("pad_valueerror_leaves_consistent_mps" if consistent else "pad_valueerror_leaves_INCONSISTENT_mps")
    return {"kind": "pad-error" if exc else "pad-ok", "req": f"pad {target} " + req_tensors(ts), "impl": impl, "oracle": oracle,
            "sig": f"pad:{target}:{bonds}:{impl[:3]}", "nontrivial": True}


TT = np.array([[[1, 0], [0, 0]], [[0, 0], [0, 1]]], dtype=complex)      # sum T^H T = 1 and sum T T^H = 1
TF = np.array([[[1, 0], [0, 0]], [[0, 1], [0, 0]]], dtype=complex)      # left-isometric only
FT = TF.transpose(0, 2, 1).copy()                                        # right-isometric only
FF = 2 * TT                                                              # neither


def run_canon_tables(inp):
    """all 4^L truth tables on constructed (2,2,2) tensors through the real check_canonical_form"""
    L = inp["L"]
    out = []
    table = {(True, True): TT, (True, False): TF, (False, True): FT, (False, False): FF}
    for code in range(4**L):
        a = [bool((code >> (2 * i)) & 1) for i in range(L)]
        b = [bool((code >> (2 * i + 1)) & 1) for i in range(L)]
        ts = [table[(a[i], b[i])].copy() for i in range(L)]
        mps = MPS(L, tensors=ts, physical_dimensions=[2] * L)
        ret = mps.check_canonical_form()
        abits, bbits = "".join("1" if x else "0" for x in a), "".join("1" if x else "0" for x in b)
        want = [i for i in range(L) if all(a[:i]) and all(b[i + 1:])]
        impl = "c" + "".join(f" {i}" for i in ret)
        out.append({"kind": "canon-table", "req": f"canon {abits} {bbits}", "impl": impl, "id": f"tab{L}.{code}",
                    "oracle": {"ok": list(ret) == want, "detail": f"a={abits} b={bbits}: returned {ret}, set of valid centres {want}"},
                    "sig": f"tab:{abits}:{bbits}", "nontrivial": True})
        if code % 5 == 0 or L <= 2:  # the model also decides the isometry tests itself (exact rational tensors)
            out.append({"kind": "canon-tensors", "req": "canonT " + req_tensors(ts), "impl": impl, "id": f"tabT{L}.{code}", "oracle": None,
                        "sig": f"tabT:{abits}:{bbits}", "nontrivial": True})
    return out


# ----------------------------------------------------------------------------------------------- bridge (list model <-> Matrix model)
BRIDGE = {"n": 0, "bad": 0, "worst": 0.0, "detail": ""}


def pad_slice(m, n):
    """Lemmas/MpsBridge.toMat: a bond matrix read in the uniform index type Fin n (positions outside are 0)"""
    out = np.zeros((n, n), dtype=complex)
    out[: m.shape[0], : m.shape[1]] = m
    return out


def to_matrix_chain(ts, n):
    """Lemmas/MpsBridge.toMatrixChain: site tensor -> physical index -> n x n matrix"""
    return [[pad_slice(t[s], n) for s in range(t.shape[0])] for t in ts]


def chain_entry(chain, cfg):
    n = chain[0][0].shape[0]
    m = np.eye(n, dtype=complex)
    for site, s in zip(chain, cfg):
        m = m @ site[s]
    return m[0, 0]


def cfg_of_index(dims, idx):
    cfg = []
    for d in dims:
        cfg.append(idx % d)
        idx //= d
    return cfg


def padded_vec(chain, dims):
    """all amplitudes by the padded-matrix route, in `to_vec` order (site 0 least significant): the (0,0) entry of the
    chain product — the right-hand side of `amp_eq_chain` (NaN where a physical index does not exist in the chain)"""
    total = int(np.prod(dims))
    out = []
    for idx in range(total):
        cfg = cfg_of_index(dims, idx)
        ok = len(cfg) == len(chain) and all(s < len(site) for site, s in zip(chain, cfg))
        out.append(chain_entry(chain, cfg) if ok else complex("nan"))
    return np.array(out)


def well_shaped_chain(ts, n):
    """Lemmas/MpsBridge.wellShapedChain on the real tensors"""
    if not ts:
        return False
    for t in ts:
        if t.ndim != 3 or min(t.shape) < 1 or t.shape[1] > n or t.shape[2] > n:
            return False
    if any(ts[i].shape[2] != ts[i + 1].shape[1] for i in range(len(ts) - 1)):
        return False
    return ts[0].shape[1] == 1 and ts[-1].shape[2] == 1


def bridge_note(dev, scale, what, probs, tol=1e-10):
    BRIDGE["n"] += 1
    rel = float(dev) / max(1.0, float(scale))
    BRIDGE["worst"] = max(BRIDGE["worst"], rel)
    if not rel <= tol:
        BRIDGE["bad"] += 1
        BRIDGE["detail"] = what
        probs.append(f"{what}: deviation {rel:.3e}")


def run_bridge(inp):
    """The statements of Lemmas/MpsBridge.lean / C10.15-C10.18 checked on the real code's tensors, independently of the Lean
    model: `to_vec` = (0,0) entry of the zero-padded matrix chain; the real QR shift is the Matrix-level replacement
    A, B -> Q, R*B; the real flip is transpose + reverse of the padded matrices; the real padding does not change the padded
    matrices.  Each real move is also tied to the list model through the driver (same requests as the sequence kinds)."""
    rng = random.Random(inp["sub"])
    nprng = np.random.default_rng(inp["sub"])
    L, dims, bonds, ts, gauges = random_mps(rng, nprng, lmax=5, chimax=3)
    while int(np.prod(dims)) > 128:
        L, dims, bonds, ts, gauges = random_mps(rng, nprng, lmax=5, chimax=3)
    mps = MPS(L, tensors=[t.copy() for t in ts], physical_dimensions=list(dims))
    tag = f"br{inp['sub']}"
    out = []
    with observed(mps):
        # --- amp_eq_chain
        n = max(bonds)
        v0 = mps.to_vec()
        scale = float(np.max(np.abs(v0))) if v0.size else 1.0
        probs = []
        if not well_shaped_chain(mps.tensors, n):
            probs.append(f"tensors of a freshly built MPS are not a well-shaped chain: {[t.shape for t in mps.tensors]}")
        pv = padded_vec(to_matrix_chain(mps.tensors, n), dims)
        bridge_note(np.max(np.abs(pv - v0)), scale, "to_vec vs (0,0) entry of the padded matrix chain", probs)
        k = pow2(v0)
        out.append({"kind": "bridge-vec", "req": scaled("vec " + req_tensors(mps.tensors), k), "impl": " ".join(fnum(z, k) for z in v0),
                    "oracle": {"ok": not probs, "detail": "; ".join(probs) or f"n={n} L={L} dims={dims} bonds={bonds}"},
                    "sig": f"bridge-vec:{dims}:{bonds}", "nontrivial": L > 1, "id": f"{tag}.vec"})
        # --- executable QR shift = Matrix-level replacement A, B -> Q, R*B
        if L >= 2:
            i = rng.randrange(L - 1)
            before = [t.copy() for t in mps.tensors]
            events, _, _, _, exc = record(lambda: mps.shift_orthogonality_center_right(i, "QR"))
            qr = [e for e in events if e["ev"] == "qr" and "Q" in e and e.get("Bnew") is not None]
            probs = []
            if exc or len(qr) != 1:
                probs.append(f"shift_orthogonality_center_right({i}) raised {exc} / made {len(qr)} QR calls")
            else:
                e = qr[0]
                a, b, q, r, anew, bnew = e["A"], e["B"], e["Q"], e["R"], e["Anew"], e["Bnew"]
                phys, left, right = a.shape
                kk = r.shape[0]
                shaped = q.shape == (phys * left, kk) and r.shape == (kk, right) and kk >= 1
                if not shaped:  # qrShaped
                    probs.append(f"QR factors not of the shape assumed by qrShaped: Q {q.shape} R {r.shape} A {a.shape}")
                else:
                    n2 = max(n, kk)
                    sc = max(1.0, float(np.max(np.abs(a))), float(np.max(np.abs(b))))
                    bridge_note(np.max(np.abs(q @ r - a.reshape(phys * left, right))), sc, "hypothesis A = Q R of the executable shift", probs)
                    dq = max(float(np.max(np.abs(pad_slice(anew[s], n2) - pad_slice(q[s * left:(s + 1) * left, :], n2)))) for s in range(phys))
                    bridge_note(dq, sc, "new left tensor vs reshape of Q (padded matrices)", probs, tol=0.0)
                    db = max(float(np.max(np.abs(pad_slice(bnew[s], n2) - pad_slice(r, n2) @ pad_slice(b[s], n2)))) for s in range(b.shape[0]))
                    bridge_note(db, sc * sc, "new right tensor vs R * B (padded matrices)", probs, tol=1e-12)
                    if not well_shaped_chain(mps.tensors, n2):
                        probs.append(f"chain after the shift is not well-shaped: {[t.shape for t in mps.tensors]}")
                    pv = padded_vec(to_matrix_chain(mps.tensors, n2), dims)
                    bridge_note(np.max(np.abs(pv - v0)), scale, "amplitudes after the shift (padded route) vs to_vec before", probs)
                    kq = pow2(anew, bnew)
                    req = "qr " + " ".join([req_tensor(a), req_tensor(b), req_mat(q), req_mat(r)])
                    out.append({"kind": "bridge-qr", "req": scaled(req, kq), "impl": impl_tensor(anew, kq) + " ; " + impl_tensor(bnew, kq),
                                "oracle": {"ok": not probs, "detail": "; ".join(probs) or f"site {i} k={kk}"},
                                "sig": f"bridge-qr:{a.shape}:{b.shape}:{kk}", "nontrivial": kk > 1, "id": f"{tag}.qr"})
            if probs and not (out and out[-1]["kind"] == "bridge-qr"):
                out.append({"kind": "bridge-qr", "req": None, "impl": None, "oracle": {"ok": False, "detail": "; ".join(probs)},
                            "sig": "bridge-qr:failed", "id": f"{tag}.qr"})
        # --- executable flip = Alg.flip of the padded matrices
        before = [t.copy() for t in mps.tensors]
        nb = max(max(t.shape[1], t.shape[2]) for t in before)
        _, _, _, _, exc = record(lambda: mps.flip_network())
        probs = []
        if exc or len(mps.tensors) != L:
            probs.append(f"flip_network raised {exc}")
        else:
            dev = 0.0
            for kk in range(L):
                old = before[L - 1 - kk]
                new = mps.tensors[kk]
                if new.shape[0] != old.shape[0]:
                    probs.append("flip changed a physical dimension")
                    break
                dev = max(dev, max(float(np.max(np.abs(pad_slice(new[s], nb) - pad_slice(old[s], nb).T))) for s in range(old.shape[0])))
            bridge_note(dev, 1.0, "flipped tensors vs transpose + reverse of the padded matrices", probs, tol=0.0)
            if not well_shaped_chain(mps.tensors, nb):
                probs.append("flipped chain is not well-shaped")
            if not probs:
                ch_old, ch_new = to_matrix_chain(before, nb), to_matrix_chain(mps.tensors, nb)
                dev = 0.0
                for idx in range(int(np.prod(dims))):
                    cfg = cfg_of_index(dims, idx)
                    dev = max(dev, abs(chain_entry(ch_new, list(reversed(cfg))) - chain_entry(ch_old, cfg)))
                bridge_note(dev, scale, "amplitude of the flipped chain at the reversed configuration", probs)
            else:
                BRIDGE["n"] += 1
                BRIDGE["bad"] += 1
                BRIDGE["detail"] = probs[0]
        kf = pow2(*mps.tensors)
        small = sum(t.size for t in before) <= 160
        out.append({"kind": "bridge-flip", "req": scaled("flip " + req_tensors(before), kf) if small and not exc else None,
                    "impl": impl_tensors(mps.tensors, kf) if small and not exc else None,
                    "oracle": {"ok": not probs, "detail": "; ".join(probs) or f"L={L}"},
                    "sig": f"bridge-flip:{[t.shape for t in before]}", "nontrivial": L > 1, "id": f"{tag}.flip"})
        if not exc:
            mps.flip_network()  # back (not recorded)
        # --- executable padding loop: invisible on the padded matrices
        before = [t.copy() for t in mps.tensors]
        need = max(max(t.shape[1], t.shape[2]) for t in before)
        legal = all(t.shape[2] <= 2 ** min(j + 1, L - 1 - j) for j, t in enumerate(before[:-1]))
        if legal:
            target = max(need, rng.choice([1, 2, 3, 4, 6]))
            _, _, pad_entry, _, exc = record(lambda: mps.pad_bond_dimension(target))
            probs = []
            if exc or pad_entry is None:
                probs.append(f"pad_bond_dimension({target}) raised {exc} on legal bonds {[t.shape for t in before]}")
            else:
                nn = max(max(t.shape[1], t.shape[2]) for t in pad_entry)
                dev = max(max(float(np.max(np.abs(pad_slice(p_[s], nn) - pad_slice(o_[s], nn)))) for s in range(o_.shape[0]))
                          for p_, o_ in zip(pad_entry, before))
                bridge_note(dev, 1.0, "padded tensors vs original tensors as padded matrices", probs, tol=0.0)
                if not well_shaped_chain(pad_entry, nn):
                    probs.append(f"padded chain is not well-shaped: {[t.shape for t in pad_entry]}")
                pv = padded_vec(to_matrix_chain(pad_entry, nn), dims)
                bridge_note(np.max(np.abs(pv - v0)), scale, "amplitudes of the padded chain (padded route) vs to_vec before", probs)
            small = pad_entry is not None and sum(t.size for t in pad_entry) <= 400
            kp = pow2(*pad_entry) if small else 0
            out.append({"kind": "bridge-pad", "req": scaled(f"pad {target} " + req_tensors(before), kp) if small else None,
                        "impl": impl_tensors(pad_entry, kp) if small else None,
                        "oracle": {"ok": not probs, "detail": "; ".join(probs) or f"target {target}"},
                        "sig": f"bridge-pad:{target}:{[t.shape for t in before]}",
                        "nontrivial": pad_entry is not None and any(a_.shape != b_.shape for a_, b_ in zip(pad_entry, before)),
                        "id": f"{tag}.pad"})
    return out


# ----------------------------------------------------------------------------------------------- extension x10:
# SVD shift (truncating / untruncated / rank-deficient / d = 3), last-site QR, bonds of truncate, rectangular Gram tests
# (theorems C10.21 - C10.27 of Props/C10.lean; Lemmas/MpsBridgeSvd.lean)

H4 = 0.5 * np.array([[1, 1, 1, 1], [1, -1, 1, -1], [1, 1, -1, -1], [1, -1, -1, 1]], dtype=complex)  # dyadic, orthogonal


def svdx_mps(rng, nprng, variant):
    """MPS for the SVD-shift cases: physical dimension 3 present (all 3 for variant `d3`), one bond with a Schmidt direction
    that the absolute threshold 1e-12 cuts (`tiny`), exactly rank-deficient bonds (`rankdef`), plain otherwise"""
    L = rng.choice([2, 3, 3, 4, 4, 5])
    dims = [3] * L if variant == "d3" else [rng.choice([2, 3]) for _ in range(L)]
    if variant != "d3" and 3 not in dims and rng.random() < 0.5:
        dims[rng.randrange(L)] = 3
    bonds = [1]
    for i in range(L - 1):
        cap = min(int(np.prod(dims[: i + 1])), int(np.prod(dims[i + 1:])), 4)
        bonds.append(rng.randint(1, cap) if variant != "rankdef" else min(4, rng.randint(2, 4)))
    bonds.append(1)
    ts = [nprng.normal(size=(dims[i], bonds[i], bonds[i + 1])) + 1j * nprng.normal(size=(dims[i], bonds[i], bonds[i + 1]))
          for i in range(L)]
    marks = []
    for i in range(L - 1):
        if bonds[i + 1] >= 2:
            if variant == "tiny" or (variant in ("d3", "plain") and rng.random() < 0.4):
                ts[i][:, :, -1] *= 10.0 ** (-rng.uniform(7.0, 9.5))
                marks.append(("tiny", i))
            elif variant == "rankdef":
                if rng.random() < 0.5:
                    ts[i][:, :, -1] = ts[i][:, :, 0]
                else:
                    ts[i][:, :, -1] = 0.0
                marks.append(("rankdef", i))
    return L, dims, bonds, ts, marks


def theta_of(a, b):
    return np.tensordot(a, b, axes=(2, 1)).reshape(a.shape[0] * a.shape[1], b.shape[0] * b.shape[2])


def block_oracle(e, probs):
    """C10.24d on the real call, independently of the model: the merged matrix of the returned pair differs from the one
    handed to the SVD by exactly the discarded weight, `|theta - theta'|_F = sqrt(sum_{x >= keep} s_x^2)`; for keep = len(s)
    it is unchanged.  Returns (keep, k, discarded weight)."""
    a_new, b_new = e["ret"]
    s = e["S"]
    keep = a_new.shape[2]
    th_old = theta_of(e["A"], e["B"])
    th_new = theta_of(a_new, b_new)
    nrm = max(1.0, float(np.linalg.norm(th_old)))
    err = float(np.linalg.norm(th_old - th_new))
    w = float(np.sum(s[keep:] ** 2))
    dev = abs(err - np.sqrt(w))
    BLOCK["n"] += 1
    BLOCK["worst"] = max(BLOCK["worst"], dev / nrm)
    if not dev <= 1e-12 * nrm + 1e-9 * np.sqrt(w):
        BLOCK["bad"] += 1
        BLOCK["detail"] = f"|theta-theta'|_F = {err:.6e}, sqrt(discarded weight) = {np.sqrt(w):.6e}"
        probs.append(f"two_site_svd at site {e['site']}: merged matrix changed by {err:.6e}, discarded weight^(1/2) = {np.sqrt(w):.6e} "
                     f"(keep {keep} of {len(s)})")
    if b_new.shape[1] != keep or a_new.shape[:2] != e["A"].shape[:2] or (b_new.shape[0], b_new.shape[2]) != (e["B"].shape[0], e["B"].shape[2]):
        probs.append(f"two_site_svd returned shapes {a_new.shape} / {b_new.shape} for inputs {e['A'].shape} / {e['B'].shape}")
    return keep, len(s), w


def bonds_of_events(events, L):
    """physical bonds touched by the two-site primitives of a recorded run (flips replayed): harness-side reading of the
    REAL call sequence (site = position of the tensor object in `mps.tensors` at call time)"""
    flipped, out = False, []
    for e in events:
        if e["ev"] == "F":
            flipped = not flipped
        elif e["ev"] in ("svd", "svdT") or (e["ev"] == "qr" and e.get("changed") is not None and len(e["changed"]) == 2):
            i = e["site"]
            out.append(L - 2 - i if flipped else i)
    return out


def run_svdx(inp):
    rng = random.Random(inp["sub"])
    nprng = np.random.default_rng(inp["sub"])
    variant = inp["variant"]
    L, dims, bonds, ts, marks = svdx_mps(rng, nprng, variant)
    tag = f"sx{inp['sub']}"
    out = []
    mps = MPS(L, tensors=[t.copy() for t in ts], physical_dimensions=list(dims))
    with observed(mps):
        # ---- (1) SVD shift right at every bond, left to right (centre prepared by QR so that the cut values are Schmidt values)
        mps.set_canonical_form(0)
        for i in range(L - 1):
            before = mps.to_vec()
            events, _, _, _, exc = record(lambda: mps.shift_orthogonality_center_right(i, "SVD"))
            after = mps.to_vec() if not exc else before
            probs = []
            sv = [e for e in events if e["ev"] == "svd" and "theta" in e]
            if exc or len(sv) != 1:
                probs.append(f"shift_orthogonality_center_right({i}, 'SVD') raised {exc} / made {len(sv)} two_site_svd calls")
                keep = k = 0
                w = 0.0
            else:
                keep, k, w = block_oracle(sv[0], probs)
                scale = max(1.0, float(np.linalg.norm(before)))
                dev = float(np.linalg.norm(after - before))
                # the centre is at site i: the environment of the block is isometric, the vector moves by exactly sqrt(w)
                if not dev <= 1e-10 * scale + 1.001 * np.sqrt(w):
                    probs.append(f"to_vec changed by {dev:.3e}, discarded weight^(1/2) {np.sqrt(w):.3e}")
                if keep == k and not dev <= 1e-10 * scale:
                    probs.append(f"nothing discarded but to_vec changed by {dev:.3e}")
                if left_iso_dev(mps.tensors[i]) > ISO_TOL:
                    probs.append(f"site {i} not left-isometric after the SVD shift")
            COUNTS.add("svdx_shift_truncating" if keep < k else "svdx_shift_full")
            out.append({"kind": "svdx-shift", "req": f"trace shiftR {L} {i} SVD", "impl": trace_string(events),
                        "oracle": {"ok": not probs, "detail": "; ".join(probs) or f"{variant} L={L} dims={dims} bonds={bonds} site {i} keep {keep}/{k} w={w:.2e}"},
                        "sig": f"svdx-shift:{variant}:{dims[i]}:{dims[i + 1]}:{keep}:{k}:{i == L - 2}", "nontrivial": keep < k,
                        "id": f"{tag}.s{i}", "meta": {"marks": marks}})
            out += primitive_cases(events, f"{tag}.s{i}", budget=2)
            if exc:
                return out
        # ---- (2) last site: the SVD request falls back to QR and R (1 x 1) is thrown away
        before = mps.to_vec()
        events, _, _, _, exc = record(lambda: mps.shift_orthogonality_center_right(L - 1, "SVD"))
        after = mps.to_vec() if not exc else before
        probs = []
        qr = [e for e in events if e["ev"] == "qr" and "R" in e]
        if exc or len(qr) != 1 or any(e["ev"] in ("svd", "svdT") for e in events):
            probs.append(f"shift at the last site raised {exc} / events {trace_string(events)}")
        else:
            e = qr[0]
            r = e["R"]
            if r.shape != (1, 1):
                probs.append(f"R at the last site has shape {r.shape}")
            else:
                scale = max(1.0, float(np.linalg.norm(before)))
                dev = float(np.linalg.norm(before - r[0, 0] * after))
                WORST["scalar"] = max(WORST["scalar"], dev / scale)
                if not dev <= 1e-10 * scale:
                    probs.append(f"old vector != r00 x new vector at the last site (dev {dev:.3e}, r00 = {r[0, 0]!r})")
                if abs(float(np.linalg.norm(after)) - 1.0) > 1e-9 and float(np.linalg.norm(before)) > 1e-200:
                    probs.append(f"vector after dropping R has norm {float(np.linalg.norm(after))!r}")
        out.append({"kind": "svdx-last", "req": f"trace shiftR {L} {L - 1} SVD", "impl": trace_string(events),
                    "oracle": {"ok": not probs, "detail": "; ".join(probs) or f"L={L} last site phys {dims[-1]}"},
                    "sig": f"svdx-last:{dims[-1]}:{mps.tensors[-1].shape}", "nontrivial": True, "id": f"{tag}.last"})
        out += primitive_cases(events, f"{tag}.last", budget=2)
        if exc:
            return out
        # ---- (3) truncate with a threshold that really cuts, from a chosen centre (incl. both ends)
        c = rng.choice([0, L - 1, rng.randrange(L)])
        mps2 = MPS(L, tensors=[t.copy() for t in ts], physical_dimensions=list(dims))
    with observed(mps2):
        mps2.set_canonical_form(c)
        nrm = float(np.linalg.norm(mps2.to_vec()))
        if nrm > 0:
            mps2.tensors[c] = mps2.tensors[c] / nrm
        thr = inp["thr"]
        before = mps2.to_vec()
        events, _, _, canon_rets, exc = record(lambda: mps2.truncate(threshold=thr, max_bond_dim=None))
        probs = []
        c_seen = canon_rets[0][0] if canon_rets and canon_rets[0] else None
        after = mps2.to_vec() if not exc else before
        sw = 0.0
        ncut = 0
        if exc or c_seen is None:
            probs.append(f"truncate raised {exc} / check_canonical_form returned {canon_rets}")
        else:
            for e in events:
                if e["ev"] in ("svd", "svdT") and "theta" in e:
                    keep, k, w = block_oracle(e, probs)
                    sw += float(np.sqrt(w))
                    ncut += int(keep < k)
                    if e["thr"] != thr or e["cap"] is not None:
                        probs.append(f"truncate called two_site_svd(threshold={e['thr']!r}, max_bond_dim={e['cap']}) for threshold={thr!r}")
            bl = bonds_of_events(events, L)
            if sorted(bl) != list(range(L - 1)):
                probs.append(f"truncate ran its two-site SVD on bonds {bl}: not every bond 0..{L - 2} exactly once")
            dev = float(np.linalg.norm(after - before))
            if not dev <= 1e-9 + 1.5 * sw:
                probs.append(f"truncate(threshold={thr!r}) moved the unit vector by {dev:.3e}; sum of sqrt(discarded weights) = {sw:.3e}")
            if c_seen > c:
                probs.append(f"check_canonical_form()[0] = {c_seen} after set_canonical_form({c})")
        COUNTS.add("svdx_truncate_cutting_calls", ncut)
        if c_seen is not None:
            bl = bonds_of_events(events, L)
            out.append({"kind": "svdx-truncate", "req": f"trace truncate {L} {c_seen}", "impl": trace_string(events),
                        "oracle": {"ok": not probs, "detail": "; ".join(probs) or f"L={L} c={c_seen} thr={thr:g} cuts {ncut} sum sqrt w {sw:.2e}"},
                        "sig": f"svdx-truncate:{L}:{c_seen}:{thr:g}:{ncut}", "nontrivial": L > 1, "id": f"{tag}.tr"})
            out.append({"kind": "svdx-bonds", "req": f"bonds truncate {L} {c_seen}", "impl": "c" + "".join(f" {x}" for x in bl),
                        "oracle": None, "sig": f"svdx-bonds:{L}:{c_seen}", "nontrivial": L > 2, "id": f"{tag}.bonds"})
            out += primitive_cases(events, f"{tag}.tr", budget=3)
        else:
            out.append({"kind": "svdx-truncate", "req": None, "impl": None, "oracle": {"ok": False, "detail": "; ".join(probs)},
                        "sig": "svdx-truncate:failed", "id": f"{tag}.tr"})
        if exc:
            return out
        # ---- (4) set_canonical_form: same bonds, same order (C10.27c)
        c2 = rng.randrange(L)
        dec = rng.choice(["QR", "SVD"])
        events, _, _, _, exc = record(lambda: mps2.set_canonical_form(c2, dec))
        if not exc:
            bl = bonds_of_events(events, L)
            out.append({"kind": "svdx-bonds-setcanon", "req": f"bonds setcanon {L} {c2} {dec}", "impl": "c" + "".join(f" {x}" for x in bl),
                        "oracle": {"ok": sorted(bl) == list(range(L - 1)),
                                   "detail": f"set_canonical_form({c2}, {dec}) ran its two-site primitive on bonds {bl}"},
                        "sig": f"svdx-bonds-sc:{L}:{c2}:{dec}", "nontrivial": L > 2, "id": f"{tag}.scb"})
    return out


def iso_matrix(rng, rows, cols, mix):
    """rows x cols matrix with orthonormal columns and dyadic entries (distinct unit vectors times a phase in {1,-1,i,-i};
    for rows = 4 optionally mixed by the dyadic Hadamard matrix): every Gram entry is exact in binary64"""
    pick = rng.sample(range(rows), cols)
    m = np.zeros((rows, cols), dtype=complex)
    for j, i in enumerate(pick):
        m[i, j] = rng.choice([1, -1, 1j, -1j])
    if mix and rows == 4:
        m = H4 @ m
    return m


def run_canon_rect(inp):
    """exact isometry tests on rectangular tensors, physical dimension 2 / 3 / 4, through the real check_canonical_form and
    through the model's `checkCanonicalOf` / `isLeftIso` / `isRightIso` (C10.26)"""
    rng = random.Random(inp["sub"])
    L = rng.choice([1, 2, 3, 3, 4])
    out = []
    dims, bonds, ts, want_a, want_b = [], [1], [], [], []
    for i in range(L):
        d = rng.choice([2, 3, 3, 4])
        left = bonds[-1]
        kind = rng.choice(["L", "R", "N", "L", "R"])
        if kind == "L":      # (d*left) x right isometry, right <= d*left
            right = 1 if i == L - 1 else rng.randint(1, min(3, d * left))
            t = iso_matrix(rng, d * left, right, rng.random() < 0.5).reshape(d, left, right)
        elif kind == "R":    # left x (d*right) with orthonormal rows: transpose of an isometry
            right = 1 if i == L - 1 else rng.randint(1, 3)
            if left > d * right:
                right = -(-left // d)
                if i == L - 1:
                    kind = "N"
            if kind == "R":
                m = iso_matrix(rng, d * right, left, rng.random() < 0.5).T       # left x (d*right), rows orthonormal
                t = m.reshape(left, d, right).transpose(1, 0, 2).copy()
        if kind == "N":
            right = 1 if i == L - 1 else rng.randint(1, 3)
            t = np.array([[[rng.choice([0.0, 0.5, 1.0, 2.0, -1.5]) + 1j * rng.choice([0.0, 0.0, 1.0, -0.5]) for _ in range(right)]
                           for _ in range(left)] for _ in range(d)], dtype=complex)
            t[0, 0, 0] = 2.0   # neither test can pass: a Gram diagonal entry is at least 4
        dims.append(d)
        bonds.append(t.shape[2])
        ts.append(np.ascontiguousarray(t))
    mps = MPS(L, tensors=[t.copy() for t in ts], physical_dimensions=dims)
    ret = mps.check_canonical_form()
    impl = "c" + "".join(f" {i}" for i in ret)
    ld = [left_iso_dev(t) for t in ts]
    rd = [right_iso_dev(t) for t in ts]
    want = [i for i in range(L) if all(x < 1e-12 for x in ld[:i]) and all(x < 1e-12 for x in rd[i + 1:])]
    clear = all(x < 1e-12 or x > 0.4 for x in ld + rd)
    tag = f"cr{inp['sub']}"
    out.append({"kind": "canon-rect", "req": "canonT " + req_tensors(ts), "impl": impl, "id": f"{tag}.c",
                "oracle": {"ok": list(ret) == want, "detail": f"shapes {[t.shape for t in ts]}: returned {ret}, valid centres by dense isometry test {want}"} if clear else None,
                "sig": f"canon-rect:{[t.shape for t in ts]}:{ret}", "nontrivial": L > 1})
    j = rng.randrange(L)
    bits = ("1" if ld[j] < 1e-12 else "0") + ("1" if rd[j] < 1e-12 else "0")
    # the two bits are read off the REAL method on a one-site chain cut out of the network (boundary bonds need not be 1)
    one = MPS(1, tensors=[ts[j].copy()], physical_dimensions=[dims[j]])
    evs, contracts, _, rets, exc = (None, None, None, None, None)
    with observed(one):
        evs, contracts, _, rets, exc = record(one.check_canonical_form)
    left = [m for s_, m in contracts if s_ == "ijk,ijl->kl"]
    right = [m for s_, m in contracts if s_ == "ijk,ilk->jl"]
    if not exc and len(left) == 1 and len(right) == 1:
        real_bits = ("1" if np.allclose(left[0], np.eye(left[0].shape[0])) else "0") + ("1" if np.allclose(right[0], np.eye(right[0].shape[0])) else "0")
        out.append({"kind": "canon-rect-iso", "req": "iso " + req_tensor(ts[j]), "impl": real_bits, "id": f"{tag}.i",
                    "oracle": {"ok": real_bits == bits, "detail": f"tensor {ts[j].shape}: Gram tests of the real code {real_bits}, dense isometry tests {bits}"},
                    "sig": f"canon-rect-iso:{ts[j].shape}:{real_bits}", "nontrivial": True})
        out.append({"kind": "canon-rect-gramL", "req": "gram L " + req_tensor(ts[j]), "impl": impl_mat(left[0]), "oracle": None,
                    "id": f"{tag}.gl", "sig": f"crgl:{ts[j].shape}", "nontrivial": ts[j].shape[2] > 1})
        out.append({"kind": "canon-rect-gramR", "req": "gram R " + req_tensor(ts[j]), "impl": impl_mat(right[0]), "oracle": None,
                    "id": f"{tag}.gr", "sig": f"crgr:{ts[j].shape}", "nontrivial": ts[j].shape[1] > 1})
    return out


def run(inp):
    """an exception that comes out of the real package while the harness exercises it (e.g. `to_vec()` on a network a move
    left inconsistent) is a failure of the property on this input, not a harness crash"""
    import traceback

    try:
        return run_inner(inp)
    except Exception as e:  # noqa: BLE001
        frames = traceback.extract_tb(e.__traceback__)
        inside = [f for f in frames if "/mqt/yaqs/" in f.filename.replace("\\", "/")]
        if not inside:
            raise
        where = f"{inside[-1].filename.split('/mqt/yaqs/')[-1]}:{inside[-1].lineno} in {inside[-1].name}"
        return {"kind": "real-code-exception", "req": None, "impl": None, "sig": f"exc:{type(e).__name__}:{where}",
                "oracle": {"ok": False, "detail": f"{type(e).__name__}: {e} raised at {where} while running input {inp}"}}


def run_inner(inp):
    k = inp["kind"]
    if k == "sequence":
        return run_sequence(inp)
    if k == "svd-smallscale":
        return run_smallscale(inp)
    if k == "pad-error":
        return run_pad_error(inp)
    if k == "canon-tables":
        return run_canon_tables(inp)
    if k == "bridge":
        return run_bridge(inp)
    if k == "svdx":
        return run_svdx(inp)
    if k == "canon-rect":
        return run_canon_rect(inp)
    raise ValueError(k)


def spec():
    return [
        {"name": "numpy QR spec on every matrix seen by right_qr (Q R = M, Q^H Q = 1)", "ok": SPEC["qr_bad"] == 0, "n": SPEC["qr_n"],
         "worst_residual": SPEC["qr_worst"], "detail": SPEC["detail"]},
        {"name": "LAPACK SVD spec on every matrix seen by two_site_svd (U diag(s) Vh = theta, U^H U = 1, Vh Vh^H = 1, s sorted, s >= 0)",
         "ok": SPEC["svd_bad"] == 0, "n": SPEC["svd_n"], "worst_residual": SPEC["svd_worst"], "detail": SPEC["detail"]},
        {"name": "observations (not verdicts): sign/phase of the scalar dropped by normalize, state of the MPS after a refused pad",
         "ok": True, "counts": dict(COUNTS), "largest_deviation_accepted_by_the_oracles": dict(WORST),
         "oracle_tolerances": {"vec_rel": VEC_TOL, "isometry": ISO_TOL, "scalar_multiple": 1e-9}},
        {"name": "shape hypotheses of Lemmas/MpsBridgeSvd.lean on every real call: svdShaped (U (phys_i*left) x k, s of length k, Vh k x (phys_j*right), "
                 "1 <= keep <= k, inner bonds equal) for two_site_svd; R is 1 x 1 and Q is (phys*left) x 1 for right_qr at the last site",
         "ok": SHAPE["svd_bad"] == 0 and SHAPE["qrlast_bad"] == 0, "n": SHAPE["svd_n"] + SHAPE["qrlast_n"],
         "n_svd": SHAPE["svd_n"], "n_last_site_qr": SHAPE["qrlast_n"], "detail": SHAPE["detail"]},
        {"name": "C10.24d on the real two_site_svd calls of the svdx kinds: |theta(a,b) - theta(a',b')|_F = sqrt(discarded weight)",
         "ok": BLOCK["bad"] == 0, "n": BLOCK["n"], "worst_residual": BLOCK["worst"], "detail": BLOCK["detail"]},
        {"name": "bridge (Lemmas/MpsBridge.lean) on the real tensors: to_vec = (0,0) entry of the zero-padded matrix chain; QR shift = "
                 "A,B -> Q,R*B; flip = transpose+reverse; pad invisible; hypotheses wellShapedChain / qrShaped / A = QR",
         "ok": BRIDGE["bad"] == 0, "n": BRIDGE["n"], "worst_residual": BRIDGE["worst"], "detail": BRIDGE["detail"]},
    ]


if __name__ == "__main__":
    ib.main("C10", gen, run, driver="Mps",
            rule="random MPS (L<=7, physical dims 2/3 mixed, bonds 1..4 incl. bonds above the Schmidt bound, duplicated/zero columns, "
                 "random gauges X,X^-1) x random sequences of 3..7 operations (shift right/left QR/SVD, set_canonical_form, normalize A/B, "
                 "flip, pad, truncate with tiny threshold); one tied case per primitive call (QR / SVD factors taken from the real run), "
                 "one trace case per operation, Gram matrices and truth tables of check_canonical_form after every operation, all 4^L "
                 "truth tables for L<=4; distinct = distinct (kind, shapes, arguments, event string) signatures",
            trusted_base=["QR / SVD spec (checked on every matrix seen this run)", "numpy dense linear algebra in the oracles"],
            assumptions=["factor matrices handed to the model are the binary64 values the implementation obtained from LAPACK, as exact rationals",
                         "SVD centre shift: gauge move only under the untruncated-SVD spec; the code truncates at absolute discarded weight 1e-12 "
                         "(known finding C10:svd-shift-absolute-threshold)"],
            spec=spec)
