"""C14 extension (`localop` kind): applying a local operator to an MPS IS applying the dense operator.

Runs the real contractions of mqt.yaqs on random *entangled* chains whose tensor entries are small dyadic rationals (so the
model computes on exactly the numbers the implementation saw, and stays cheap), with asymmetric non-Hermitian operators (so
that every index convention matters):

  sj1   apply_scheduled_jumps, one-site user matrix                       L = 2..5, d = 2, 3
  sj2   apply_scheduled_jumps, adjacent two-site user matrix (d*d x d*d)   merge / contract / split observed through the
        names of the scheduled_jumps module, the SVD input through `tdvp.robust_svd`
  lot1 / lot2 / lotf   the jump branch of stochastic_process with the uniform draw and the process choice forced
        (one-site matrix, adjacent two-site matrix, long-range pair with explicit asymmetric `factors`)
  gate  digital_tjm.apply_single_qubit_gate on a qiskit U gate

oracle (model-independent): dense vector after = (1 x ... x X x ... x 1) . dense vector before, renormalised where the code
        renormalises (compared up to the global phase the discarded QR factor may carry), and unit norm afterwards.
value ties through Driver/Pipeline.lean: `lo1` (every one-site contraction seen), `lomerge`, `lo2`, `lotheta` (merge, merged
        contraction, SVD input of split_mps_tensor), `lovec1` / `lovecf` (to_vec() of the whole chain right after the
        contraction, before the normalisation).
"""
from __future__ import annotations

import copy
import random
import warnings

import numpy as np

import implbase as ib

warnings.simplefilter("ignore")

from mqt.yaqs.core.data_structures.networks import MPS  # noqa: E402
from mqt.yaqs.core.data_structures.noise_model import NoiseModel  # noqa: E402
from mqt.yaqs.core.data_structures.simulation_parameters import AnalogSimParams, Observable  # noqa: E402
from mqt.yaqs.core.libraries.gate_library import Z  # noqa: E402
from mqt.yaqs.core.methods import scheduled_jumps as sj_mod  # noqa: E402
from mqt.yaqs.core.methods import stochastic_process as sp_mod  # noqa: E402
from mqt.yaqs.core.methods import tdvp as tdvp_mod  # noqa: E402
from mqt.yaqs.digital import digital_tjm as dt_mod  # noqa: E402

TOL = 1e-10          # largest clean-tree deviation observed over 20 seeds x 60 inputs (2800 oracle evaluations): 3.4e-15
DEN = 8              # tensor and operator entries are multiples of 1/8


# ----------------------------------------------------------------------------------------------------------- inputs
def dyadic(rng, lo=-8, hi=8):
    return complex(rng.randint(lo, hi), rng.randint(lo, hi)) / DEN


def rand_tensor(rng, d, l, r):
    t = np.array([[[dyadic(rng) for _ in range(r)] for _ in range(l)] for _ in range(d)], dtype=complex)
    if not np.any(t):
        t[0, 0, 0] = 1.0
    return t


def rand_chain(rng, L, d, cap):
    """random tensors of an entangled chain (bonds min(d^i, d^(L-i), cap)); not normalised, no canonical form"""
    bonds = [1] + [min(d ** i, d ** (L - i), cap) for i in range(1, L)] + [1]
    return [rand_tensor(rng, d, bonds[i], bonds[i + 1]) for i in range(L)]


def rand_op(rng, dim):
    """asymmetric, non-Hermitian, well away from annihilating anything"""
    m = np.array([[dyadic(rng, -6, 6) for _ in range(dim)] for _ in range(dim)], dtype=complex)
    m = m + 2.0 * np.eye(dim)
    if np.allclose(m, m.T) or np.allclose(m, m.conj().T):
        m[0, dim - 1] += 1.0
    return m


def make_mps(tensors, d):
    return MPS(len(tensors), tensors=[np.array(t, dtype=complex) for t in tensors], physical_dimensions=[d] * len(tensors))


def dense_big_endian(state_or_tensors, d):
    """dense vector with site 0 as the MOST significant index (the convention of `np.kron(op_0, op_1, ...)`), computed from the
    tensors directly (independent of MPS.to_vec)"""
    ts = state_or_tensors.tensors if hasattr(state_or_tensors, "tensors") else state_or_tensors
    v = np.ones((1, 1), dtype=complex)          # (configs, right bond)
    for t in ts:
        t = np.asarray(t)
        v = np.einsum("cl,dlr->cdr", v, t).reshape(-1, t.shape[2])
    return v.reshape(-1)


def embed_dense(op, sites, L, d):
    """1 x ... x op x ... x 1 with site 0 leftmost; `op` acts on one site or on two adjacent sites (left site major)"""
    k = len(sites)
    s0 = min(sites)
    mats = [np.eye(d, dtype=complex)] * s0 + [np.asarray(op, dtype=complex)] + [np.eye(d, dtype=complex)] * (L - s0 - k)
    out = np.array([[1.0 + 0j]])
    for m in mats:
        out = np.kron(out, m)
    return out


def embed_factors(f0, f1, i, j, L, d):
    mats = [np.eye(d, dtype=complex)] * L
    mats[i], mats[j] = np.asarray(f0, dtype=complex), np.asarray(f1, dtype=complex)
    out = np.array([[1.0 + 0j]])
    for m in mats:
        out = np.kron(out, m)
    return out


def sim_params(dt=0.1):
    # threshold 0: nothing but exact zeros is ever discarded by split_mps_tensor -> the split is exact up to rounding
    return AnalogSimParams(observables=[Observable(Z(), 0)], elapsed_time=1.0, dt=dt, show_progress=False,
                           threshold=0.0, max_bond_dim=4096, min_bond_dim=1)


# ----------------------------------------------------------------------------------------------------------- text
def ctoks(arr):
    return " ".join(ib.cfrac(z) for z in np.asarray(arr, dtype=complex).reshape(-1))


def tensor_req(t):
    t = np.asarray(t)
    return f"{t.shape[0]} {t.shape[1]} {t.shape[2]} " + ctoks(t)


def mat_req(m):
    m = np.asarray(m)
    return f"{m.shape[0]} {m.shape[1]} " + ctoks(m)


def cfmt(arr):
    out = []
    for z in np.asarray(arr, dtype=complex).reshape(-1):
        out.append(ib.fmt(z.real, 15))
        out.append(ib.fmt(z.imag, 15))
    return " ".join(out)


def tensor_impl(t):
    t = np.asarray(t)
    return f"{t.shape[0]} {t.shape[1]} {t.shape[2]} " + cfmt(t)


def mat_impl(m):
    m = np.asarray(m)
    return f"{m.shape[0]} {m.shape[1]} " + cfmt(m)


# ----------------------------------------------------------------------------------------------------------- spies
class OeSpy:
    """stands in for the `oe` name of a module: records (expr, operands, result) of every contract call"""

    def __init__(self, real, log):
        self._real, self._log = real, log

    def contract(self, expr, *ops, **kw):
        res = self._real.contract(expr, *ops, **kw)
        self._log.append(("contract", expr, [np.array(o, dtype=complex) for o in ops], np.array(res, dtype=complex)))
        return res

    def __getattr__(self, name):
        return getattr(self._real, name)


class Patch:
    """setattr(module, name, value) with restore"""

    def __init__(self):
        self._undo = []

    def set(self, obj, name, value):
        self._undo.append((obj, name, getattr(obj, name)))
        setattr(obj, name, value)

    def __enter__(self):
        return self

    def __exit__(self, *a):
        for obj, name, old in reversed(self._undo):
            setattr(obj, name, old)
        return False


def observe(mod, state_holder, log):
    """patch `mod.oe`, `mod.merge_mps_tensors`, `mod.split_mps_tensor`, `tdvp.robust_svd` and `MPS.normalize` so that every
    collaborator call is recorded; returns the Patch (a context manager)"""
    p = Patch()
    p.set(mod, "oe", OeSpy(mod.oe, log))
    real_merge, real_split, real_svd, real_norm = mod.merge_mps_tensors, mod.split_mps_tensor, tdvp_mod.robust_svd, MPS.normalize

    def merge(a, b):
        res = real_merge(a, b)
        log.append(("merge", np.array(a, dtype=complex), np.array(b, dtype=complex), np.array(res, dtype=complex)))
        return res

    def split(tensor, dist, sp, dims, *, dynamic):
        log.append(("split-in", np.array(tensor, dtype=complex), dist, list(dims)))
        res = real_split(tensor, dist, sp, dims, dynamic=dynamic)
        log.append(("split-out", np.array(res[0], dtype=complex), np.array(res[1], dtype=complex)))
        return res

    def svd(m, *a, **k):
        log.append(("svd-in", np.array(m, dtype=complex)))
        return real_svd(m, *a, **k)

    def normalize(self, form="B", decomposition="QR"):
        if self is state_holder.get("state"):
            log.append(("normalize", form, decomposition, np.array(self.to_vec(), dtype=complex),
                        [np.array(t, dtype=complex) for t in self.tensors]))
        return real_norm(self, form, decomposition)

    p.set(mod, "merge_mps_tensors", merge)
    p.set(mod, "split_mps_tensor", split)
    p.set(tdvp_mod, "robust_svd", svd)
    p.set(MPS, "normalize", normalize)
    return p


class ForcedRng:
    """uniform draw 0.0 (a jump happens whenever its probability is positive) and a forced process index"""

    def __init__(self, k):
        self.k, self.probs = k, None

    def random(self, *a, **kw):
        return 0.0

    def choice(self, n, p=None, **kw):
        self.probs = None if p is None else [float(x) for x in p]
        return self.k


# ----------------------------------------------------------------------------------------------------------- checks
def compare_dense(after, ref_unnormalised, normalised, label):
    """after == ref (not normalised) or after == ref/|ref| up to a global phase; returns (problems, deviation)"""
    probs = []
    nref = float(np.linalg.norm(ref_unnormalised))
    if not normalised:
        dev = float(np.linalg.norm(after - ref_unnormalised)) / max(nref, 1e-300)
        if dev > TOL:
            probs.append(f"{label}: dense vector after the contraction differs from (embedded operator).(vector before) by {dev:.3e} (relative)")
        return probs, dev
    nrm = float(np.linalg.norm(after))
    if abs(nrm - 1.0) > TOL:
        probs.append(f"{label}: norm after the call is {nrm!r}, expected 1 (state.normalize)")
    ref = ref_unnormalised / nref
    ov = np.vdot(ref, after)
    dev = float(np.linalg.norm(after - ov * ref)) / max(nrm, 1e-300)
    if dev > TOL:
        probs.append(f"{label}: state after the call is not (embedded operator).(state before) renormalised: component "
                     f"orthogonal to it {dev:.3e}")
    return probs, max(dev, abs(nrm - 1.0))


def one_site_cases(log, tag):
    """value ties `lo1` for every one-site-shaped contraction "ab, bcd->acd" recorded"""
    out = []
    for e in log:
        if e[0] == "contract" and e[1].replace(" ", "") == "ab,bcd->acd":
            op, t = e[2]
            out.append({"req": f"lo1 {mat_req(op)} {tensor_req(t)}", "impl": tensor_impl(e[3]), "oracle": None,
                        "kind": "localop-lo1", "sig": f"lo1:{tag}:{op.shape[0]}:{t.shape}", "nontrivial": True})
    return out


def two_site_cases(log, tag, d):
    out = []
    merges = [e for e in log if e[0] == "merge"]
    splits = [e for e in log if e[0] == "split-in"]
    svds = [e for e in log if e[0] == "svd-in"]
    contr = [e for e in log if e[0] == "contract" and e[1].replace(" ", "") == "ab,bcd->acd" and e[2][0].shape[0] == d * d]
    for m in merges:
        out.append({"req": f"lomerge {tensor_req(m[1])} {tensor_req(m[2])}", "impl": tensor_impl(m[3]), "oracle": None,
                    "kind": "localop-merge", "sig": f"merge:{tag}:{m[1].shape}:{m[2].shape}", "nontrivial": True})
    for m, c, s in zip(merges, contr, splits):
        handed = s[1]
        if tag == "sj":
            # since fix 5dee091 apply_scheduled_jumps divides the block by its Frobenius norm before the split (the state is
            # renormalised afterwards anyway); the model's block is the unscaled one, so the captured tensor is scaled back by the
            # norm of (operator . merged) computed from the captured arguments
            handed = handed * float(np.linalg.norm(np.einsum("ab,bcd->acd", c[2][0], m[3])))
        out.append({"req": f"lo2 {mat_req(c[2][0])} {tensor_req(m[1])} {tensor_req(m[2])}", "impl": tensor_impl(handed),
                    "oracle": None, "kind": "localop-lo2", "sig": f"lo2:{tag}:{m[1].shape}:{m[2].shape}", "nontrivial": True})
    for s, v in zip(splits, svds):
        out.append({"req": f"lotheta {s[3][0]} {s[3][1]} {tensor_req(s[1])}", "impl": mat_impl(v[1]), "oracle": None,
                    "kind": "localop-theta", "sig": f"theta:{tag}:{s[1].shape}", "nontrivial": True})
    return out


def chain_req(tensors):
    return f"{len(tensors)} " + " ".join(tensor_req(t) for t in tensors)


# ----------------------------------------------------------------------------------------------------------- runs
def run_localop(inp):
    rng = random.Random(inp["sub"])
    sub = inp.get("what") or rng.choice(["sj1", "sj1", "sj2", "sj2", "lot1", "lot2", "lotf", "lotf", "gate"])
    d = inp.get("d", rng.choice([2, 2, 2, 3]))
    if sub == "gate":
        d = 2
    L = inp.get("L", rng.choice([2, 3, 3, 4, 5] if d == 2 else [2, 3, 3, 4]))
    if sub == "lotf":
        L = max(L, 3)
    cap = inp.get("cap", rng.choice([1, 2, 3, 4, 9]))
    tensors = rand_chain(rng, L, d, cap)
    before = dense_big_endian(tensors, d)
    label = f"{sub} L={L} d={d} cap={cap} sub={inp['sub']}"
    if float(np.linalg.norm(before)) < 1e-6:
        return {"req": None, "impl": None, "oracle": None, "kind": "localop-skip", "sig": "skip", "nontrivial": False}
    if sub == "sj1":
        return _run_sj(rng, tensors, before, L, d, label, two=False)
    if sub == "sj2":
        return _run_sj(rng, tensors, before, L, d, label, two=True)
    if sub in ("lot1", "lot2", "lotf"):
        return _run_lottery(rng, tensors, before, L, d, label, sub)
    return _run_gate(rng, tensors, before, L, label)


def _small(L, d):
    return d ** L <= 81


def _run_sj(rng, tensors, before, L, d, label, two):
    sp = sim_params()
    site = rng.randrange(L - 1) if two else rng.randrange(L)
    sites = [site, site + 1] if two else [site]
    if two and rng.random() < 0.3:
        sites = [site + 1, site]        # the code sorts the pair
    op = rand_op(rng, d * d if two else d)
    t_jump = 0.3
    jumps = [{"time": t_jump, "sites": sites, "name": "user", "matrix": op}]
    extra = rng.random() < 0.3          # a second jump at another time must not be applied
    if extra:
        jumps.insert(rng.randrange(2), {"time": 0.5, "sites": [rng.randrange(L)], "name": "user", "matrix": rand_op(rng, d)})
    nm = NoiseModel(scheduled_jumps=jumps)
    state = make_mps(tensors, d)
    log: list = []
    holder = {"state": state}
    with observe(sj_mod, holder, log):
        out_state = sj_mod.apply_scheduled_jumps(state, nm, t_jump, sp)
    after = dense_big_endian(out_state, d)
    ref = embed_dense(op, sites, L, d) @ before
    probs, dev = compare_dense(after, ref, True, label)
    n_contr = len([e for e in log if e[0] == "contract"])
    if n_contr != 1:
        probs.append(f"{label}: {n_contr} operator contractions for one jump scheduled at this time")
    cases = [{"req": None, "impl": None, "kind": "localop-sj2" if two else "localop-sj1",
              "sig": f"sj:{int(two)}:{L}:{d}:{site}:{int(extra)}", "nontrivial": True, "meta": {"dev": dev},
              "oracle": {"ok": not probs, "detail": "; ".join(probs) or f"dense after = embed(X).before renormalised, dev {dev:.1e} [{label}]"}}]
    cases += one_site_cases(log, "sj") if not two else two_site_cases(log, "sj", d)
    # the whole chain right after the contraction (before normalize), little-endian as to_vec() gives it
    norm_ev = [e for e in log if e[0] == "normalize"]
    if norm_ev and _small(L, d):
        vec_before_norm = norm_ev[0][3]
        if not two:
            cases.append({"req": f"lovec1 {site} {mat_req(op)} {chain_req(tensors)}", "impl": cfmt(vec_before_norm), "oracle": None,
                          "kind": "localop-vec1", "sig": f"vec1:{L}:{d}:{site}", "nontrivial": True})
        # model-independent: before the normalisation the vector is exactly embed(X).before (no phase, no scale)
        pre_norm = dense_big_endian(norm_ev[0][4], d)
        if two:
            # a two-site jump rescales its block by a positive number before the split (fix 5dee091): same direction, no phase
            nr, npn = float(np.linalg.norm(ref)), float(np.linalg.norm(pre_norm))
            dev2 = float(np.linalg.norm(pre_norm / max(npn, 1e-300) - ref / max(nr, 1e-300)))
            p2 = [] if dev2 <= TOL else [f"{label} (before normalize): direction of the vector differs from (embedded operator).(vector before) by {dev2:.3e}"]
        else:
            p2, dev2 = compare_dense(pre_norm, ref, False, label + " (before normalize)")
        cases.append({"req": None, "impl": None, "kind": "localop-prenorm", "sig": f"prenorm:{int(two)}:{L}:{d}:{site}",
                      "nontrivial": True, "meta": {"dev": dev2},
                      "oracle": {"ok": not p2, "detail": "; ".join(p2) or f"before normalize: dev {dev2:.1e} [{label}]"}})
    return cases


def _run_lottery(rng, tensors, before, L, d, label, sub):
    sp = sim_params()
    procs = []
    # a few decoy processes around the forced one, so that the index matters
    n_decoy = rng.choice([0, 1, 2])
    for _ in range(n_decoy):
        procs.append({"name": "user", "sites": [rng.randrange(L)], "strength": 0.1, "matrix": rand_op(rng, d)})
    if sub == "lot1":
        site = rng.randrange(L)
        op = rand_op(rng, d)
        target = {"name": "user", "sites": [site], "strength": 0.2, "matrix": op}
        E = embed_dense(op, [site], L, d)
    elif sub == "lot2":
        site = rng.randrange(L - 1)
        op = rand_op(rng, d * d)
        target = {"name": "user", "sites": [site, site + 1], "strength": 0.2, "matrix": op}
        E = embed_dense(op, [site, site + 1], L, d)
    else:
        i = rng.randrange(L - 2)
        j = rng.randrange(i + 2, L)
        f0, f1 = rand_op(rng, d), rand_op(rng, d)
        target = {"name": "crosstalk_xz", "sites": [i, j], "strength": 0.2, "factors": (f0, f1)}
        E = embed_factors(f0, f1, i, j, L, d)
    k = rng.randrange(len(procs) + 1)
    procs.insert(k, target)
    nm = NoiseModel(processes=procs)
    state = make_mps(tensors, d)
    # the lottery needs a jump probability > 0: scale the state below unit norm (form "B": norm(0) is the norm)
    state.normalize("B")
    state.tensors[0] = state.tensors[0] * 0.75
    start_tensors = [np.array(t, dtype=complex) for t in state.tensors]
    start = dense_big_endian(start_tensors, d)
    frng = ForcedRng(k)
    log: list = []
    holder = {"state": state}
    with observe(sp_mod, holder, log):
        out_state = sp_mod.stochastic_process(state, nm, 0.1, sp, rng=frng)
    after = dense_big_endian(out_state, d)
    ref = E @ start
    probs, dev = compare_dense(after, ref, True, label)
    cases = [{"req": None, "impl": None, "kind": "localop-" + sub, "sig": f"{sub}:{L}:{d}:{k}:{n_decoy}", "nontrivial": True,
              "meta": {"dev": dev},
              "oracle": {"ok": not probs, "detail": "; ".join(probs) or f"jump branch = embed(L_k).state renormalised, dev {dev:.1e} [{label}]"}}]
    # the contractions that wrote into the state itself: those after the probability sweep (the sweep works on deep copies)
    norm_idx = [n for n, e in enumerate(log) if e[0] == "normalize"]
    if norm_idx:
        # events of the application proper: walk back from the normalize event
        last = norm_idx[-1]
        if sub == "lot2":
            tail = []
            for e in reversed(log[:last]):
                tail.append(e)
                if e[0] == "merge":
                    break
            cases += two_site_cases(list(reversed(tail)), "lot", d)
        else:
            want = 2 if sub == "lotf" else 1
            tail = [e for e in log[:last] if e[0] == "contract"][-want:]
            cases += one_site_cases(tail, "lot")
            if sub == "lotf" and _small(L, d) and len(tail) == 2:
                # chain right before the two contractions = tensors of the state at that moment: reconstruct from the operands
                pre_t = [np.array(t, dtype=complex) for t in log[last][4]]
                i, j = target["sites"]
                pre_t[i], pre_t[j] = tail[0][2][1], tail[1][2][1]
                cases.append({"req": f"lovecf {i} {j} {mat_req(tail[0][2][0])} {mat_req(tail[1][2][0])} {chain_req(pre_t)}",
                              "impl": cfmt(log[last][3]), "oracle": None, "kind": "localop-vecf", "sig": f"vecf:{L}:{d}:{i}:{j}",
                              "nontrivial": True})
        pre_norm = dense_big_endian(log[last][4], d)
        p2, dev2 = compare_dense(pre_norm, ref, False, label + " (before normalize)")
        # the probability sweep only moves the gauge; the two-site split is exact up to rounding
        cases.append({"req": None, "impl": None, "kind": "localop-prenorm", "sig": f"prenorm-{sub}:{L}:{d}", "nontrivial": True,
                      "meta": {"dev": dev2},
                      "oracle": {"ok": not p2, "detail": "; ".join(p2) or f"before normalize: dev {dev2:.1e} [{label}]"}})
    return cases


def _run_gate(rng, tensors, before, L, label):
    from qiskit import QuantumCircuit
    from qiskit.converters import circuit_to_dag
    from qiskit.quantum_info import Operator

    site = rng.randrange(L)
    qc = QuantumCircuit(L)
    th, ph, lam = rng.uniform(0.3, 2.8), rng.uniform(0.2, 3.0), rng.uniform(-3.0, -0.2)
    kind = rng.choice(["u", "u", "rx", "ry", "h", "sx", "p", "rz"])
    if kind == "u":
        qc.u(th, ph, lam, site)
    elif kind == "rx":
        qc.rx(th, site)
    elif kind == "ry":
        qc.ry(th, site)
    elif kind == "h":
        qc.h(site)
    elif kind == "sx":
        qc.sx(site)
    elif kind == "p":
        qc.p(th, site)
    else:
        qc.rz(lam, site)
    node = circuit_to_dag(qc).op_nodes()[0]
    gate_mat = np.array(Operator(node.op).data, dtype=complex)      # reference matrix from qiskit, not from yaqs
    state = make_mps(tensors, 2)
    log: list = []
    with Patch() as p:
        p.set(dt_mod, "oe", OeSpy(dt_mod.oe, log))
        dt_mod.apply_single_qubit_gate(state, node)
    after = dense_big_endian(state, 2)
    ref = embed_dense(gate_mat, [site], L, 2) @ before
    probs, dev = compare_dense(after, ref, False, label + f" gate={kind}")
    cases = [{"req": None, "impl": None, "kind": "localop-gate", "sig": f"gate:{kind}:{L}:{site}", "nontrivial": True,
              "meta": {"dev": dev},
              "oracle": {"ok": not probs, "detail": "; ".join(probs) or f"apply_single_qubit_gate = embed(U).before, dev {dev:.1e} [{label}]"}}]
    cases += one_site_cases(log, "gate")
    return cases


def spec():
    """the dense reference helpers agree with MPS.to_vec() up to the documented index reversal"""
    rng = random.Random(7)
    out = []
    for d, L in ((2, 3), (3, 2), (2, 4)):
        ts = rand_chain(rng, L, d, 3)
        v_le = np.asarray(make_mps(ts, d).to_vec()).reshape([d] * L).transpose(list(range(L - 1, -1, -1))).reshape(-1)
        dev = float(np.abs(v_le - dense_big_endian(ts, d)).max())
        out.append({"name": f"dense reference (site 0 most significant) = to_vec() with the site order reversed (d={d}, L={L})",
                    "ok": dev < 1e-12, "worst": dev})
    return out


if __name__ == "__main__":      # measurement of clean-tree deviations (development aid)
    import sys

    worst = {}
    nreq = 0
    for seed in range(int(sys.argv[1]) if len(sys.argv) > 1 else 3):
        rng = random.Random(f"dev:{seed}")
        for _ in range(60):
            res = run_localop({"kind": "localop", "sub": rng.randrange(1 << 30)})
            for c in res if isinstance(res, list) else [res]:
                if c.get("oracle"):
                    worst[c["kind"]] = max(worst.get(c["kind"], 0.0), (c.get("meta") or {}).get("dev", 0.0))
                    if not c["oracle"]["ok"]:
                        print("FAIL", c["oracle"]["detail"])
                if c.get("req"):
                    nreq += 1
    print(worst, nreq)
