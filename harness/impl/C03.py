"""C03 — implementation side: local-noise placement and per-gate jump lottery of `digital_tjm` vs Model.Lottery.

trace tie  : real `digital_tjm` on random noisy nearest-neighbour circuits (both gate orientations, barriers, measures), with
             `apply_single_qubit_gate`, `apply_two_qubit_gate`, `apply_dissipation`, `stochastic_process` (module attributes of
             digital_tjm) and `MPS.normalize` wrapped: which gate, then which processes, which dt — vs `digitalOps` of the model.
value tie  : real `create_local_noise_model` vs `localNoise`; then the C01 value/whole-step tie at dt = 1 on the local model
             (real `apply_dissipation(dt=1)`, `create_probability_distribution`, `stochastic_process` with a forced Generator).
oracle     : local model = exactly the processes on [a], [b], [a,b]; exhaustive jump-lottery tree of the real `digital_tjm`
             (<= 3 two-qubit gates, probabilities = the ones the code used) vs a density-matrix reference (exact gate, then
             `expm` of the local Lindbladian for unit time), error bounded by C*(sum gamma)^2 and shrinking by >= 3 when all
             strengths are halved.
"""
from __future__ import annotations

import copy
import random

import numpy as np
from qiskit import QuantumCircuit
from qiskit.quantum_info import Operator

import dissipation_common as dc
import implbase as ib
import layers_common as lyc
import lottery_common as lc
from lottery_common import MPS, NoiseModel, diss_mod, sp_mod

from mqt.yaqs.digital import digital_tjm as dj

ONEQ = ["h", "x", "y", "z", "sx", "rx", "ry", "rz", "p"]
TWOQ = ["cx", "cz", "cp", "rxx", "ryy", "rzz"]


def gen(rng, tier):
    n = {"quick": 220, "thorough": 2200, "search": 440}.get(tier, 220)
    for i in range(n):
        sub = rng.randrange(1 << 30)
        r = i % 11
        # extension (Model.Dissipation): the dissipation sweep itself and the whole noisy pipeline
        # (sub-seeds derived from `sub`, so that the inputs of the older kinds are the same as before the extension)
        sub2 = (sub * 2654435761 + 40503) % (1 << 30)
        yield {"kind": "dissip", "sub": sub2, "flavour": i % 12}
        if i % 2 == 0:
            yield {"kind": "dpipe", "sub": (sub2 * 40503 + 17) % (1 << 30), "flavour": (i // 2) % 12}
        if r < 4:
            yield {"kind": "dtrace", "sub": sub}
        elif r < 8:
            yield {"kind": "dvalue", "sub": sub}
        else:
            yield {"kind": "dtree", "sub": sub}


# ----------------------------------------------------------------------------------------------- circuits
def add_gate(qc, name, qs, theta):
    if name in ("rx", "ry", "rz", "p"):
        getattr(qc, name)(theta, qs[0])
    elif name in ("cp", "rxx", "ryy", "rzz"):
        getattr(qc, name)(theta, qs[0], qs[1])
    else:
        getattr(qc, name)(*qs)


def random_circuit(rng, nq, n2q_max, depth, *, extras=True):
    """returns (QuantumCircuit, list of instruction specs) — nearest-neighbour two-qubit gates in both orientations"""
    qc = QuantumCircuit(nq, nq)
    spec = []
    n2 = 0
    for _ in range(depth):
        r = rng.random()
        if r < 0.45 and n2 < n2q_max and nq >= 2:
            a = rng.randrange(nq - 1)
            qs = [a, a + 1] if rng.random() < 0.5 else [a + 1, a]
            name = rng.choice(TWOQ)
            th = rng.uniform(-2.5, 2.5)
            add_gate(qc, name, qs, th)
            spec.append((name, qs, th))
            n2 += 1
        elif r < 0.9 or not extras:
            name = rng.choice(ONEQ)
            q = rng.randrange(nq)
            th = rng.uniform(-2.5, 2.5)
            add_gate(qc, name, [q], th)
            spec.append((name, [q], th))
        elif r < 0.95:
            qc.barrier()
        else:
            q = rng.randrange(nq)
            qc.measure(q, q)
    return qc, spec


# ----------------------------------------------------------------------------------------------- trace tie
def run_dtrace(inp):
    rng = random.Random(inp["sub"])
    nq = rng.choice([2, 3, 3, 4, 5])
    mode = rng.choice(["noisy", "noisy", "noisy", "noisy", "zero", "none"])
    qc, _ = random_circuit(rng, nq, n2q_max=6, depth=rng.choice([4, 8, 12]))
    dicts = lc.random_process_dicts(rng, nq, m=rng.choice([1, 2, 3, 4, 6]), zero_p=0.15, gmin=0.01, gmax=0.3, dup_p=0.0)
    if mode == "zero":
        for d in dicts:
            d["strength"] = 0.0
    nm = None if mode == "none" else NoiseModel(dicts)
    state = MPS(nq, state=rng.choice(["zeros", "x+", "Neel"]))
    spar = lc.strong_params(nq, get_state=False)
    events, gates = [], []
    o1, o2, od, os_, on = dj.apply_single_qubit_gate, dj.apply_two_qubit_gate, dj.apply_dissipation, dj.stochastic_process, MPS.normalize

    def s1(st, node):
        events.append(f"g1:{node.qargs[0]._index}")
        gates.append(f"1 {node.qargs[0]._index}")
        return o1(st, node)

    def s2(st, node, sp):
        events.append(f"g2:{node.qargs[0]._index},{node.qargs[1]._index}")
        gates.append(f"2 {node.qargs[0]._index} {node.qargs[1]._index}")
        return o2(st, node, sp)

    def sd(st, noise, dt, sim_params):
        events.append(f"D:{ib.frac(dt)}:{lc.sigs(noise.processes)}")
        return od(st, noise, dt, sim_params)

    def ss(st, noise, dt, sim_params, rng=None):
        events.append(f"S:{ib.frac(dt)}:{lc.sigs(noise.processes)}")
        return os_(st, noise, dt, sim_params, rng)

    def sn(self, form="B", decomposition="QR"):
        if decomposition == "QR":
            events.append("N")
        return on(self, form, decomposition)

    seed = rng.randrange(1 << 30)
    real_rng = np.random.default_rng(seed)
    dj.apply_single_qubit_gate, dj.apply_two_qubit_gate, dj.apply_dissipation, dj.stochastic_process = s1, s2, sd, ss
    MPS.normalize = sn
    try:
        with lc.patched_default_rng(lambda: real_rng):
            dj.digital_tjm((0, state, nm, spar, qc))
    finally:
        dj.apply_single_qubit_gate, dj.apply_two_qubit_gate, dj.apply_dissipation, dj.stochastic_process = o1, o2, od, os_
        MPS.normalize = on
    # the normalisation after the layer loop (`canonical_form_lost`) is not part of the per-gate operations
    if events and events[-1] == "N" and (len(events) < 2 or events[-2].startswith("g1")):
        events.pop()
    impl = " ".join(events)
    gl = " ; ".join(gates)
    if nm is None:
        req = f"tracenone | {gl}"
    else:
        req = f"trace | {lc.procs_req(nm.processes)} | {gl}"
    # direct oracle: noise calls only directly after two-qubit gates, with dt = 1 and processes sited on the gate's qubits
    probs = []
    for i, e in enumerate(events):
        if e.startswith(("D:", "S:")):
            j = i - 1 if e.startswith("D:") else i - 2
            if j < 0 or not events[j].startswith("g2:"):
                probs.append(f"{e.split(':')[0]} call at position {i} is not directly after a two-qubit gate")
                continue
            a, b = sorted(int(x) for x in events[j][3:].split(","))
            want = [p for p in nm.processes if list(p["sites"]) in ([a, b], [a], [b])]
            if e.split(":", 2)[2] != lc.sigs(want):
                probs.append(f"after gate on ({a},{b}) the noise call got {e.split(':', 2)[2]}, processes on those qubits are {lc.sigs(want)}")
            if e.split(":")[1] != "1":
                probs.append(f"noise call with dt={e.split(':')[1]}")
    n2 = sum(1 for e in events if e.startswith("g2:"))
    ns = sum(1 for e in events if e.startswith("S:"))
    if mode == "noisy" and any(p["strength"] != 0 for p in nm.processes) and ns != n2:
        probs.append(f"{n2} two-qubit gates but {ns} jump lotteries")
    return {"req": req, "impl": impl, "edge": False, "kind": "dtrace", "nontrivial": n2 >= 1,
            "sig": f"dtrace:{mode}:{nq}:{n2}:{len(events)}",
            "oracle": {"ok": not probs, "detail": "; ".join(probs[:3]) or f"{len(events)} events, {n2} two-qubit gates"}}


# ----------------------------------------------------------------------------------------------- value tie at dt = 1
def run_dvalue(inp):
    rng = random.Random(inp.get("sub", 0))
    L = int(inp.get("L", rng.choice([2, 3, 3, 4])))
    if "procs" in inp:
        dicts = [dict(p) for p in inp["procs"]]
    else:
        dicts = lc.random_process_dicts(rng, L, m=rng.choice([2, 3, 4, 5, 6, 7]), zero_p=0.1, gmin=0.01, gmax=0.4)
    nm = NoiseModel(dicts)
    a = int(inp.get("a", rng.randrange(L - 1)))
    b = a + 1
    local = dj.create_local_noise_model(nm, a, b)
    want = [p for p in nm.processes if list(p["sites"]) in ([a, b], [a], [b])]
    probs = []
    if lc.sigs(local.processes) != lc.sigs(want):
        probs.append(f"local model of gate ({a},{b}) is {lc.sigs(local.processes)}, processes on those qubits are {lc.sigs(want)}")
    for p, q in zip(local.processes, want):
        if p["name"] != q["name"] or any(k in q and not np.array_equal(np.asarray(p.get(k)), np.asarray(q[k])) for k in ("matrix",)):
            probs.append(f"local process {p['name']} differs from the global one")
    cases = [{"req": f"local {a} {b} | {lc.procs_req(nm.processes)}", "impl": lc.sigs(local.processes), "edge": False,
              "kind": "dvalue:local", "sig": f"local:{L}:{len(nm.processes)}:{len(local.processes)}",
              "nontrivial": 0 < len(local.processes) < len(nm.processes),
              "oracle": {"ok": not probs, "detail": "; ".join(probs[:3]) or f"{len(local.processes)} of {len(nm.processes)} local"}}]
    if not local.processes or all(p["strength"] == 0 for p in local.processes):
        return cases
    if "basis" in inp:
        state, skind = MPS(L, state="basis", basis_string=inp["basis"]), "basis"
    else:
        state, skind = lc.random_mps(rng, L)
    spar = lc.strong_params(L, get_state=False)
    diss_mod.apply_dissipation(state, local, 1, spar)
    cases += lc.lottery_case(state, local, 1, spar, L, kind="dvalue", tag=f"{skind.split(':')[0]}:loc")
    want_pv = inp.get("expect_pv")
    if want_pv is not None:
        pv = [float(x) for x in sp_mod.create_probability_distribution(copy.deepcopy(state), local, 1, spar)]
        ok = len(pv) == len(want_pv) and all(abs(x - y) < 1e-9 for x, y in zip(pv, want_pv))
        cases.append({"req": None, "impl": None, "kind": "dvalue:expect", "sig": f"expect:{inp.get('name')}", "edge": False,
                      "nontrivial": True, "key": inp.get("name"),
                      "oracle": {"ok": bool(ok), "detail": f"per-gate probability vector {pv}, the local processes' own weights give {want_pv}"}})
    return cases


# ----------------------------------------------------------------------------------------------- exhaustive tree vs density matrix
def bitrev_perm(L):
    return [int(format(i, f"0{L}b")[::-1], 2) for i in range(2 ** L)]


def tree_mean(qc, nq, state0, dicts, scale):
    nm = NoiseModel([dict(d, strength=d["strength"] * scale) for d in dicts])
    spar = lc.strong_params(nq, get_state=False)

    def run(rng):
        with lc.patched_default_rng(lambda: rng):
            return np.array(dj.digital_tjm((0, state0, nm, spar, qc)), dtype=float)

    leaves, runs, _ = lc.enumerate_tree(run, max_leaves=6000)
    mean = sum(pr * res for pr, res, _ in leaves)
    return mean[:, -1], sum(pr for pr, _, _ in leaves), len(leaves), runs, nm, spar


def reference(spec, nq, psi0_le, nm):
    """exact gate, then exp(local Lindbladian * 1) after every two-qubit gate; little-endian (qubit 0 least significant)"""
    perm = bitrev_perm(nq)
    rho = np.outer(psi0_le, psi0_le.conj())
    zero_h = np.zeros((2 ** nq, 2 ** nq), dtype=complex)
    for name, qs, th in spec:
        one = QuantumCircuit(nq)
        add_gate(one, name, qs, th)
        u = Operator(one).data
        rho = u @ rho @ u.conj().T
        if len(qs) == 2:
            a, b = sorted(qs)
            ops = []
            for p in nm.processes:
                if list(p["sites"]) in ([a, b], [a], [b]):
                    ops.append((lc.embed_be(p, nq)[np.ix_(perm, perm)], float(p["strength"])))
            if ops:
                rho = lc.lindblad_evolve(rho, zero_h, ops, 1.0)
    return rho


def run_dtree(inp):
    rng = random.Random(inp["sub"])
    nq = rng.choice([2, 2, 3])
    qc, spec = random_circuit(rng, nq, n2q_max=rng.choice([1, 2, 2, 3]), depth=rng.choice([3, 5, 7]), extras=False)
    if not any(len(qs) == 2 for _, qs, _ in spec):
        qs = [0, 1] if rng.random() < 0.5 else [1, 0]
        add_gate(qc, "cx", qs, 0.0)
        spec.append(("cx", qs, 0.0))
    dicts = lc.random_process_dicts(rng, nq, m=rng.choice([1, 2, 2, 3]), zero_p=0.0, gmin=0.01, gmax=0.05, dup_p=0.0)
    sname = rng.choice(["zeros", "x+", "Neel"])
    state0 = MPS(nq, state=sname)
    psi0_le = np.asarray(state0.to_vec())
    perm = bitrev_perm(nq)
    zmat, xmat = np.array([[1, 0], [0, -1]]), np.array([[0, 1], [1, 0]])
    obs_le = [lc.embed_site_op(zmat, i, nq)[np.ix_(perm, perm)] for i in range(nq)] + \
             [lc.embed_site_op(xmat, i, nq)[np.ix_(perm, perm)] for i in range(nq)]
    info = []
    n2 = sum(1 for _, qs, _ in spec if len(qs) == 2)

    def err_fn(scale):
        mean, mass, nleaf, runs, nm, spar = tree_mean(qc, nq, state0, dicts, scale)
        order_idx = [spar.observables.index(o) for o in spar.sorted_observables]
        rho = reference(spec, nq, psi0_le, nm)
        want = np.array([float(np.trace(obs_le[i] @ rho).real) for i in order_idx])
        info.append((mass, nleaf, runs))
        return float(np.max(np.abs(mean - want)))

    probs, errs, ratios = lc.order_check(err_fn, 1.0, 2e-6, "all strengths scaled by 1, 1/2, …")
    gsum = sum(d["strength"] for d in dicts)
    if any(abs(m - 1) > 1e-9 for m, _, _ in info):
        probs.append(f"path probabilities sum to {[m for m, _, _ in info]}")
    bound = 6.0 * n2 * gsum * gsum + 1e-7
    lc.dev("abs-bound-fraction(tol 1)", errs[0] / bound)
    lc.dev("mass(tol 1e-9)", max(abs(m - 1) for m, _, _ in info))
    if errs[0] > bound:
        probs.append(f"tree average differs from (exact gate; exp(local Lindbladian)) by {errs[0]:.3e}, allowed {bound:.3e} "
                     f"(sum gamma={gsum:.3g}, {n2} two-qubit gates)")
    ratio = ratios[-1] if ratios else float("nan")
    return {"req": None, "impl": None, "edge": False, "kind": "dtree", "nontrivial": errs[0] > 2e-6,
            "sig": f"dtree:{nq}:{n2}:{len(dicts)}:{sname}:{info[0][1]}",
            "oracle": {"ok": not probs, "detail": "; ".join(probs) or
                       f"err(g)={errs[0]:.3e} err(g/2)={errs[1]:.3e} ratio={ratio:.2f} leaves={info[0][1]} runs={info[0][2]} n2={n2}"},
            "meta": {"spec": [(n, q, round(t, 4)) for n, q, t in spec], "procs": [(d["name"], d["sites"], d["strength"]) for d in dicts]}}


# =============================================================================================== extension: Model.Dissipation
# ----------------------------------------------------------------------------------------------- dissipation sweep (trace + oracle)
def _custom_matrix(nprng):
    return nprng.normal(size=(2, 2)) + 1j * nprng.normal(size=(2, 2))


def diss_process_dicts(rng, L, flavour):
    """process lists for the sweep: the whole library in random order with zero / non-zero strengths mixed, plus custom one-site
    matrices; flavours force the corners (last site, long-range Pauli pairs, all zero, non-Pauli long-range, duplicates)"""
    nprng = np.random.default_rng(rng.randrange(1 << 30))
    m = rng.choice([1, 2, 3, 4, 5, 6, 8])
    dicts = lc.random_process_dicts(rng, L, m=m, zero_p=0.25, dup_p=0.1, gmin=0.01, gmax=0.9)
    if flavour in (1, 7):     # processes on the last site: one-site Pauli and non-Pauli, and pairs ending there
        dicts.append({"name": rng.choice(["pauli_x", "pauli_z"]), "sites": [L - 1], "strength": rng.uniform(0.05, 0.9)})
        dicts.append({"name": rng.choice(["lowering", "raising"]), "sites": [L - 1], "strength": rng.uniform(0.05, 0.9)})
        if L >= 2:
            dicts.append({"name": rng.choice(lc.LIB2 + lc.PAULI2), "sites": [L - 2, L - 1], "strength": rng.uniform(0.05, 0.9)})
    if flavour in (2, 8) and L >= 3:     # long-range Pauli pairs, both orientations
        for _ in range(2):
            a = rng.randrange(L - 2)
            b = rng.randrange(a + 2, L)
            dicts.append({"name": rng.choice(lc.PAULI2), "sites": rng.choice([[a, b], [b, a]]), "strength": rng.choice([0.0, rng.uniform(0.05, 0.9)])})
    if flavour in (3, 9):     # custom one-site matrices (non-Pauli, non-diagonal L†L)
        g_shared = rng.uniform(0.05, 0.5)
        same = rng.random() < 0.6   # same label AND same strength, different matrices
        for _ in range(2):
            dicts.append({"name": "custom", "sites": [rng.randrange(L)], "strength": g_shared if same else rng.uniform(0.05, 0.5),
                          "matrix": _custom_matrix(nprng)})
    if flavour == 4:          # zero strengths mixed in front of and behind non-zero ones
        dicts = [dict(d, strength=0.0) if k % 2 == 0 else d for k, d in enumerate(dicts)]
        dicts.append({"name": "lowering", "sites": [rng.randrange(L)], "strength": rng.uniform(0.05, 0.5)})
        dicts.insert(0, {"name": "pauli_y", "sites": [rng.randrange(L)], "strength": 0.0})
    if flavour == 5:          # all zero: early return
        dicts = [dict(d, strength=0.0) for d in dicts]
    if flavour == 6 and L >= 3:   # non-Pauli long-range pair: NotImplementedError, possibly after other operations
        a = rng.randrange(L - 2)
        b = rng.randrange(a + 2, L)
        low = np.array([[0, 1], [0, 0]], dtype=complex)
        dicts.insert(rng.randrange(len(dicts) + 1), {"name": "custom_lr", "sites": [a, b], "strength": rng.uniform(0.05, 0.5), "factors": (low, low)})
    if flavour in (0, 10):
        rng.shuffle(dicts)
    return dicts


def run_dissip(inp):
    rng = random.Random(inp["sub"])
    flavour = int(inp.get("flavour", 0))
    L = int(inp.get("L", rng.choice([1, 2, 3, 3, 4, 4, 5])))
    dt = float(inp.get("dt", rng.choice([1.0, 0.5, 0.1, rng.uniform(0.01, 1.0), rng.uniform(0.01, 1.0)])))
    if "procs" in inp:
        dicts = [dict(p) for p in inp["procs"]]
    else:
        dicts = diss_process_dicts(rng, L, flavour)
    none_model = bool(inp.get("none", flavour == 11 and "procs" not in inp))
    nm = None if none_model else NoiseModel(dicts)
    procs = [] if nm is None else nm.processes
    if "basis" in inp:
        state, skind = MPS(L, state="basis", basis_string=inp["basis"]), "basis"
    else:
        state, skind = lc.random_mps(rng, L)
    spar = lc.strong_params(L, get_state=False)
    psi = lc.to_be(state.to_vec(), L)
    events, ops, tproblems, raised = dc.trace_apply_dissipation(state, nm, dt, spar)
    impl = " ".join(events) if events else "-"
    req = f"dissnone {L} {ib.frac(dt)}" if nm is None else f"diss {L} {ib.frac(dt)} | {lc.procs_req(procs)}"
    early = nm is None or all(p["strength"] == 0 for p in procs)
    napp = sum(1 for o in ops if o[0] in ("s", "e1", "e2"))
    nzero = sum(1 for p in procs if p["strength"] == 0)
    has = lambda f: int(any(f(p) for p in procs))  # noqa: E731
    sig = (f"dissip:{L}:{len(procs)}:{napp}:{int(early)}:{int(raised)}:z{min(nzero, 3)}:"
           f"lr{has(lambda p: len(p['sites']) == 2 and abs(p['sites'][1] - p['sites'][0]) > 1)}"
           f"np{has(lambda p: not diss_mod.is_pauli(p))}last{has(lambda p: max(p['sites']) == L - 1)}")
    # ---- direct oracle on the dense vector (model-independent)
    oracle = None
    edge = False
    after = lc.to_be(state.to_vec(), L)
    dom = all(lc.in_domain(p, L) for p in procs)
    problems = list(tproblems)
    if raised:
        if dom:
            problems.append("apply_dissipation raised NotImplementedError on a list of one-site / adjacent / Pauli-pair processes")
        oracle = {"ok": not problems, "detail": "; ".join(problems[:3]) or "raises on a non-Pauli long-range pair (outside the property's process kinds)"}
    elif not np.all(np.isfinite(after)):
        oracle = {"ok": False, "detail": "non-finite state after apply_dissipation"}
    elif dom:
        if early:
            n0 = float(np.linalg.norm(psi))
            dev = abs(abs(np.vdot(psi / n0, after)) - 1) + abs(np.linalg.norm(after) - 1)
            how = "early-return"
            want_desc = "the normalised input state (QR centre shifts only)"
        else:
            ref, how = dc.reference_after(psi, procs, L, dt)
            dev = float(np.max(np.abs(after - ref)))
            want_desc = ("exp(-dt/2 * sum_k gamma_k L_k^dag L_k) psi" if how == "commuting"
                         else "the product of exp(-dt/2 gamma_k L_k^dag L_k) in sweep order applied to psi")
            edge = lc.schmidt_edge(ref, L, lo=1e-13) or lc.schmidt_edge(psi, L, lo=1e-13)
        lc.DEV["dissip-dense(tol 1e-9)"] = max(lc.DEV.get("dissip-dense(tol 1e-9)", 0.0), 0.0 if edge else dev)
        if not edge:
            if dev > 1e-9:
                problems.append(f"dense state after apply_dissipation(dt={dt!r}) differs from {want_desc} by {dev:.3e} "
                                f"(processes {[(p['name'], list(p['sites']), float(p['strength'])) for p in procs]})")
            oracle = {"ok": not problems, "detail": "; ".join(problems[:3]) or f"{how}: max deviation {dev:.2e}, {napp} process operations"}
        elif problems:
            oracle = {"ok": False, "detail": "; ".join(problems[:3])}
    return {"req": req, "impl": impl, "edge": False, "kind": "dissip", "nontrivial": napp >= 2 or raised, "sig": sig, "oracle": oracle,
            "meta": {"procs": [(p["name"], list(p["sites"]), float(p["strength"])) for p in procs], "dt": dt, "state": skind}}


# ----------------------------------------------------------------------------------------------- whole noisy pipeline (trace)
def run_dpipe(inp):
    rng = random.Random(inp["sub"])
    flavour = int(inp.get("flavour", 0))
    spec = lyc.random_circuit(rng, nmin=2, nmax=5, max_ops=rng.choice([4, 8, 12]), p_marker=0.25, p_label=0.4,
                              init=rng.choice(["zeros", "x+", "Neel", "wall"]))
    nq = spec["n"]
    ops = [op for op in spec["ops"]]
    while not lyc.ascii_labels(ops):
        ops = [op for op in ops if op["op"] != "b"]
    spec = dict(spec, ops=ops)
    mode = rng.choice(["sp", "sp", "ss"])
    noise = rng.choice(["noisy", "noisy", "noisy", "noisy", "zero", "none"]) if flavour % 4 else "noisy"
    dicts = lc.random_process_dicts(rng, nq, m=rng.choice([1, 2, 3, 4, 6, 8]), zero_p=0.3, gmin=0.01, gmax=0.3, dup_p=0.05)
    if noise == "zero":
        dicts = [dict(d, strength=0.0) for d in dicts]
    nm = None if noise == "none" else NoiseModel(dicts)
    qc = lyc.build_circuit(spec)
    tags = lyc.tag_table(spec["ops"])
    n_sb = sum(1 for op in spec["ops"] if op["op"] == "b" and lyc.label_padded(op.get("label")))
    num_mid = n_sb + (rng.choice([0, 0, 1, 2]) if mode == "ss" else rng.choice([0, 3]))
    obs = [lc.Observable(lc.Z(), i) for i in range(nq)]
    spar = lc.StrongSimParams(obs, num_traj=1, max_bond_dim=4096, threshold=0.0, get_state=False, show_progress=False,
                              sample_layers=(mode == "ss"), num_mid_measurements=num_mid)
    state = MPS(nq, state=spec["init"])
    events = []
    tracer = dc.DissTracer()
    tracer.events = events
    o1, o2, od, os_, on, oe = (dj.apply_single_qubit_gate, dj.apply_two_qubit_gate, dj.apply_dissipation, dj.stochastic_process,
                               MPS.normalize, MPS.evaluate_observables)

    def s1(st, node):
        events.append(f"a1:{tags.get(lyc.gate_key(node.op.name, node.op.params), 999999)}:{node.qargs[0]._index}")
        return o1(st, node)

    def s2(st, node, sp):
        events.append(f"a2:{tags.get(lyc.gate_key(node.op.name, node.op.params), 999999)}:{node.qargs[0]._index}:{node.qargs[1]._index}")
        return o2(st, node, sp)

    def sd(st, noise_model, dt, sim_params):
        if dt != 1:
            events.append(f"dt={ib.frac(dt)}")
        tracer.call(od, st, noise_model, dt, sim_params)

    def ss(st, noise_model, dt, sim_params, rng=None):
        events.append(f"S:{ib.frac(dt)}:{lc.sigs(noise_model.processes)}")
        return os_(st, noise_model, dt, sim_params, rng)

    def sn(self, form="B", decomposition="QR"):
        if decomposition == "QR" and tracer.depth == 0:
            events.append("N")
        return on(self, form, decomposition)

    def se(self, sp, results, column_index=0):
        events.append(f"e{int(column_index)}")
        return oe(self, sp, results, column_index)

    real_rng = np.random.default_rng(rng.randrange(1 << 30))
    exc = None
    tracer.install()
    dj.apply_single_qubit_gate, dj.apply_two_qubit_gate, dj.apply_dissipation, dj.stochastic_process = s1, s2, sd, ss
    MPS.normalize, MPS.evaluate_observables = sn, se
    try:
        with lc.patched_default_rng(lambda: real_rng):
            dj.digital_tjm((0, state, nm, spar, qc))
    except Exception as e:  # noqa: BLE001
        exc = f"{type(e).__name__}: {e}"[:200]
        events.append("exc=" + type(e).__name__)
    finally:
        dj.apply_single_qubit_gate, dj.apply_two_qubit_gate, dj.apply_dissipation, dj.stochastic_process = o1, o2, od, os_
        MPS.normalize, MPS.evaluate_observables = on, oe
        tracer.uninstall()
    impl = " ".join(events) if events else "-"
    instr = " ; ".join(lyc.op_tokens(op, tags) for op in spec["ops"])
    if nm is None:
        req = f"pipenone {nq} {mode} {num_mid} | {instr}"
    else:
        req = f"pipe {nq} {mode} {num_mid} | {lc.procs_req(nm.processes)} | {instr}"
    # direct oracle (model-independent): between two gate applications a noisy run has noise operations only after a two-qubit
    # gate — there exactly one lottery, with dt = 1, on processes sited on the gate's qubits — and none after a one-qubit gate
    probs = list(tracer.problems)
    if exc:
        probs.append(f"digital_tjm raised {exc}")
    noisy = nm is not None and any(p["strength"] != 0 for p in nm.processes)
    blocks, cur = [], None
    for e in events:
        if e.startswith(("a1:", "a2:")):
            cur = [e, []]
            blocks.append(cur)
        elif cur is not None and not e.startswith("e") and e != "N" and not e.startswith("exc="):
            cur[1].append(e)
    n2 = 0
    for g, body in blocks:
        lots = [x for x in body if x.startswith("S:")]
        if g.startswith("a1:"):
            if body:
                probs.append(f"noise operations {body[:2]} after the one-qubit gate {g}")
            continue
        n2 += 1
        if not noisy:
            if body:
                probs.append(f"noise operations {body[:2]} in a noise-free run")
            continue
        a, b = sorted(int(x) for x in g.split(":")[2:4])
        want = [p for p in nm.processes if list(p["sites"]) in ([a, b], [a], [b])]
        if len(lots) != 1 or body[-1] != lots[0]:
            probs.append(f"after {g}: {len(lots)} jump lotteries (expected one, after the dissipation sweep)")
        elif lots[0] != f"S:1:{lc.sigs(want)}":
            probs.append(f"after {g} the lottery got {lots[0]}, processes on those qubits at dt=1 are S:1:{lc.sigs(want)}")
        touched, napps = set(), 0
        for x in body:
            w = x.split()
            if w[0] in ("s", "x1", "x2"):
                napps += 1
                touched |= {int(t) for t in w[1:(3 if w[0] == "x2" else 2)] if t.isdigit()}
        if not touched <= {a, b}:
            probs.append(f"after {g} the dissipation sweep acted on tensors {sorted(touched)}, the gate's qubits are {a},{b}")
        if napps != (len(want) if any(p["strength"] != 0 for p in want) else 0):
            probs.append(f"after {g} the dissipation sweep applied {napps} process operations, {len(want)} processes sit on the gate's qubits")
        if any(x.startswith("dt=") for x in body):
            probs.append(f"after {g}: dissipation with {[x for x in body if x.startswith('dt=')][0]}")
    return {"req": req, "impl": impl, "edge": False, "kind": "dpipe", "nontrivial": n2 >= 1 and noisy,
            "sig": f"dpipe:{noise}:{mode}:{nq}:{n2}:{len(blocks)}:{min(len(events), 60)}",
            "oracle": {"ok": not probs, "detail": "; ".join(probs[:3]) or f"{len(events)} events, {n2} two-qubit gates, {len(blocks)} gates"}}


def run(inp):
    k = str(inp["kind"])
    while k.startswith(("corpus:", "replay:")):  # a replayed corpus case carries both prefixes
        k = k.split(":", 1)[1]
    inp = dict(inp, kind=k)
    if k == "dissip":
        return run_dissip(inp)
    if k == "dpipe":
        return run_dpipe(inp)
    if k == "dtrace":
        try:
            return run_dtrace(inp)
        except Exception as e:  # noqa: BLE001  (added with the extension: an exception of the real digital_tjm on a random noisy
            # nearest-neighbour circuit is an observation about the code, not a harness failure)
            return {"req": None, "impl": None, "edge": False, "kind": "dtrace", "nontrivial": True, "sig": "dtrace:raise",
                    "oracle": {"ok": False, "detail": f"digital_tjm raised {type(e).__name__}: {e}"[:300]}}
    if k in ("dvalue", "explicit"):
        return run_dvalue(inp)
    if k == "dtree":
        try:
            return run_dtree(inp)
        except lc.RealCodeError as e:
            return {"req": None, "impl": None, "edge": False, "kind": "dtree", "nontrivial": True, "sig": "dtree:raise",
                    "oracle": {"ok": False, "detail": str(e)}}
    raise ValueError(k)


if __name__ == "__main__":
    import sys

    _tier = sys.argv[sys.argv.index("--tier") + 1] if "--tier" in sys.argv else "quick"
    ib.main("C03", gen, run, driver="Lottery",
            rule="distinct (kind, mode/state family, #qubits, #two-qubit gates, #processes, #events or #leaves) signatures",
            trusted_base=["qiskit Operator of a one-instruction circuit as the exact gate (little-endian, = MPS.to_vec order)",
                          "dense numpy/scipy reference (kron embedding, Lindbladian expm) used in oracles only",
                          "second-order agreement of the one-gate Kraus identity with exp(local Lindbladian) is cited; measured by halving all strengths",
                          "extension: numeric content of one dissipation operation (scipy expm, SVD split, QR/SVD centre shifts keep the state) — "
                          "not modelled, checked by the dense oracle of kind `dissip` (1e-9) on every run; a scalar factor exp(0)=1 has no observable site"],
            assumptions=["order in which digital_tjm applies the gates of a circuit: Model.Layers (C02/C16), here the recorded order is the input",
                         "two_site_tdvp applies the gate exactly up to Krylov tolerance (C18/C19)",
                         "extension (kind `dpipe`): the gate order is no longer an input — the whole interleaved event list of the real digital_tjm "
                         "(gates, dissipation operations, lotteries, normalisations, evaluations) is compared with Model.Dissipation.noisyDigitalTjm"],
            spec=lambda: [lc.margins()],
            budget_s={"quick": 95, "thorough": 1200, "search": 240}.get(_tier, 95))
