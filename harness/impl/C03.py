"""C03 — implementation side: local-noise placement and per-gate jump lottery of `digital_tjm` vs Model.Lottery.

trace tie  : real `digital_tjm` on random noisy nearest-neighbour circuits (both gate orientations, barriers, measures), with
             `apply_single_qubit_gate`, `apply_two_qubit_gate`, `apply_dissipation`, `stochastic_process` (module attributes of
             digital_tjm) and `MPS.normalize` wrapped: which gate, then which processes, which dt — vs `digitalOps` of the model.
value tie  : real `create_local_noise_model` vs `localNoise`; then the C01 value/whole-step tie at dt = 1 on the local model
             (real `apply_dissipation(dt=1)`, `create_probability_distribution`, `stochastic_process` with a forced Generator).
oracle     : local model = exactly the processes on [a], [b], [a,b]; exhaustive jump-lottery tree of the real `digital_tjm`
             (<= 3 two-qubit gates, probabilities = the ones the code used) vs a density-matrix reference (exact gate, then
             `expm` of the local Lindbladian for unit time), error bounded by C*(sum gamma)^2 and shrinking by >= 3 when all
             strengths are halved.
"""
from __future__ import annotations

import copy
import random

import numpy as np
from qiskit import QuantumCircuit
from qiskit.quantum_info import Operator

import implbase as ib
import lottery_common as lc
from lottery_common import MPS, NoiseModel, diss_mod, sp_mod

from mqt.yaqs.digital import digital_tjm as dj

ONEQ = ["h", "x", "y", "z", "sx", "rx", "ry", "rz", "p"]
TWOQ = ["cx", "cz", "cp", "rxx", "ryy", "rzz"]


def gen(rng, tier):
    n = {"quick": 220, "thorough": 2200, "search": 440}.get(tier, 220)
    for i in range(n):
        sub = rng.randrange(1 << 30)
        r = i % 11
        if r < 4:
            yield {"kind": "dtrace", "sub": sub}
        elif r < 8:
            yield {"kind": "dvalue", "sub": sub}
        else:
            yield {"kind": "dtree", "sub": sub}


# ----------------------------------------------------------------------------------------------- circuits
def add_gate(qc, name, qs, theta):
    if name in ("rx", "ry", "rz", "p"):
        getattr(qc, name)(theta, qs[0])
    elif name in ("cp", "rxx", "ryy", "rzz"):
        getattr(qc, name)(theta, qs[0], qs[1])
    else:
        getattr(qc, name)(*qs)


def random_circuit(rng, nq, n2q_max, depth, *, extras=True):
    """returns (QuantumCircuit, list of instruction specs) — nearest-neighbour two-qubit gates in both orientations"""
    qc = QuantumCircuit(nq, nq)
    spec = []
    n2 = 0
    for _ in range(depth):
        r = rng.random()
        if r < 0.45 and n2 < n2q_max and nq >= 2:
            a = rng.randrange(nq - 1)
            qs = [a, a + 1] if rng.random() < 0.5 else [a + 1, a]
            name = rng.choice(TWOQ)
            th = rng.uniform(-2.5, 2.5)
            add_gate(qc, name, qs, th)
            spec.append((name, qs, th))
            n2 += 1
        elif r < 0.9 or not extras:
            name = rng.choice(ONEQ)
            q = rng.randrange(nq)
            th = rng.uniform(-2.5, 2.5)
            add_gate(qc, name, [q], th)
            spec.append((name, [q], th))
        elif r < 0.95:
            qc.barrier()
        else:
            q = rng.randrange(nq)
            qc.measure(q, q)
    return qc, spec


# ----------------------------------------------------------------------------------------------- trace tie
def run_dtrace(inp):
    rng = random.Random(inp["sub"])
    nq = rng.choice([2, 3, 3, 4, 5])
    mode = rng.choice(["noisy", "noisy", "noisy", "noisy", "zero", "none"])
    qc, _ = random_circuit(rng, nq, n2q_max=6, depth=rng.choice([4, 8, 12]))
    dicts = lc.random_process_dicts(rng, nq, m=rng.choice([1, 2, 3, 4, 6]), zero_p=0.15, gmin=0.01, gmax=0.3, dup_p=0.0)
    if mode == "zero":
        for d in dicts:
            d["strength"] = 0.0
    nm = None if mode == "none" else NoiseModel(dicts)
    state = MPS(nq, state=rng.choice(["zeros", "x+", "Neel"]))
    spar = lc.strong_params(nq, get_state=False)
    events, gates = [], []
    o1, o2, od, os_, on = dj.apply_single_qubit_gate, dj.apply_two_qubit_gate, dj.apply_dissipation, dj.stochastic_process, MPS.normalize

    def s1(st, node):
        events.append(f"g1:{node.qargs[0]._index}")
        gates.append(f"1 {node.qargs[0]._index}")
        return o1(st, node)

    def s2(st, node, sp):
        events.append(f"g2:{node.qargs[0]._index},{node.qargs[1]._index}")
        gates.append(f"2 {node.qargs[0]._index} {node.qargs[1]._index}")
        return o2(st, node, sp)

    def sd(st, noise, dt, sim_params):
        events.append(f"D:{ib.frac(dt)}:{lc.sigs(noise.processes)}")
        return od(st, noise, dt, sim_params)

    def ss(st, noise, dt, sim_params, rng=None):
        events.append(f"S:{ib.frac(dt)}:{lc.sigs(noise.processes)}")
        return os_(st, noise, dt, sim_params, rng)

    def sn(self, form="B", decomposition="QR"):
        if decomposition == "QR":
            events.append("N")
        return on(self, form, decomposition)

    seed = rng.randrange(1 << 30)
    real_rng = np.random.default_rng(seed)
    dj.apply_single_qubit_gate, dj.apply_two_qubit_gate, dj.apply_dissipation, dj.stochastic_process = s1, s2, sd, ss
    MPS.normalize = sn
    try:
        with lc.patched_default_rng(lambda: real_rng):
            dj.digital_tjm((0, state, nm, spar, qc))
    finally:
        dj.apply_single_qubit_gate, dj.apply_two_qubit_gate, dj.apply_dissipation, dj.stochastic_process = o1, o2, od, os_
        MPS.normalize = on
    # the normalisation after the layer loop (`canonical_form_lost`) is not part of the per-gate operations
    if events and events[-1] == "N" and (len(events) < 2 or events[-2].startswith("g1")):
        events.pop()
    impl = " ".join(events)
    gl = " ; ".join(gates)
    if nm is None:
        req = f"tracenone | {gl}"
    else:
        req = f"trace | {lc.procs_req(nm.processes)} | {gl}"
    # direct oracle: noise calls only directly after two-qubit gates, with dt = 1 and processes sited on the gate's qubits
    probs = []
    for i, e in enumerate(events):
        if e.startswith(("D:", "S:")):
            j = i - 1 if e.startswith("D:") else i - 2
            if j < 0 or not events[j].startswith("g2:"):
                probs.append(f"{e.split(':')[0]} call at position {i} is not directly after a two-qubit gate")
                continue
            a, b = sorted(int(x) for x in events[j][3:].split(","))
            want = [p for p in nm.processes if list(p["sites"]) in ([a, b], [a], [b])]
            if e.split(":", 2)[2] != lc.sigs(want):
                probs.append(f"after gate on ({a},{b}) the noise call got {e.split(':', 2)[2]}, processes on those qubits are {lc.sigs(want)}")
            if e.split(":")[1] != "1":
                probs.append(f"noise call with dt={e.split(':')[1]}")
    n2 = sum(1 for e in events if e.startswith("g2:"))
    ns = sum(1 for e in events if e.startswith("S:"))
    if mode == "noisy" and any(p["strength"] != 0 for p in nm.processes) and ns != n2:
        probs.append(f"{n2} two-qubit gates but {ns} jump lotteries")
    return {"req": req, "impl": impl, "edge": False, "kind": "dtrace", "nontrivial": n2 >= 1,
            "sig": f"dtrace:{mode}:{nq}:{n2}:{len(events)}",
            "oracle": {"ok": not probs, "detail": "; ".join(probs[:3]) or f"{len(events)} events, {n2} two-qubit gates"}}


# ----------------------------------------------------------------------------------------------- value tie at dt = 1
def run_dvalue(inp):
    rng = random.Random(inp.get("sub", 0))
    L = int(inp.get("L", rng.choice([2, 3, 3, 4])))
    if "procs" in inp:
        dicts = [dict(p) for p in inp["procs"]]
    else:
        dicts = lc.random_process_dicts(rng, L, m=rng.choice([2, 3, 4, 5, 6, 7]), zero_p=0.1, gmin=0.01, gmax=0.4)
    nm = NoiseModel(dicts)
    a = int(inp.get("a", rng.randrange(L - 1)))
    b = a + 1
    local = dj.create_local_noise_model(nm, a, b)
    want = [p for p in nm.processes if list(p["sites"]) in ([a, b], [a], [b])]
    probs = []
    if lc.sigs(local.processes) != lc.sigs(want):
        probs.append(f"local model of gate ({a},{b}) is {lc.sigs(local.processes)}, processes on those qubits are {lc.sigs(want)}")
    for p, q in zip(local.processes, want):
        if p["name"] != q["name"] or any(k in q and not np.array_equal(np.asarray(p.get(k)), np.asarray(q[k])) for k in ("matrix",)):
            probs.append(f"local process {p['name']} differs from the global one")
    cases = [{"req": f"local {a} {b} | {lc.procs_req(nm.processes)}", "impl": lc.sigs(local.processes), "edge": False,
              "kind": "dvalue:local", "sig": f"local:{L}:{len(nm.processes)}:{len(local.processes)}",
              "nontrivial": 0 < len(local.processes) < len(nm.processes),
              "oracle": {"ok": not probs, "detail": "; ".join(probs[:3]) or f"{len(local.processes)} of {len(nm.processes)} local"}}]
    if not local.processes or all(p["strength"] == 0 for p in local.processes):
        return cases
    if "basis" in inp:
        state, skind = MPS(L, state="basis", basis_string=inp["basis"]), "basis"
    else:
        state, skind = lc.random_mps(rng, L)
    spar = lc.strong_params(L, get_state=False)
    diss_mod.apply_dissipation(state, local, 1, spar)
    cases += lc.lottery_case(state, local, 1, spar, L, kind="dvalue", tag=f"{skind.split(':')[0]}:loc")
    want_pv = inp.get("expect_pv")
    if want_pv is not None:
        pv = [float(x) for x in sp_mod.create_probability_distribution(copy.deepcopy(state), local, 1, spar)]
        ok = len(pv) == len(want_pv) and all(abs(x - y) < 1e-9 for x, y in zip(pv, want_pv))
        cases.append({"req": None, "impl": None, "kind": "dvalue:expect", "sig": f"expect:{inp.get('name')}", "edge": False,
                      "nontrivial": True, "key": inp.get("name"),
                      "oracle": {"ok": bool(ok), "detail": f"per-gate probability vector {pv}, the local processes' own weights give {want_pv}"}})
    return cases


# ----------------------------------------------------------------------------------------------- exhaustive tree vs density matrix
def bitrev_perm(L):
    return [int(format(i, f"0{L}b")[::-1], 2) for i in range(2 ** L)]


def tree_mean(qc, nq, state0, dicts, scale):
    nm = NoiseModel([dict(d, strength=d["strength"] * scale) for d in dicts])
    spar = lc.strong_params(nq, get_state=False)

    def run(rng):
        with lc.patched_default_rng(lambda: rng):
            return np.array(dj.digital_tjm((0, state0, nm, spar, qc)), dtype=float)

    leaves, runs, _ = lc.enumerate_tree(run, max_leaves=6000)
    mean = sum(pr * res for pr, res, _ in leaves)
    return mean[:, -1], sum(pr for pr, _, _ in leaves), len(leaves), runs, nm, spar


def reference(spec, nq, psi0_le, nm):
    """exact gate, then exp(local Lindbladian * 1) after every two-qubit gate; little-endian (qubit 0 least significant)"""
    perm = bitrev_perm(nq)
    rho = np.outer(psi0_le, psi0_le.conj())
    zero_h = np.zeros((2 ** nq, 2 ** nq), dtype=complex)
    for name, qs, th in spec:
        one = QuantumCircuit(nq)
        add_gate(one, name, qs, th)
        u = Operator(one).data
        rho = u @ rho @ u.conj().T
        if len(qs) == 2:
            a, b = sorted(qs)
            ops = []
            for p in nm.processes:
                if list(p["sites"]) in ([a, b], [a], [b]):
                    ops.append((lc.embed_be(p, nq)[np.ix_(perm, perm)], float(p["strength"])))
            if ops:
                rho = lc.lindblad_evolve(rho, zero_h, ops, 1.0)
    return rho


def run_dtree(inp):
    rng = random.Random(inp["sub"])
    nq = rng.choice([2, 2, 3])
    qc, spec = random_circuit(rng, nq, n2q_max=rng.choice([1, 2, 2, 3]), depth=rng.choice([3, 5, 7]), extras=False)
    if not any(len(qs) == 2 for _, qs, _ in spec):
        qs = [0, 1] if rng.random() < 0.5 else [1, 0]
        add_gate(qc, "cx", qs, 0.0)
        spec.append(("cx", qs, 0.0))
    dicts = lc.random_process_dicts(rng, nq, m=rng.choice([1, 2, 2, 3]), zero_p=0.0, gmin=0.01, gmax=0.05, dup_p=0.0)
    sname = rng.choice(["zeros", "x+", "Neel"])
    state0 = MPS(nq, state=sname)
    psi0_le = np.asarray(state0.to_vec())
    perm = bitrev_perm(nq)
    zmat, xmat = np.array([[1, 0], [0, -1]]), np.array([[0, 1], [1, 0]])
    obs_le = [lc.embed_site_op(zmat, i, nq)[np.ix_(perm, perm)] for i in range(nq)] + \
             [lc.embed_site_op(xmat, i, nq)[np.ix_(perm, perm)] for i in range(nq)]
    info = []
    n2 = sum(1 for _, qs, _ in spec if len(qs) == 2)

    def err_fn(scale):
        mean, mass, nleaf, runs, nm, spar = tree_mean(qc, nq, state0, dicts, scale)
        order_idx = [spar.observables.index(o) for o in spar.sorted_observables]
        rho = reference(spec, nq, psi0_le, nm)
        want = np.array([float(np.trace(obs_le[i] @ rho).real) for i in order_idx])
        info.append((mass, nleaf, runs))
        return float(np.max(np.abs(mean - want)))

    probs, errs, ratios = lc.order_check(err_fn, 1.0, 2e-6, "all strengths scaled by 1, 1/2, …")
    gsum = sum(d["strength"] for d in dicts)
    if any(abs(m - 1) > 1e-9 for m, _, _ in info):
        probs.append(f"path probabilities sum to {[m for m, _, _ in info]}")
    bound = 6.0 * n2 * gsum * gsum + 1e-7
    lc.dev("abs-bound-fraction(tol 1)", errs[0] / bound)
    lc.dev("mass(tol 1e-9)", max(abs(m - 1) for m, _, _ in info))
    if errs[0] > bound:
        probs.append(f"tree average differs from (exact gate; exp(local Lindbladian)) by {errs[0]:.3e}, allowed {bound:.3e} "
                     f"(sum gamma={gsum:.3g}, {n2} two-qubit gates)")
    ratio = ratios[-1] if ratios else float("nan")
    return {"req": None, "impl": None, "edge": False, "kind": "dtree", "nontrivial": errs[0] > 2e-6,
            "sig": f"dtree:{nq}:{n2}:{len(dicts)}:{sname}:{info[0][1]}",
            "oracle": {"ok": not probs, "detail": "; ".join(probs) or
                       f"err(g)={errs[0]:.3e} err(g/2)={errs[1]:.3e} ratio={ratio:.2f} leaves={info[0][1]} runs={info[0][2]} n2={n2}"},
            "meta": {"spec": [(n, q, round(t, 4)) for n, q, t in spec], "procs": [(d["name"], d["sites"], d["strength"]) for d in dicts]}}


def run(inp):
    k = str(inp["kind"])
    while k.startswith(("corpus:", "replay:")):  # a replayed corpus case carries both prefixes
        k = k.split(":", 1)[1]
    inp = dict(inp, kind=k)
    if k == "dtrace":
        return run_dtrace(inp)
    if k in ("dvalue", "explicit"):
        return run_dvalue(inp)
    if k == "dtree":
        try:
            return run_dtree(inp)
        except lc.RealCodeError as e:
            return {"req": None, "impl": None, "edge": False, "kind": "dtree", "nontrivial": True, "sig": "dtree:raise",
                    "oracle": {"ok": False, "detail": str(e)}}
    raise ValueError(k)


if __name__ == "__main__":
    import sys

    _tier = sys.argv[sys.argv.index("--tier") + 1] if "--tier" in sys.argv else "quick"
    ib.main("C03", gen, run, driver="Lottery",
            rule="distinct (kind, mode/state family, #qubits, #two-qubit gates, #processes, #events or #leaves) signatures",
            trusted_base=["qiskit Operator of a one-instruction circuit as the exact gate (little-endian, = MPS.to_vec order)",
                          "dense numpy/scipy reference (kron embedding, Lindbladian expm) used in oracles only",
                          "second-order agreement of the one-gate Kraus identity with exp(local Lindbladian) is cited; measured by halving all strengths"],
            assumptions=["order in which digital_tjm applies the gates of a circuit: Model.Layers (C02/C16), here the recorded order is the input",
                         "two_site_tdvp applies the gate exactly up to Krylov tolerance (C18/C19)"],
            spec=lambda: [lc.margins()],
            budget_s={"quick": 95, "thorough": 1200, "search": 240}.get(_tier, 95))
