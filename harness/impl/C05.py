"""C05 — implementation side: sweep schedules of the real integrators vs Model.Sweep, plus dense oracles.

trace tie : `local_dynamic_tdvp`, `single_site_tdvp`, `two_site_tdvp`, `bug` run with `update_site`, `update_bond`,
            `split_mps_tensor`, `merge_*`, `update_*_environment` (module attributes of tdvp.py / bug.py) and
            `MPS.truncate` wrapped.  The site of an update is recovered from the *identity* of the MPO tensor handed
            to it (`hamiltonian.tensors[i]`, or the merged tensor returned by the wrapped `merge_mpo_tensors`), the
            bond of a bond update from the identity of its two environments, the coefficient is `dt_arg / dt`.
            The recorded list must equal the model's list for the bond dimensions the code saw at each visit.
oracle    : `simulator.run` without noise vs dense `expm(-iHt)`: norm and energy after every integrator call,
            orders 1 and 2 agree, Richardson ratio of the final-state error (dt vs dt/2).
"""
from __future__ import annotations

import random
import warnings
from fractions import Fraction

import numpy as np
import scipy.linalg

import implbase as ib
from mqt.yaqs import simulator
from mqt.yaqs.analog import analog_tjm as tjm_mod
from mqt.yaqs.core.data_structures import networks as networks_mod
from mqt.yaqs.core.data_structures.networks import MPO, MPS
from mqt.yaqs.core.data_structures.simulation_parameters import AnalogSimParams, EvolutionMode, Observable, StrongSimParams
from mqt.yaqs.core.libraries.gate_library import X, Z
from mqt.yaqs.core.methods import bug as bug_mod
from mqt.yaqs.core.methods import tdvp as tdvp_mod

warnings.simplefilter("ignore")
EXPM = scipy.linalg.expm


# ----------------------------------------------------------------------------------------------- builders
def random_hamiltonian(rng, L, kind=None):
    kind = kind or rng.choice(["ising", "heis", "pauli"])
    if kind == "ising":
        return kind, MPO.ising(L, rng.uniform(0.5, 1.5), rng.uniform(0.3, 1.2))
    if kind == "heis":
        return kind, MPO.heisenberg(L, rng.uniform(0.4, 1.2), rng.uniform(0.4, 1.2), rng.uniform(0.4, 1.2), rng.uniform(0.1, 0.8))
    terms = []
    for i in range(L):
        for p in "XYZ":
            if rng.random() < 0.6:
                terms.append((rng.uniform(-1, 1), f"{p}{i}"))
    for i in range(L - 1):
        for _ in range(2):
            a, b = rng.choice("XYZ"), rng.choice("XYZ")
            terms.append((rng.uniform(-1, 1), f"{a}{i} {b}{i + 1}"))
    if not terms:
        terms = [(1.0, "Z0")]
    h = MPO()
    h.from_pauli_sum(terms=terms, length=L)
    return kind, h


def random_bonds(rng, L, dmax):
    """valid internal bond dimensions (each at most twice its neighbour, at most the Schmidt bound)"""
    b = [1] * (L + 1)
    for i in range(1, L):
        b[i] = rng.randint(1, min(dmax, 2 * b[i - 1], 2 ** min(i, L - i)))
    for i in range(L - 1, 0, -1):
        b[i] = min(b[i], 2 * b[i + 1])
    return b


def random_mps(rng, nprng, L, dmax):
    b = random_bonds(rng, L, dmax)
    tensors = [nprng.normal(size=(2, b[i], b[i + 1])) + 1j * nprng.normal(size=(2, b[i], b[i + 1])) for i in range(L)]
    mps = MPS(L, tensors=tensors, physical_dimensions=[2] * L)
    mps.normalize("B")
    return mps


def analog_params(dt, cap, thr, mn=2, mode=EvolutionMode.TDVP, order=1, T=None, obs=None, get_state=False):
    return AnalogSimParams(obs or [Observable(Z(), 0)], elapsed_time=T if T is not None else dt, dt=dt, num_traj=1,
                           max_bond_dim=cap, min_bond_dim=mn, threshold=thr, order=order, sample_timesteps=True,
                           evolution_mode=mode, get_state=get_state, show_progress=False)


# ----------------------------------------------------------------------------------------------- tracing
class Tracer:
    """wraps the collaborators of the sweep functions; keeps every array alive so that ids are never reused"""

    def __init__(self, ham, unit):
        self.ham = ham
        self.unit = unit            # callable returning the current unit of time (sim_params.dt or 1)
        self.keep = []
        self.mpo_pair = {}          # id(merged mpo) -> p
        self.env = {}               # id(env) -> ("L"|"R", site)
        self.result_pair = {}       # id(result of a pair update) -> p
        self.events = []            # ("site", i, coef, shape, envok) | ("pair", p, coef) | ("bond", b, coef) | ("split", p, dist) | ("merge", p, dim) | ("trunc",)
        self.orig = {}

    def site_of(self, op):
        for i, t in enumerate(self.ham.tensors):
            if op is t:
                return i
        return None

    def coef(self, dt):
        return Fraction(float(dt)) / Fraction(float(self.unit()))

    def install(self, module, names):
        for n in names:
            self.orig[(module, n)] = getattr(module, n)
        t = self
        o = {n: getattr(module, n) for n in names}

        def update_site(left_env, right_env, op, ket, dt):
            res = o["update_site"](left_env, right_env, op, ket, dt)
            t.keep += [left_env, right_env, op, ket, res]
            i = t.site_of(op)
            le, re = t.env.get(id(left_env)), t.env.get(id(right_env))
            if i is not None:
                ok = (le is None or le == ("L", i - 1)) and (re is None or re == ("R", i + 1))
                t.events.append(("site", i, t.coef(dt), ket.shape, ok))
            elif id(op) in t.mpo_pair:
                p = t.mpo_pair[id(op)]
                ok = (le is None or le == ("L", p - 1)) and (re is None or re == ("R", p + 2))
                t.events.append(("pair", p, t.coef(dt), ket.shape, ok))
                t.result_pair[id(res)] = p
            else:
                t.events.append(("site", "?", t.coef(dt), ket.shape, False))
            return res

        def update_bond(left_env, right_env, bond_tensor, dt):
            res = o["update_bond"](left_env, right_env, bond_tensor, dt)
            t.keep += [left_env, right_env, bond_tensor, res]
            le, re = t.env.get(id(left_env)), t.env.get(id(right_env))
            b = "?"
            if le is not None and re is not None and le[0] == "L" and re[0] == "R" and re[1] == le[1] + 1:
                b = le[1]
            t.events.append(("bond", b, t.coef(dt)))
            return res

        def split_mps_tensor(tensor, svd_distribution, sim_params, physical_dimensions, *, dynamic):
            res = o["split_mps_tensor"](tensor, svd_distribution, sim_params, physical_dimensions, dynamic=dynamic)
            t.keep += [tensor, res[0], res[1]]
            t.events.append(("split", t.result_pair.get(id(tensor), "?"), svd_distribution))
            return res

        def merge_mpo_tensors(a, b):
            res = o["merge_mpo_tensors"](a, b)
            t.keep += [a, b, res]
            i, j = t.site_of(a), t.site_of(b)
            if i is not None and j == i + 1:
                t.mpo_pair[id(res)] = i
            return res

        def merge_mps_tensors(a, b):
            res = o["merge_mps_tensors"](a, b)
            t.events.append(("merge", a.shape[2]))
            return res

        def update_left_environment(ket, bra, op, left_env):
            res = o["update_left_environment"](ket, bra, op, left_env)
            t.keep += [op, res]
            i = t.site_of(op)
            if i is not None:
                t.env[id(res)] = ("L", i)
            return res

        def update_right_environment(ket, bra, op, right_env):
            res = o["update_right_environment"](ket, bra, op, right_env)
            t.keep += [op, res]
            i = t.site_of(op)
            if i is not None:
                t.env[id(res)] = ("R", i)
            return res

        spies = dict(update_site=update_site, update_bond=update_bond, split_mps_tensor=split_mps_tensor,
                     merge_mpo_tensors=merge_mpo_tensors, merge_mps_tensors=merge_mps_tensors,
                     update_left_environment=update_left_environment, update_right_environment=update_right_environment)
        for n in names:
            setattr(module, n, spies[n])

    def install_truncate(self):
        t = self
        orig = networks_mod.MPS.truncate
        self.orig[(networks_mod.MPS, "truncate")] = orig

        def truncate(self_mps, threshold=1e-12, max_bond_dim=None):
            t.events.append(("trunc",))
            return orig(self_mps, threshold, max_bond_dim)

        networks_mod.MPS.truncate = truncate

    def restore(self):
        for (module, n), f in self.orig.items():
            setattr(module, n, f)


TDVP_NAMES = ["update_site", "update_bond", "split_mps_tensor", "merge_mpo_tensors", "merge_mps_tensors",
              "update_left_environment", "update_right_environment"]
BUG_NAMES = ["update_site", "update_left_environment", "update_right_environment"]


def fmt_frac(f):
    return str(f.numerator) if f.denominator == 1 else f"{f.numerator}/{f.denominator}"


def ops_text(events):
    out = []
    for e in events:
        if e[0] == "site":
            out.append(f"s:{e[1]}:{fmt_frac(e[2])}" + ("" if e[4] else "!env"))
        elif e[0] == "pair":
            out.append(f"p:{e[1]}:{fmt_frac(e[2])}" + ("" if e[4] else "!env"))
        elif e[0] == "bond":
            out.append(f"b:{e[1]}:{fmt_frac(e[2])}")
        elif e[0] == "split":
            out.append(f"x:{e[1]}:{'R' if e[2] == 'right' else 'L' if e[2] == 'left' else '?'}")
        elif e[0] == "trunc":
            out.append("t")
    return " ".join(out) if out else "none"


def seen_dims(events, L, dummy_right, dummy_left, digital):
    """bond dimension the code looked at in each visit of the two half sweeps, reconstructed from the recorded calls:
    a visit is a forward single-site update (its ket shows the bond) or a merge (its left tensor shows the bond)."""
    visits = []  # (key, dim, followed_by_bond, is_site)
    n = len(events)
    k = 0
    while k < n:
        e = events[k]
        if e[0] == "site" and e[2] > 0 and isinstance(e[1], int):
            nxt = events[k + 1][0] if k + 1 < n else None
            visits.append(["site", e[1], e[3], nxt == "bond"])
        elif e[0] == "merge":
            # the pair update follows the merge
            p = None
            for e2 in events[k + 1:k + 3]:
                if e2[0] == "pair":
                    p = e2[1]
                    break
            visits.append(["pair", p, e[1], False])
        k += 1
    lr, rl = {}, {}
    phase, prev = "LR", -1
    for kind, key, info, bond_after in visits:
        if key is None:
            return None
        if phase == "LR":
            if key <= prev or (kind == "site" and key == L - 1 and bond_after):
                phase = "RL"
        if phase == "LR":
            prev = key
            lr[key] = info[2] if kind == "site" else info
        else:
            if kind == "site":
                rl[key] = info[1]
            else:
                rl[key + 1] = info
    seen_lr = [lr.get(i, dummy_right if i == L - 1 else None) for i in range(L)]
    seen_rl = [rl.get(i, dummy_left if i == 0 else None) for i in range(L)]
    if any(v is None for v in seen_lr) or (not digital and any(v is None for v in seen_rl)):
        return None
    return seen_lr, seen_rl


def run_trace(inp):
    rng = random.Random(inp["sub"])
    nprng = np.random.default_rng(inp["sub"])
    fn = inp["fn"]
    L = inp.get("L") or rng.choice([2, 2, 3, 3, 4, 5, 6, 7, 8])
    if fn in ("ldtdvp", "single", "bug") and inp.get("L") is None and rng.random() < 0.06:
        L = 1
    digital = bool(inp.get("digital", fn != "bug" and rng.random() < 0.2))
    dmax = rng.choice([1, 2, 3, 4, 4, 6])
    cap = inp.get("cap") or rng.choice([1, 2, 2, 3, 3, 4, 5, 8, 64])
    thr = rng.choice([1e-12, 1e-9, 1e-6])
    dt = rng.choice([0.05, 0.1, 0.13, 0.25])
    mps = random_mps(rng, nprng, L, dmax)
    _, ham = random_hamiltonian(rng, L, "ising" if L == 1 else None)
    if digital:
        sp = StrongSimParams([Observable(Z(), 0)], num_traj=1, max_bond_dim=cap, min_bond_dim=rng.choice([1, 2]), threshold=thr,
                             show_progress=False)
        unit = lambda: 1.0  # noqa: E731
    else:
        sp = analog_params(dt, cap, thr, mn=rng.choice([1, 2]))
        unit = lambda: sp.dt  # noqa: E731
    bonds_before = [t.shape[2] for t in mps.tensors[:-1]]
    dummy_right, dummy_left = mps.tensors[-1].shape[2], mps.tensors[0].shape[1]
    tr = Tracer(ham, unit)
    exc = None
    try:
        tr.install(tdvp_mod, TDVP_NAMES)
        if fn == "bug":
            tr.install(bug_mod, BUG_NAMES)
            tr.install_truncate()
        try:
            if fn == "ldtdvp":
                tdvp_mod.local_dynamic_tdvp(mps, ham, sp)
            elif fn == "single":
                tdvp_mod.single_site_tdvp(mps, ham, sp)
            elif fn == "two":
                tdvp_mod.two_site_tdvp(mps, ham, sp)
            else:
                bug_mod.bug(mps, ham, sp)
        except Exception as e:  # noqa: BLE001
            exc = type(e).__name__
    finally:
        tr.restore()
    impl = "err" if exc else ops_text(tr.events)
    d = 1 if digital else 0
    edge = False
    if fn == "ldtdvp":
        if L == 1:
            req = f"ldtdvp 1 {cap} {d} | 1 | 1"
        else:
            sd = seen_dims(tr.events, L, dummy_right, dummy_left, digital)
            if sd is None:
                req = f"ldtdvp {L} {cap} {d} | {' '.join(['0'] * L)} | {' '.join(['0'] * L)}"
                impl = impl + " unsegmentable"
            else:
                req = f"ldtdvp {L} {cap} {d} | {' '.join(map(str, sd[0]))} | {'' if digital else ' '.join(map(str, sd[1]))}"
    elif fn == "single":
        req = f"single {L} {d}"
    elif fn == "two":
        req = f"two {L} {d}"
    else:
        req = f"bug {L}"
    nsite = sum(1 for e in tr.events if e[0] == "site")
    npair = sum(1 for e in tr.events if e[0] == "pair")
    sig = f"{fn}:{L}:{d}:{nsite}:{npair}:{cap if fn == 'ldtdvp' else ''}:{bonds_before if fn == 'ldtdvp' else ''}"
    return {"req": req, "impl": impl, "oracle": None, "edge": edge, "sig": sig,
            "nontrivial": (npair > 0 and nsite > npair) if fn == "ldtdvp" and L > 2 else True,
            "meta": {"bonds": bonds_before, "cap": cap, "dt": dt, "thr": thr}}


# ----------------------------------------------------------------------------------------------- oracles
STATES = ["zeros", "ones", "x+", "x-", "y+", "y-", "Neel", "wall"]


def dense_state(mps):
    """MPS -> dense vector with site 0 as the most significant index (the convention of MPO.to_matrix)"""
    v = mps.tensors[0][:, 0, :]
    for t in mps.tensors[1:]:
        v = np.tensordot(v, t, axes=(v.ndim - 1, 1))
    return v.reshape(-1)


def run_sim(kind, hparams, L, state, dt, nsteps, mode, order, thr, cap, record, pad=None, mn=2):
    """one noise-free simulator.run; returns final dense state; `record` collects (norm^2, energy) after every
    integrator call inside the run"""
    ham = build_h(kind, hparams, L)
    hmat = ham.to_matrix()
    mps = MPS(L, state=state, pad=pad)
    sp = analog_params(dt, cap, thr, mn=mn, mode=mode, order=order, T=dt * nsteps, obs=[Observable(Z(), i) for i in range(L)] + [Observable(X(), 0)],
                       get_state=True)
    name = "local_dynamic_tdvp" if mode == EvolutionMode.TDVP else "bug"
    orig = getattr(tjm_mod, name)

    def spy(st, h, p):
        orig(st, h, p)
        v = dense_state(st)
        record.append((float(np.vdot(v, v).real), float(np.vdot(v, hmat @ v).real)))

    cpus = simulator.available_cpus
    setattr(tjm_mod, name, spy)
    simulator.available_cpus = lambda: 1  # the serial path asks threadpoolctl for all cores: 50x slower on tiny tensors
    try:
        simulator.run(mps, ham, sp, None, parallel=False)
    finally:
        setattr(tjm_mod, name, orig)
        simulator.available_cpus = cpus
    out = sp.output_state
    zs = np.array([o.results for o in sp.observables[:L]], dtype=float)
    return dense_state(out), hmat, zs, np.asarray(sp.times, dtype=float)


def build_h(kind, hp, L):
    if kind == "ising":
        return MPO.ising(L, hp[0], hp[1])
    if kind == "heis":
        return MPO.heisenberg(L, hp[0], hp[1], hp[2], hp[3])
    h = MPO()
    h.from_pauli_sum(terms=[(c, s) for c, s in hp], length=L)
    return h


def h_params(rng, kind, L):
    if kind == "ising":
        return [rng.uniform(0.5, 1.5), rng.uniform(0.3, 1.2)]
    if kind == "heis":
        return [rng.uniform(0.4, 1.2), rng.uniform(0.4, 1.2), rng.uniform(0.4, 1.2), rng.uniform(0.1, 0.8)]
    terms = []
    for i in range(L):
        for p in "XYZ":
            if rng.random() < 0.6:
                terms.append([rng.uniform(-1, 1), f"{p}{i}"])
    for i in range(L - 1):
        for _ in range(2):
            terms.append([rng.uniform(-1, 1), f"{rng.choice('XYZ')}{i} {rng.choice('XYZ')}{i + 1}"])
    return terms


def align(v, ref):
    """remove the global phase (MPS.normalize and the QR sweeps fix it only up to a sign)"""
    ov = np.vdot(ref, v)
    return v * (np.conj(ov) / abs(ov)) if abs(ov) > 0 else v


def run_dynamics(inp):
    rng = random.Random(inp["sub"])
    bugmode = inp["mode"] == "bug"
    mixed = inp["mode"] == "tdvp-mixed"
    L = inp.get("L") or (rng.choice([6, 7]) if bugmode else rng.choice([4, 5, 5, 6, 6, 7]))
    kind = inp.get("ham") or rng.choice(["ising", "heis", "pauli"])
    hp = inp.get("hp") or h_params(rng, kind, L)
    state = inp.get("state") or rng.choice(STATES)
    mode = EvolutionMode.BUG if bugmode else EvolutionMode.TDVP
    dt = inp.get("dt") or rng.choice([0.1, 0.15, 0.2])
    nsteps = inp.get("nsteps") or (2 if bugmode else rng.choice([2, 3, 4]))
    thr = inp.get("thr") or rng.choice([1e-15, 1e-14, 1e-13])
    cap, pad = inp.get("cap") or 2 ** L, None
    if mixed:
        # every bond already has its full Schmidt dimension (zero padding), the cap sits below it at the inner bonds:
        # one-site and two-site branches are mixed, yet nothing is projected away, so the step-size orders still apply
        pad = 2 ** (L // 2)
        cap = rng.choice([2, 3, 4, 8])
    mn = pad or 2  # min_bond_dim = full dimension: the two-site splits do not strip the padding again
    probs = []
    rec1, rec2, rech = [], [], []
    # analog_tjm_1 always integrates with local_dynamic_tdvp (evolution_mode is only honoured by analog_tjm_2),
    # so the BUG runs use order 2 throughout
    o1 = 2 if bugmode else 1
    v1, hmat, zs, times = run_sim(kind, hp, L, state, dt, nsteps, mode, o1, thr, cap, rec1, pad, mn)
    v2, _, zs2, _ = run_sim(kind, hp, L, state, dt, nsteps, mode, 2, thr, cap, rec2, pad, mn)
    vh, _, _, _ = run_sim(kind, hp, L, state, dt / 2, 2 * nsteps, mode, o1, thr, cap, rech, pad, mn)
    psi0 = dense_state(MPS(L, state=state))
    psi0 = psi0 / np.linalg.norm(psi0)
    e0 = float(np.vdot(psi0, hmat @ psi0).real)
    hn = float(np.linalg.norm(hmat, 2))
    exact = EXPM(-1j * hmat * dt * nsteps) @ psi0
    v1, v2, vh = align(v1, exact), align(v2, exact), align(vh, exact)
    # 1. norm and energy after every integrator call (every reported time, both orders, both step sizes)
    worst_n = max(abs(n - 1) for n, _ in rec1 + rec2 + rech)
    worst_e = max(abs(e - e0) for _, e in rec1 + rec2 + rech)
    ncalls = len(rech)
    tol_n = 50 * thr * 2 * L * max(ncalls, 1) + 1e-9
    tol_e = (50 * thr * 2 * L * max(ncalls, 1) + 1e-8) * (1 + hn)
    if worst_n > tol_n:
        probs.append(f"norm^2 deviates from 1 by {worst_n:.3e} (> {tol_n:.1e}) after an integrator call")
    if worst_e > tol_e:
        probs.append(f"energy drifts by {worst_e:.3e} (> {tol_e:.1e}); E0={e0:.6f}")
    # 2. the two integrator orders give the same result without noise (TDVP mode)
    d12 = float(np.linalg.norm(v1 - v2))
    dz = float(np.max(np.abs(zs - zs2)))
    if not bugmode:
        if d12 > 1e-7:
            probs.append(f"orders 1 and 2 differ by {d12:.3e} in the final state")
        if dz > 1e-7:
            probs.append(f"orders 1 and 2 differ by {dz:.3e} in the reported <Z_i>(t)")
    # 3. convergence: error at dt vs dt/2 (only where the method error is far above the truncation floor)
    err = float(np.linalg.norm(v1 - exact))
    errh = float(np.linalg.norm(vh - exact))
    ratio = err / errh if errh > 0 else float("inf")
    need = 1.6 if bugmode else 3.0
    floor = float(np.sqrt(thr * ncalls * 2 * L))
    meaningful = ncalls > 0 and errh > 10 * floor and err > 10 * floor
    ratio2 = None
    if meaningful and ratio < need:
        # pre-asymptotic step sizes happen (rank still growing during the first steps): judge on the next halving too
        recq = []
        vq, _, _, _ = run_sim(kind, hp, L, state, dt / 4, 4 * nsteps, mode, o1, thr, cap, recq, pad, mn)
        errq = float(np.linalg.norm(align(vq, exact) - exact))
        floorq = float(np.sqrt(thr * len(recq) * 2 * L))
        ratio2 = errh / errq if errq > 0 else float("inf")
        if errq > 10 * floorq and ratio2 < need:
            probs.append(f"error {err:.3e} at dt={dt}, {errh:.3e} at dt/2, {errq:.3e} at dt/4: ratios {ratio:.2f}, {ratio2:.2f} < {need}")
    bound = 0.05 * (hn * dt) * hn * dt * nsteps if not bugmode else 10.0 * hn * dt * hn * dt * nsteps
    if mixed:
        # exactness of the projector splitting: at full bond dimension nothing is projected away and every sub-flow is
        # integrated exactly, so the result equals exp(-iHt) psi0 up to truncation noise for ANY step size
        bound = 1e-10
    if err > (bound if mixed else max(bound, 1e-5)):
        probs.append(f"final state error {err:.3e} exceeds the {'exactness tolerance' if mixed else 'crude bound'} {bound:.3e}")
    zops = []
    for i in range(L):
        op = np.array([[1.0]])
        for j in range(L):
            op = np.kron(op, np.diag([1.0, -1.0]) if j == i else np.eye(2))
        zops.append(np.diag(op))
    worst_z = 0.0
    for k, t in enumerate(times):
        vt = EXPM(-1j * hmat * t) @ psi0
        pr = np.abs(vt) ** 2
        for i in range(L):
            worst_z = max(worst_z, abs(float(np.dot(zops[i], pr)) - zs[i][k]))
    if worst_z > max(2 * bound, 1e-5):
        probs.append(f"reported <Z_i>(t) deviates from the dense evolution by {worst_z:.3e} (> {2 * bound:.3e})")
    detail = "; ".join(probs) or (f"norm dev {worst_n:.1e} energy drift {worst_e:.1e} orders diff {d12:.1e} err {err:.2e}/{errh:.2e} "
                                  f"ratio {ratio:.2f}{'' if meaningful else ' (below floor, not judged)'} obs dev {worst_z:.1e} calls {ncalls}")
    return {"req": None, "impl": None, "oracle": {"ok": not probs, "detail": detail}, "kind": "dynamics-" + inp["mode"],
            "sig": f"dyn:{inp['mode']}:{kind}:{L}:{state}:{dt}:{nsteps}:{cap if mixed else ''}", "nontrivial": bool(meaningful),
            "meta": {"ratio": ratio, "err": err, "errh": errh, "worst_n": worst_n, "worst_e": worst_e, "d12": d12, "dz": dz, "hn": hn,
                     "bound": bound, "worst_z": worst_z, "floor": floor, "meaningful": bool(meaningful), "thr": thr, "ratio2": ratio2}}


def run_budget(inp):
    """norm budget with a threshold that bites: after k calls 1 - k*2L*thr <= |psi|^2 <= 1 (unconstrained bond dimension)"""
    rng = random.Random(inp["sub"])
    L = rng.choice([4, 5, 6, 7])
    kind = rng.choice(["ising", "heis", "pauli"])
    hp = h_params(rng, kind, L)
    state = rng.choice(STATES)
    dt = rng.choice([0.1, 0.2, 0.3])
    nsteps = rng.choice([3, 4, 6])
    thr = rng.choice([1e-4, 1e-5, 1e-6, 1e-7])
    order = rng.choice([1, 2])
    rec = []
    run_sim(kind, hp, L, state, dt, nsteps, EvolutionMode.TDVP, order, thr, 2 ** L, rec)
    probs = []
    worst_low, worst_high = 0.0, 0.0
    for k, (n, _) in enumerate(rec, start=1):
        # order 2 evolves copies: the k-th recorded call has at most k calls behind it
        low = 1 - k * 2 * L * thr
        worst_low = max(worst_low, low - n)
        worst_high = max(worst_high, n - 1)
        if n < low - 1e-9:
            probs.append(f"after {k} calls |psi|^2 = {n:.9f} < 1 - k*2L*thr = {low:.9f}")
            break
        if n > 1 + 1e-9:
            probs.append(f"after {k} calls |psi|^2 = {n:.12f} > 1")
            break
    lost = 1 - min(n for n, _ in rec)
    return {"req": None, "impl": None, "oracle": {"ok": not probs, "detail": "; ".join(probs) or f"lost {lost:.2e} of budget {len(rec) * 2 * L * thr:.2e}"},
            "kind": "budget", "sig": f"budget:{kind}:{L}:{state}:{dt}:{nsteps}:{thr}:{order}", "nontrivial": bool(lost > 1e-12),
            "meta": {"lost": lost, "budget": len(rec) * 2 * L * thr}}


def gen(rng, tier):
    n_trace = {"quick": 300, "thorough": 3000, "search": 60}.get(tier, 300)
    n_dyn = {"quick": 40, "thorough": 400, "search": 60}.get(tier, 40)
    # a few dynamics first (the oracle is what finds failing inputs), then traces, then the remaining dynamics
    dyn = []
    for k in range(n_dyn):
        dyn.append({"kind": "dynamics", "mode": ["tdvp", "tdvp-mixed", "bug"][k % 3], "sub": rng.randrange(1 << 30)})
    head = 4 if tier != "search" else n_dyn
    yield from dyn[:head]
    # shortest chains with the cap exactly at the full bond dimension (no truncation possible, so the result must converge)
    for L, cap in ((2, 2), (2, 64), (3, 4)):
        yield {"kind": "dynamics", "mode": "tdvp", "L": L, "cap": cap, "ham": rng.choice(["ising", "heis"]),
               "state": rng.choice(["x+", "Neel", "wall"]), "sub": rng.randrange(1 << 30)}
    for _ in range({"quick": 6, "thorough": 60, "search": 20}.get(tier, 6)):
        yield {"kind": "budget", "sub": rng.randrange(1 << 30)}
    for L in (2, 3, 4, 5):  # every small length with caps that bite everywhere / nowhere
        for cap in (1, 2, 64):
            yield {"kind": "trace", "fn": "ldtdvp", "L": L, "cap": cap, "digital": False, "sub": rng.randrange(1 << 30)}
    for k in range(n_trace):
        r = rng.random()
        fn = "ldtdvp" if r < 0.7 else "single" if r < 0.8 else "two" if r < 0.9 else "bug"
        yield {"kind": "trace", "fn": fn, "sub": rng.randrange(1 << 30)}
    yield from dyn[head:]


def run(inp):
    if inp["kind"] == "trace":
        return run_trace(inp)
    if inp["kind"] not in ("dynamics", "budget"):
        raise ValueError(inp["kind"])
    try:
        return run_dynamics(inp) if inp["kind"] == "dynamics" else run_budget(inp)
    except Exception as e:  # noqa: BLE001  the real code raised inside a noise-free simulator.run: that is a verdict
        import traceback

        tb = traceback.extract_tb(e.__traceback__)
        where = next((f"{f.filename.split('/')[-1]}:{f.lineno}" for f in reversed(tb) if "/mqt/yaqs/" in f.filename), "?")
        if where == "?":
            raise
        return {"req": None, "impl": None, "kind": inp["kind"] + "-" + str(inp.get("mode", "")),
                "oracle": {"ok": False, "detail": f"noise-free simulator.run raised {type(e).__name__}: {e} (at {where})"},
                "sig": f"raise:{type(e).__name__}:{where}"}


if __name__ == "__main__":
    ib.main("C05", gen, run, driver="Sweep",
            rule="trace: seeded chains L=1..8 x random valid bond dimensions x caps 1..64 x analog/digital x "
                 "{local_dynamic_tdvp, single_site_tdvp, two_site_tdvp, bug}; distinct = distinct (function, L, mode, "
                 "#site updates, #pair updates, cap, bonds) signatures; non-trivial (ldtdvp, L>2) = both branches taken. "
                 "dynamics: simulator.run noise-free on Ising/Heisenberg/random Pauli-sum chains L=4..7, built-in states",
            trusted_base=["numpy/scipy dense linear algebra (scipy.linalg.expm) in the oracles",
                          "cited, not formalised: a consistent palindromic one-step method has even order (Hairer-Lubich-Wanner II.3); "
                          "projector-splitting exactness (Lubich-Oseledets-Vandereycken 2015); BUG first-order bound (Ceruti-Lubich-Walach 2021)"],
            assumptions=["the site of an update is the index of the MPO tensor object handed to it; the bond dimension the "
                         "branch condition looked at is the one visible in the arguments of the first call of the visit"])
