"""C05 — implementation side: sweep schedules of the real integrators vs Model.Sweep, plus dense oracles.

trace tie : `local_dynamic_tdvp`, `single_site_tdvp`, `two_site_tdvp`, `bug` run with `update_site`, `update_bond`,
            `split_mps_tensor`, `merge_*`, `update_*_environment` (module attributes of tdvp.py / bug.py) and
            `MPS.truncate` wrapped.  The site of an update is recovered from the *identity* of the MPO tensor handed
            to it (`hamiltonian.tensors[i]`, or the merged tensor returned by the wrapped `merge_mpo_tensors`), the
            bond of a bond update from the identity of its two environments, the coefficient is `dt_arg / dt`.
            The recorded list must equal the model's list for the bond dimensions the code saw at each visit.
oracle    : `simulator.run` without noise vs dense `expm(-iHt)`: norm and energy after every integrator call,
            orders 1 and 2 agree, Richardson ratio of the final-state error (dt vs dt/2).
"""
from __future__ import annotations

import random
import warnings
from fractions import Fraction

import numpy as np
import scipy.linalg

import implbase as ib
from mqt.yaqs import simulator
from mqt.yaqs.analog import analog_tjm as tjm_mod
from mqt.yaqs.core.data_structures import networks as networks_mod
from mqt.yaqs.core.data_structures.networks import MPO, MPS
from mqt.yaqs.core.data_structures.simulation_parameters import AnalogSimParams, EvolutionMode, Observable, StrongSimParams
from mqt.yaqs.core.libraries.gate_library import X, Z
from mqt.yaqs.core.methods import bug as bug_mod
from mqt.yaqs.core.methods import tdvp as tdvp_mod

warnings.simplefilter("ignore")
EXPM = scipy.linalg.expm


# ----------------------------------------------------------------------------------------------- builders
def random_hamiltonian(rng, L, kind=None):
    kind = kind or rng.choice(["ising", "heis", "pauli"])
    if kind == "ising":
        return kind, MPO.ising(L, rng.uniform(0.5, 1.5), rng.uniform(0.3, 1.2))
    if kind == "heis":
        return kind, MPO.heisenberg(L, rng.uniform(0.4, 1.2), rng.uniform(0.4, 1.2), rng.uniform(0.4, 1.2), rng.uniform(0.1, 0.8))
    terms = []
    for i in range(L):
        for p in "XYZ":
            if rng.random() < 0.6:
                terms.append((rng.uniform(-1, 1), f"{p}{i}"))
    for i in range(L - 1):
        for _ in range(2):
            a, b = rng.choice("XYZ"), rng.choice("XYZ")
            terms.append((rng.uniform(-1, 1), f"{a}{i} {b}{i + 1}"))
    if not terms:
        terms = [(1.0, "Z0")]
    h = MPO()
    h.from_pauli_sum(terms=terms, length=L)
    return kind, h


def random_bonds(rng, L, dmax):
    """valid internal bond dimensions (each at most twice its neighbour, at most the Schmidt bound)"""
    b = [1] * (L + 1)
    for i in range(1, L):
        b[i] = rng.randint(1, min(dmax, 2 * b[i - 1], 2 ** min(i, L - i)))
    for i in range(L - 1, 0, -1):
        b[i] = min(b[i], 2 * b[i + 1])
    return b


def random_mps(rng, nprng, L, dmax):
    b = random_bonds(rng, L, dmax)
    tensors = [nprng.normal(size=(2, b[i], b[i + 1])) + 1j * nprng.normal(size=(2, b[i], b[i + 1])) for i in range(L)]
    mps = MPS(L, tensors=tensors, physical_dimensions=[2] * L)
    mps.normalize("B")
    return mps


def analog_params(dt, cap, thr, mn=2, mode=EvolutionMode.TDVP, order=1, T=None, obs=None, get_state=False):
    return AnalogSimParams(obs or [Observable(Z(), 0)], elapsed_time=T if T is not None else dt, dt=dt, num_traj=1,
                           max_bond_dim=cap, min_bond_dim=mn, threshold=thr, order=order, sample_timesteps=True,
                           evolution_mode=mode, get_state=get_state, show_progress=False)


# ----------------------------------------------------------------------------------------------- tracing
class Tracer:
    """wraps the collaborators of the sweep functions; keeps every array alive so that ids are never reused"""

    def __init__(self, ham, unit):
        self.ham = ham
        self.unit = unit            # callable returning the current unit of time (sim_params.dt or 1)
        self.keep = []
        self.mpo_pair = {}          # id(merged mpo) -> p
        self.env = {}               # id(env) -> ("L"|"R", site)
        self.result_pair = {}       # id(result of a pair update) -> p
        self.events = []            # ("site", i, coef, shape, envok) | ("pair", p, coef) | ("bond", b, coef) | ("split", p, dist) | ("merge", p, dim) | ("trunc",)
        self.orig = {}

    def site_of(self, op):
        for i, t in enumerate(self.ham.tensors):
            if op is t:
                return i
        return None

    def coef(self, dt):
        return Fraction(float(dt)) / Fraction(float(self.unit()))

    def install(self, module, names):
        for n in names:
            self.orig[(module, n)] = getattr(module, n)
        t = self
        o = {n: getattr(module, n) for n in names}

        def update_site(left_env, right_env, op, ket, dt):
            res = o["update_site"](left_env, right_env, op, ket, dt)
            t.keep += [left_env, right_env, op, ket, res]
            i = t.site_of(op)
            le, re = t.env.get(id(left_env)), t.env.get(id(right_env))
            if i is not None:
                ok = (le is None or le == ("L", i - 1)) and (re is None or re == ("R", i + 1))
                t.events.append(("site", i, t.coef(dt), ket.shape, ok))
            elif id(op) in t.mpo_pair:
                p = t.mpo_pair[id(op)]
                ok = (le is None or le == ("L", p - 1)) and (re is None or re == ("R", p + 2))
                t.events.append(("pair", p, t.coef(dt), ket.shape, ok))
                t.result_pair[id(res)] = p
            else:
                t.events.append(("site", "?", t.coef(dt), ket.shape, False))
            return res

        def update_bond(left_env, right_env, bond_tensor, dt):
            res = o["update_bond"](left_env, right_env, bond_tensor, dt)
            t.keep += [left_env, right_env, bond_tensor, res]
            le, re = t.env.get(id(left_env)), t.env.get(id(right_env))
            b = "?"
            if le is not None and re is not None and le[0] == "L" and re[0] == "R" and re[1] == le[1] + 1:
                b = le[1]
            t.events.append(("bond", b, t.coef(dt)))
            return res

        def split_mps_tensor(tensor, svd_distribution, sim_params, physical_dimensions, *, dynamic):
            res = o["split_mps_tensor"](tensor, svd_distribution, sim_params, physical_dimensions, dynamic=dynamic)
            t.keep += [tensor, res[0], res[1]]
            t.events.append(("split", t.result_pair.get(id(tensor), "?"), svd_distribution))
            return res

        def merge_mpo_tensors(a, b):
            res = o["merge_mpo_tensors"](a, b)
            t.keep += [a, b, res]
            i, j = t.site_of(a), t.site_of(b)
            if i is not None and j == i + 1:
                t.mpo_pair[id(res)] = i
            return res

        def merge_mps_tensors(a, b):
            res = o["merge_mps_tensors"](a, b)
            t.events.append(("merge", a.shape[2]))
            return res

        def update_left_environment(ket, bra, op, left_env):
            res = o["update_left_environment"](ket, bra, op, left_env)
            t.keep += [op, res]
            i = t.site_of(op)
            if i is not None:
                t.env[id(res)] = ("L", i)
            return res

        def update_right_environment(ket, bra, op, right_env):
            res = o["update_right_environment"](ket, bra, op, right_env)
            t.keep += [op, res]
            i = t.site_of(op)
            if i is not None:
                t.env[id(res)] = ("R", i)
            return res

        spies = dict(update_site=update_site, update_bond=update_bond, split_mps_tensor=split_mps_tensor,
                     merge_mpo_tensors=merge_mpo_tensors, merge_mps_tensors=merge_mps_tensors,
                     update_left_environment=update_left_environment, update_right_environment=update_right_environment)
        for n in names:
            setattr(module, n, spies[n])

    def install_truncate(self):
        t = self
        orig = networks_mod.MPS.truncate
        self.orig[(networks_mod.MPS, "truncate")] = orig

        def truncate(self_mps, threshold=1e-12, max_bond_dim=None):
            t.events.append(("trunc",))
            return orig(self_mps, threshold, max_bond_dim)

        networks_mod.MPS.truncate = truncate

    def restore(self):
        for (module, n), f in self.orig.items():
            setattr(module, n, f)


TDVP_NAMES = ["update_site", "update_bond", "split_mps_tensor", "merge_mpo_tensors", "merge_mps_tensors",
              "update_left_environment", "update_right_environment"]
BUG_NAMES = ["update_site", "update_left_environment", "update_right_environment"]


def fmt_frac(f):
    return str(f.numerator) if f.denominator == 1 else f"{f.numerator}/{f.denominator}"


def ops_text(events):
    out = []
    for e in events:
        if e[0] == "site":
            out.append(f"s:{e[1]}:{fmt_frac(e[2])}" + ("" if e[4] else "!env"))
        elif e[0] == "pair":
            out.append(f"p:{e[1]}:{fmt_frac(e[2])}" + ("" if e[4] else "!env"))
        elif e[0] == "bond":
            out.append(f"b:{e[1]}:{fmt_frac(e[2])}")
        elif e[0] == "split":
            out.append(f"x:{e[1]}:{'R' if e[2] == 'right' else 'L' if e[2] == 'left' else '?'}")
        elif e[0] == "trunc":
            out.append("t")
    return " ".join(out) if out else "none"


def seen_dims(events, L, dummy_right, dummy_left, digital):
    """bond dimension the code looked at in each visit of the two half sweeps, reconstructed from the recorded calls:
    a visit is a forward single-site update (its ket shows the bond) or a merge (its left tensor shows the bond)."""
    visits = []  # (key, dim, followed_by_bond, is_site)
    n = len(events)
    k = 0
    while k < n:
        e = events[k]
        if e[0] == "site" and e[2] > 0 and isinstance(e[1], int):
            nxt = events[k + 1][0] if k + 1 < n else None
            visits.append(["site", e[1], e[3], nxt == "bond"])
        elif e[0] == "merge":
            # the pair update follows the merge
            p = None
            for e2 in events[k + 1:k + 3]:
                if e2[0] == "pair":
                    p = e2[1]
                    break
            visits.append(["pair", p, e[1], False])
        k += 1
    lr, rl = {}, {}
    phase, prev = "LR", -1
    for kind, key, info, bond_after in visits:
        if key is None:
            return None
        if phase == "LR":
            if key <= prev or (kind == "site" and key == L - 1 and bond_after):
                phase = "RL"
        if phase == "LR":
            prev = key
            lr[key] = info[2] if kind == "site" else info
        else:
            if kind == "site":
                rl[key] = info[1]
            else:
                rl[key + 1] = info
    seen_lr = [lr.get(i, dummy_right if i == L - 1 else None) for i in range(L)]
    seen_rl = [rl.get(i, dummy_left if i == 0 else None) for i in range(L)]
    if any(v is None for v in seen_lr) or (not digital and any(v is None for v in seen_rl)):
        return None
    return seen_lr, seen_rl


def run_trace(inp):
    rng = random.Random(inp["sub"])
    nprng = np.random.default_rng(inp["sub"])
    fn = inp["fn"]
    L = inp.get("L") or rng.choice([2, 2, 3, 3, 4, 5, 6, 7, 8])
    if fn in ("ldtdvp", "single", "bug") and inp.get("L") is None and rng.random() < 0.06:
        L = 1
    digital = bool(inp.get("digital", fn != "bug" and rng.random() < 0.2))
    dmax = rng.choice([1, 2, 3, 4, 4, 6])
    cap = inp.get("cap") or rng.choice([1, 2, 2, 3, 3, 4, 5, 8, 64])
    thr = rng.choice([1e-12, 1e-9, 1e-6])
    dt = rng.choice([0.05, 0.1, 0.13, 0.25])
    mps = random_mps(rng, nprng, L, dmax)
    _, ham = random_hamiltonian(rng, L, "ising" if L == 1 else None)
    if digital:
        sp = StrongSimParams([Observable(Z(), 0)], num_traj=1, max_bond_dim=cap, min_bond_dim=rng.choice([1, 2]), threshold=thr,
                             show_progress=False)
        unit = lambda: 1.0  # noqa: E731
    else:
        sp = analog_params(dt, cap, thr, mn=rng.choice([1, 2]))
        unit = lambda: sp.dt  # noqa: E731
    bonds_before = [t.shape[2] for t in mps.tensors[:-1]]
    dummy_right, dummy_left = mps.tensors[-1].shape[2], mps.tensors[0].shape[1]
    tr = Tracer(ham, unit)
    exc = None
    try:
        tr.install(tdvp_mod, TDVP_NAMES)
        if fn == "bug":
            tr.install(bug_mod, BUG_NAMES)
            tr.install_truncate()
        try:
            if fn == "ldtdvp":
                tdvp_mod.local_dynamic_tdvp(mps, ham, sp)
            elif fn == "single":
                tdvp_mod.single_site_tdvp(mps, ham, sp)
            elif fn == "two":
                tdvp_mod.two_site_tdvp(mps, ham, sp)
            else:
                bug_mod.bug(mps, ham, sp)
        except Exception as e:  # noqa: BLE001
            exc = type(e).__name__
    finally:
        tr.restore()
    impl = "err" if exc else ops_text(tr.events)
    d = 1 if digital else 0
    edge = False
    if fn == "ldtdvp":
        if L == 1:
            req = f"ldtdvp 1 {cap} {d} | 1 | 1"
        else:
            sd = seen_dims(tr.events, L, dummy_right, dummy_left, digital)
            if sd is None:
                req = f"ldtdvp {L} {cap} {d} | {' '.join(['0'] * L)} | {' '.join(['0'] * L)}"
                impl = impl + " unsegmentable"
            else:
                req = f"ldtdvp {L} {cap} {d} | {' '.join(map(str, sd[0]))} | {'' if digital else ' '.join(map(str, sd[1]))}"
    elif fn == "single":
        req = f"single {L} {d}"
    elif fn == "two":
        req = f"two {L} {d}"
    else:
        req = f"bug {L}"
    nsite = sum(1 for e in tr.events if e[0] == "site")
    npair = sum(1 for e in tr.events if e[0] == "pair")
    sig = f"{fn}:{L}:{d}:{nsite}:{npair}:{cap if fn == 'ldtdvp' else ''}:{bonds_before if fn == 'ldtdvp' else ''}"
    return {"req": req, "impl": impl, "oracle": None, "edge": edge, "sig": sig,
            "nontrivial": (npair > 0 and nsite > npair) if fn == "ldtdvp" and L > 2 else True,
            "meta": {"bonds": bonds_before, "cap": cap, "dt": dt, "thr": thr}}


# ----------------------------------------------------------------------------------------------- oracles
STATES = ["zeros", "ones", "x+", "x-", "y+", "y-", "Neel", "wall"]


def dense_state(mps):
    """MPS -> dense vector with site 0 as the most significant index (the convention of MPO.to_matrix)"""
    v = mps.tensors[0][:, 0, :]
    for t in mps.tensors[1:]:
        v = np.tensordot(v, t, axes=(v.ndim - 1, 1))
    return v.reshape(-1)


def run_sim(kind, hparams, L, state, dt, nsteps, mode, order, thr, cap, record, pad=None, mn=2):
    """one noise-free simulator.run; returns final dense state; `record` collects (norm^2, energy) after every
    integrator call inside the run"""
    ham = build_h(kind, hparams, L)
    hmat = ham.to_matrix()
    mps = MPS(L, state=state, pad=pad)
    sp = analog_params(dt, cap, thr, mn=mn, mode=mode, order=order, T=dt * nsteps, obs=[Observable(Z(), i) for i in range(L)] + [Observable(X(), 0)],
                       get_state=True)
    name = "local_dynamic_tdvp" if mode == EvolutionMode.TDVP else "bug"
    orig = getattr(tjm_mod, name)

    def spy(st, h, p):
        orig(st, h, p)
        v = dense_state(st)
        record.append((float(np.vdot(v, v).real), float(np.vdot(v, hmat @ v).real)))

    cpus = simulator.available_cpus
    setattr(tjm_mod, name, spy)
    simulator.available_cpus = lambda: 1  # the serial path asks threadpoolctl for all cores: 50x slower on tiny tensors
    try:
        simulator.run(mps, ham, sp, None, parallel=False)
    finally:
        setattr(tjm_mod, name, orig)
        simulator.available_cpus = cpus
    out = sp.output_state
    zs = np.array([o.results for o in sp.observables[:L]], dtype=float)
    return dense_state(out), hmat, zs, np.asarray(sp.times, dtype=float)


def build_h(kind, hp, L):
    if kind == "ising":
        return MPO.ising(L, hp[0], hp[1])
    if kind == "heis":
        return MPO.heisenberg(L, hp[0], hp[1], hp[2], hp[3])
    h = MPO()
    h.from_pauli_sum(terms=[(c, s) for c, s in hp], length=L)
    return h


def h_params(rng, kind, L):
    if kind == "ising":
        return [rng.uniform(0.5, 1.5), rng.uniform(0.3, 1.2)]
    if kind == "heis":
        return [rng.uniform(0.4, 1.2), rng.uniform(0.4, 1.2), rng.uniform(0.4, 1.2), rng.uniform(0.1, 0.8)]
    terms = []
    for i in range(L):
        for p in "XYZ":
            if rng.random() < 0.6:
                terms.append([rng.uniform(-1, 1), f"{p}{i}"])
    for i in range(L - 1):
        for _ in range(2):
            terms.append([rng.uniform(-1, 1), f"{rng.choice('XYZ')}{i} {rng.choice('XYZ')}{i + 1}"])
    return terms


def align(v, ref):
    """remove the global phase (MPS.normalize and the QR sweeps fix it only up to a sign)"""
    ov = np.vdot(ref, v)
    return v * (np.conj(ov) / abs(ov)) if abs(ov) > 0 else v


def run_dynamics(inp):
    rng = random.Random(inp["sub"])
    bugmode = inp["mode"] == "bug"
    mixed = inp["mode"] == "tdvp-mixed"
    L = inp.get("L") or (rng.choice([6, 7]) if bugmode else rng.choice([4, 5, 5, 6, 6, 7]))
    kind = inp.get("ham") or rng.choice(["ising", "heis", "pauli"])
    hp = inp.get("hp") or h_params(rng, kind, L)
    state = inp.get("state") or rng.choice(STATES)
    mode = EvolutionMode.BUG if bugmode else EvolutionMode.TDVP
    dt = inp.get("dt") or rng.choice([0.1, 0.15, 0.2])
    nsteps = inp.get("nsteps") or (2 if bugmode else rng.choice([2, 3, 4]))
    thr = inp.get("thr") or rng.choice([1e-15, 1e-14, 1e-13])
    cap, pad = inp.get("cap") or 2 ** L, None
    if mixed:
        # every bond already has its full Schmidt dimension (zero padding), the cap sits below it at the inner bonds:
        # one-site and two-site branches are mixed, yet nothing is projected away, so the step-size orders still apply
        pad = 2 ** (L // 2)
        cap = rng.choice([2, 3, 4, 8])
    mn = pad or 2  # min_bond_dim = full dimension: the two-site splits do not strip the padding again
    probs = []
    rec1, rec2, rech = [], [], []
    # analog_tjm_1 always integrates with local_dynamic_tdvp (evolution_mode is only honoured by analog_tjm_2),
    # so the BUG runs use order 2 throughout
    o1 = 2 if bugmode else 1
    v1, hmat, zs, times = run_sim(kind, hp, L, state, dt, nsteps, mode, o1, thr, cap, rec1, pad, mn)
    v2, _, zs2, _ = run_sim(kind, hp, L, state, dt, nsteps, mode, 2, thr, cap, rec2, pad, mn)
    vh, _, _, _ = run_sim(kind, hp, L, state, dt / 2, 2 * nsteps, mode, o1, thr, cap, rech, pad, mn)
    psi0 = dense_state(MPS(L, state=state))
    psi0 = psi0 / np.linalg.norm(psi0)
    e0 = float(np.vdot(psi0, hmat @ psi0).real)
    hn = float(np.linalg.norm(hmat, 2))
    exact = EXPM(-1j * hmat * dt * nsteps) @ psi0
    v1, v2, vh = align(v1, exact), align(v2, exact), align(vh, exact)
    # 1. norm and energy after every integrator call (every reported time, both orders, both step sizes)
    worst_n = max(abs(n - 1) for n, _ in rec1 + rec2 + rech)
    worst_e = max(abs(e - e0) for _, e in rec1 + rec2 + rech)
    ncalls = len(rech)
    tol_n = 50 * thr * 2 * L * max(ncalls, 1) + 1e-9
    tol_e = (50 * thr * 2 * L * max(ncalls, 1) + 1e-8) * (1 + hn)
    if worst_n > tol_n:
        probs.append(f"norm^2 deviates from 1 by {worst_n:.3e} (> {tol_n:.1e}) after an integrator call")
    if worst_e > tol_e:
        probs.append(f"energy drifts by {worst_e:.3e} (> {tol_e:.1e}); E0={e0:.6f}")
    # 2. the two integrator orders give the same result without noise (TDVP mode)
    d12 = float(np.linalg.norm(v1 - v2))
    dz = float(np.max(np.abs(zs - zs2)))
    if not bugmode:
        if d12 > 1e-7:
            probs.append(f"orders 1 and 2 differ by {d12:.3e} in the final state")
        if dz > 1e-7:
            probs.append(f"orders 1 and 2 differ by {dz:.3e} in the reported <Z_i>(t)")
    # 3. convergence: error at dt vs dt/2 (only where the method error is far above the truncation floor)
    err = float(np.linalg.norm(v1 - exact))
    errh = float(np.linalg.norm(vh - exact))
    ratio = err / errh if errh > 0 else float("inf")
    need = 1.6 if bugmode else 3.0
    floor = float(np.sqrt(thr * ncalls * 2 * L))
    meaningful = ncalls > 0 and errh > 10 * floor and err > 10 * floor
    ratio2 = None
    if meaningful and ratio < need:
        # pre-asymptotic step sizes happen (rank still growing during the first steps): judge on the next halving too
        recq = []
        vq, _, _, _ = run_sim(kind, hp, L, state, dt / 4, 4 * nsteps, mode, o1, thr, cap, recq, pad, mn)
        errq = float(np.linalg.norm(align(vq, exact) - exact))
        floorq = float(np.sqrt(thr * len(recq) * 2 * L))
        ratio2 = errh / errq if errq > 0 else float("inf")
        if errq > 10 * floorq and ratio2 < need:
            probs.append(f"error {err:.3e} at dt={dt}, {errh:.3e} at dt/2, {errq:.3e} at dt/4: ratios {ratio:.2f}, {ratio2:.2f} < {need}")
    bound = 0.05 * (hn * dt) * hn * dt * nsteps if not bugmode else 10.0 * hn * dt * hn * dt * nsteps
    if mixed:
        # exactness of the projector splitting: at full bond dimension nothing is projected away and every sub-flow is
        # integrated exactly, so the result equals exp(-iHt) psi0 up to truncation noise for ANY step size
        bound = 1e-10
    if err > (bound if mixed else max(bound, 1e-5)):
        probs.append(f"final state error {err:.3e} exceeds the {'exactness tolerance' if mixed else 'crude bound'} {bound:.3e}")
    zops = []
    for i in range(L):
        op = np.array([[1.0]])
        for j in range(L):
            op = np.kron(op, np.diag([1.0, -1.0]) if j == i else np.eye(2))
        zops.append(np.diag(op))
    worst_z = 0.0
    for k, t in enumerate(times):
        vt = EXPM(-1j * hmat * t) @ psi0
        pr = np.abs(vt) ** 2
        for i in range(L):
            worst_z = max(worst_z, abs(float(np.dot(zops[i], pr)) - zs[i][k]))
    if worst_z > max(2 * bound, 1e-5):
        probs.append(f"reported <Z_i>(t) deviates from the dense evolution by {worst_z:.3e} (> {2 * bound:.3e})")
    detail = "; ".join(probs) or (f"norm dev {worst_n:.1e} energy drift {worst_e:.1e} orders diff {d12:.1e} err {err:.2e}/{errh:.2e} "
                                  f"ratio {ratio:.2f}{'' if meaningful else ' (below floor, not judged)'} obs dev {worst_z:.1e} calls {ncalls}")
    return {"req": None, "impl": None, "oracle": {"ok": not probs, "detail": detail}, "kind": "dynamics-" + inp["mode"],
            "sig": f"dyn:{inp['mode']}:{kind}:{L}:{state}:{dt}:{nsteps}:{cap if mixed else ''}", "nontrivial": bool(meaningful),
            "meta": {"ratio": ratio, "err": err, "errh": errh, "worst_n": worst_n, "worst_e": worst_e, "d12": d12, "dz": dz, "hn": hn,
                     "bound": bound, "worst_z": worst_z, "floor": floor, "meaningful": bool(meaningful), "thr": thr, "ratio2": ratio2}}


def run_budget(inp):
    """norm budget with a threshold that bites: after k calls 1 - k*2L*thr <= |psi|^2 <= 1 (unconstrained bond dimension)"""
    rng = random.Random(inp["sub"])
    L = rng.choice([4, 5, 6, 7])
    kind = rng.choice(["ising", "heis", "pauli"])
    hp = h_params(rng, kind, L)
    state = rng.choice(STATES)
    dt = rng.choice([0.1, 0.2, 0.3])
    nsteps = rng.choice([3, 4, 6])
    thr = rng.choice([1e-4, 1e-5, 1e-6, 1e-7])
    order = rng.choice([1, 2])
    rec = []
    run_sim(kind, hp, L, state, dt, nsteps, EvolutionMode.TDVP, order, thr, 2 ** L, rec)
    probs = []
    worst_low, worst_high = 0.0, 0.0
    for k, (n, _) in enumerate(rec, start=1):
        # order 2 evolves copies: the k-th recorded call has at most k calls behind it
        low = 1 - k * 2 * L * thr
        worst_low = max(worst_low, low - n)
        worst_high = max(worst_high, n - 1)
        if n < low - 1e-9:
            probs.append(f"after {k} calls |psi|^2 = {n:.9f} < 1 - k*2L*thr = {low:.9f}")
            break
        if n > 1 + 1e-9:
            probs.append(f"after {k} calls |psi|^2 = {n:.12f} > 1")
            break
    lost = 1 - min(n for n, _ in rec)
    return {"req": None, "impl": None, "oracle": {"ok": not probs, "detail": "; ".join(probs) or f"lost {lost:.2e} of budget {len(rec) * 2 * L * thr:.2e}"},
            "kind": "budget", "sig": f"budget:{kind}:{L}:{state}:{dt}:{nsteps}:{thr}:{order}", "nontrivial": bool(lost > 1e-12),
            "meta": {"lost": lost, "budget": len(rec) * 2 * L * thr}}


# ----------------------------------------------------------------------------------------------- xe05: conservation tie
# Extension xe05 (Props/C05.lean C05.5-C05.19): run the REAL single_site_tdvp / two_site_tdvp / local_dynamic_tdvp with
# update_site / update_bond / split_mps_tensor / _build_dense_effective_hamiltonian wrapped (on top of the Tracer spies) and,
# before and after every primitive, evaluate <psi|psi> and <psi|H|psi> of the actual MPS against the actual MPO (dense).
#   tied part   : the primitive list (same driver requests as the trace tie)
#   oracles     : per-primitive drift of norm and energy (no truncation), drop = discarded weight <= threshold (splits),
#                 dense H_eff Hermitian (hypothesis of herm_flow_*), local quadratic form = global value
#                 (energy_is_local_site / energy_is_local_bond / norm_is_local on the environments the code built),
#                 primitive result = scipy expm(-i t H_eff) x (hypothesis `hstep` of site/bond_update_conserves_*),
#                 mixed canonical form around the updated tensor (hypothesis `ctr` of one_site_sweep_conserves)
# tolerances: >= 100x the largest clean-tree deviation — observed maxima are quoted next to each.
CONS_TOL = {
    # observed = maximum over 6260 clean-tree cases (probe seeds 0..15, all three integrators, dt up to 2.5)
    "norm": 5e-11,      # |N_after - N_before| per exact primitive; observed 1.6e-13
    "energy": 5e-11,    # |E_after - E_before| / (1 + |H|) per exact primitive; observed 6.5e-14
    "herm": 1e-11,      # max|H_eff - H_eff^dagger| / (1 + max|H_eff|); observed 5.5e-14
    "local": 5e-12,     # |x^dagger H_eff x - <psi|H|psi>| / (1 + |H|), |x^dagger x - <psi|psi>|; observed 3.7e-15
    "flow": 1e-9,       # |result - expm(-i t H_eff) x| / |x| where judged (|t| * |H_eff| <= FLOW_TH_MAX); observed 2.5e-13
    "canon": 1e-11,     # isometry defect of the neighbours of the updated tensor; observed 2.7e-15
    "split": 5e-12,     # |(N_before - N_after) - sum of discarded s^2| / N_before; observed 3.8e-15
}


def dense_of(blocks):
    """list of (phys, left, right) tensors (a merged pair is one tensor with the composite physical index) -> dense vector,
    first site most significant (the convention of MPO.to_matrix)"""
    v = blocks[0][:, 0, :]
    for t in blocks[1:]:
        v = np.tensordot(v, t, axes=(v.ndim - 1, 1))
    return v.reshape(-1)


def iso_defect(left_tensors, right_tensors):
    d = 0.0
    for t in left_tensors:
        m = t.reshape(t.shape[0] * t.shape[1], t.shape[2])
        d = max(d, float(np.max(np.abs(m.conj().T @ m - np.eye(m.shape[1])))))
    for t in right_tensors:
        m = t.transpose(1, 0, 2).reshape(t.shape[1], t.shape[0] * t.shape[2])
        d = max(d, float(np.max(np.abs(m @ m.conj().T - np.eye(m.shape[0])))))
    return d


FLOW_TH_MAX = 8.0  # |t|*|H_eff| up to which 25 Lanczos vectors reproduce expm to 1e-13 (observed 4e-12 in [8,10), 8e-11 in [10,12))


class ConserveSpy:
    """second layer of wrappers around the Tracer spies of tdvp.py; records one dict per primitive"""

    DENSE_MAX = 1024

    def __init__(self, mps, hmat, tracer):
        self.mps, self.hmat, self.tr = mps, hmat, tracer
        self.hn = float(np.linalg.norm(hmat, 2))
        self.recs = []
        self.heff = []          # dense matrices the code itself built (via _build_dense_effective_hamiltonian)
        self.saved = {}

    def quad(self, blocks):
        v = dense_of(blocks)
        return float(np.vdot(v, v).real), float(np.vdot(v, self.hmat @ v).real)

    def local(self, rec, hmats_seen, builder, args, x, res, dt):
        """H_eff the code used (or, above the dense threshold, the one its own builder gives for the same environments)"""
        n = x.size
        h = hmats_seen[-1] if hmats_seen else (builder(*args) if n <= self.DENSE_MAX else None)
        rec["code_built_heff"] = bool(hmats_seen)
        if h is None or h.shape != (n, n):
            rec["heff_shape_ok"] = h is None
            return
        rec["heff_shape_ok"] = True
        rec["herm"] = float(np.max(np.abs(h - h.conj().T))) / (1.0 + float(np.max(np.abs(h))))
        xf = x.reshape(-1)
        rec["locE"] = float(np.vdot(xf, h @ xf).real)
        rec["locN"] = float(np.vdot(xf, xf).real)
        hnorm = float(np.linalg.norm(h, 2))
        rec["tH"] = abs(float(dt)) * hnorm
        if rec["tH"] <= FLOW_TH_MAX:
            ref = EXPM(-1j * float(dt) * h) @ xf
            rec["flow"] = float(np.linalg.norm(res.reshape(-1) - ref)) / max(float(np.linalg.norm(xf)), 1e-300)

    def install(self):
        sp, tr, mps = self, self.tr, self.mps
        inner = {n: getattr(tdvp_mod, n) for n in ("update_site", "update_bond", "split_mps_tensor")}
        self.saved["_build_dense_effective_hamiltonian"] = tdvp_mod._build_dense_effective_hamiltonian
        build0 = tdvp_mod._build_dense_effective_hamiltonian

        def _build(projector, proj_args, tensor_shape):
            h = build0(projector, proj_args, tensor_shape)
            sp.heff.append(h)
            return h

        def update_site(left_env, right_env, op, ket, dt):
            tens = list(mps.tensors)
            k0 = len(sp.heff)
            res = inner["update_site"](left_env, right_env, op, ket, dt)
            ev = tr.events[-1]
            rec = {"kind": ev[0], "pos": ev[1], "dt": float(dt)}
            sp.recs.append(rec)
            if not isinstance(ev[1], int):
                return res
            i, w = ev[1], (1 if ev[0] == "site" else 2)
            rec["Nb"], rec["Eb"] = sp.quad(tens[:i] + [ket] + tens[i + w:])
            rec["Na"], rec["Ea"] = sp.quad(tens[:i] + [res] + tens[i + w:])
            rec["canon"] = iso_defect(tens[:i], tens[i + w:])
            sp.local(rec, sp.heff[k0:], tdvp_mod.build_dense_heff_site, (left_env, right_env, op), ket, res, dt)
            return res

        def update_bond(left_env, right_env, bond_tensor, dt):
            tens = list(mps.tensors)
            k0 = len(sp.heff)
            res = inner["update_bond"](left_env, right_env, bond_tensor, dt)
            ev = tr.events[-1]
            rec = {"kind": "bond", "pos": ev[1], "dt": float(dt)}
            sp.recs.append(rec)
            if not isinstance(ev[1], int):
                return res
            b = ev[1]

            def with_c(c):
                return tens[:b + 1] + [np.einsum("lx,pxr->plr", c, tens[b + 1])] + tens[b + 2:]

            rec["Nb"], rec["Eb"] = sp.quad(with_c(bond_tensor))
            rec["Na"], rec["Ea"] = sp.quad(with_c(res))
            rec["canon"] = iso_defect(tens[:b + 1], tens[b + 1:])
            sp.local(rec, sp.heff[k0:], tdvp_mod.build_dense_heff_bond, (left_env, right_env), bond_tensor, res, dt)
            return res

        def split_mps_tensor(tensor, svd_distribution, sim_params, physical_dimensions, *, dynamic):
            tens = list(mps.tensors)
            p = tr.result_pair.get(id(tensor))
            a, b = inner["split_mps_tensor"](tensor, svd_distribution, sim_params, physical_dimensions, dynamic=dynamic)
            rec = {"kind": "split", "pos": p if p is not None else "?", "dist": svd_distribution}
            sp.recs.append(rec)
            if p is None:
                return a, b
            rec["Nb"], rec["Eb"] = sp.quad(tens[:p] + [tensor] + tens[p + 2:])
            rec["Na"], rec["Ea"] = sp.quad(tens[:p] + [a, b] + tens[p + 2:])
            d0, d1 = physical_dimensions
            th = tensor.reshape(d0, d1, tensor.shape[1], tensor.shape[2]).transpose(0, 2, 1, 3)
            s = np.linalg.svd(th.reshape(d0 * tensor.shape[1], d1 * tensor.shape[2]), compute_uv=False)
            keep = a.shape[2]
            rec["keep"], rec["nsv"] = int(keep), int(len(s))
            rec["tail"] = float(np.sum(s[keep:] ** 2))
            rec["capped"] = bool(keep >= sim_params.max_bond_dim and keep < len(s))
            rec["thr"] = float(sim_params.threshold)
            # the factor that does NOT carry the singular values is an isometry (what keeps the canonical form)
            rec["canon"] = iso_defect([a], []) if svd_distribution == "right" else iso_defect([], [b])
            return a, b

        tdvp_mod._build_dense_effective_hamiltonian = _build
        tdvp_mod.update_site, tdvp_mod.update_bond, tdvp_mod.split_mps_tensor = update_site, update_bond, split_mps_tensor

    def restore(self):
        for n, f in self.saved.items():
            setattr(tdvp_mod, n, f)


def judge_conserve(recs, hn):
    """per-primitive oracles; returns (problems, worst) — `worst` is what the tolerances were calibrated on"""
    probs, worst = [], {k: 0.0 for k in CONS_TOL}
    nsplit = 0
    for k, r in enumerate(recs):
        tag = f"primitive #{k} {r['kind']}@{r['pos']}" + (f" dt={r['dt']:+.4g}" if "dt" in r else "")
        if not isinstance(r["pos"], int):
            continue  # the trace tie reports unidentified calls
        if r["kind"] == "split":
            nsplit += 1
            drop = r["Nb"] - r["Na"]
            worst["split"] = max(worst["split"], abs(drop - r["tail"]) / max(r["Nb"], 1e-300))
            if abs(drop - r["tail"]) > CONS_TOL["split"] * max(r["Nb"], 1.0):
                probs.append(f"{tag}: norm drop {drop:.3e} != discarded weight {r['tail']:.3e} (kept {r['keep']}/{r['nsv']})")
            if not r["capped"] and r["tail"] > r["thr"] * (1 + 1e-9) + 1e-300:
                probs.append(f"{tag}: discarded weight {r['tail']:.3e} > threshold {r['thr']:.1e} although the cap did not bind")
            if drop < -CONS_TOL["split"] * max(r["Nb"], 1.0):
                probs.append(f"{tag}: the split INCREASED the norm by {-drop:.3e}")
            ebound = hn * (2 * np.sqrt(max(r["Nb"], 0) * max(r["tail"], 0)) + r["tail"]) + CONS_TOL["energy"] * (1 + hn)
            if abs(r["Ea"] - r["Eb"]) > ebound:
                probs.append(f"{tag}: energy moved by {abs(r['Ea'] - r['Eb']):.3e} > |H|(2 sqrt(N w)+w) = {ebound:.3e}")
            worst["canon"] = max(worst["canon"], r["canon"])
            if r["canon"] > CONS_TOL["canon"]:
                probs.append(f"{tag}: the factor without the singular values is not an isometry (defect {r['canon']:.2e})")
            continue
        dn, de = abs(r["Na"] - r["Nb"]), abs(r["Ea"] - r["Eb"]) / (1 + hn)
        worst["norm"], worst["energy"], worst["canon"] = max(worst["norm"], dn), max(worst["energy"], de), max(worst["canon"], r["canon"])
        if dn > CONS_TOL["norm"] * max(r["Nb"], 1.0):
            probs.append(f"{tag}: <psi|psi> {r['Nb']:.12f} -> {r['Na']:.12f} (drift {dn:.2e})")
        if de > CONS_TOL["energy"]:
            probs.append(f"{tag}: <psi|H|psi> {r['Eb']:.12f} -> {r['Ea']:.12f} (drift {de * (1 + hn):.2e}, |H|={hn:.2f})")
        if r["canon"] > CONS_TOL["canon"]:
            probs.append(f"{tag}: neighbours of the updated tensor are not isometries (defect {r['canon']:.2e}): not the orthogonality centre")
        if not r.get("heff_shape_ok", True):
            probs.append(f"{tag}: the dense H_eff built by the code is not square of the local dimension")
        if "herm" in r:
            worst["herm"] = max(worst["herm"], r["herm"])
            if r["herm"] > CONS_TOL["herm"]:
                probs.append(f"{tag}: dense H_eff not Hermitian (relative defect {r['herm']:.2e})")
            le, ln = abs(r["locE"] - r["Eb"]) / (1 + hn), abs(r["locN"] - r["Nb"])
            worst["local"] = max(worst["local"], le, ln)
            if le > CONS_TOL["local"] * max(r["Nb"], 1.0):
                probs.append(f"{tag}: local energy x^H H_eff x = {r['locE']:.12f} but <psi|H|psi> = {r['Eb']:.12f}")
            if ln > CONS_TOL["local"] * max(r["Nb"], 1.0):
                probs.append(f"{tag}: local norm x^H x = {r['locN']:.12f} but <psi|psi> = {r['Nb']:.12f}")
            if "flow" in r:
                worst["flow"] = max(worst["flow"], r["flow"])
                if r["flow"] > CONS_TOL["flow"]:
                    probs.append(f"{tag}: result differs from expm(-i t H_eff) x by {r['flow']:.2e} (t|H_eff| = {r['tH']:.2f})")
    return probs, worst, nsplit


def asymmetric_pauli(rng, L):
    """from_pauli_sum Hamiltonian with site-dependent, mirror-asymmetric fields and couplings (every bond different)"""
    terms = []
    for i in range(L):
        terms.append((rng.uniform(0.2, 1.0) * (1 + 0.37 * i), f"{rng.choice('XYZ')}{i}"))
        if rng.random() < 0.5:
            terms.append((rng.uniform(-1, 1), f"{rng.choice('XYZ')}{i}"))
    for i in range(L - 1):
        terms.append((rng.uniform(0.3, 1.0) * (1 if i % 2 else -1) * (1 + 0.21 * i), f"{rng.choice('XYZ')}{i} {rng.choice('XYZ')}{i + 1}"))
        if rng.random() < 0.6:
            terms.append((rng.uniform(-1, 1), f"{rng.choice('XYZ')}{i} {rng.choice('XYZ')}{i + 1}"))
    if L >= 3 and rng.random() < 0.3:
        terms.append((rng.uniform(-0.7, 0.7), f"{rng.choice('XYZ')}0 {rng.choice('XYZ')}2"))  # one longer-range term
    h = MPO()
    h.from_pauli_sum(terms=terms, length=L)
    return h


def run_conserve(inp):
    rng = random.Random(inp["sub"])
    nprng = np.random.default_rng(inp["sub"])
    fn = inp["fn"]
    L = inp.get("L") or rng.choice([2, 3, 3, 4, 4, 5, 5, 6])
    digital = bool(inp.get("digital", rng.random() < 0.15))
    hk = inp.get("ham") or rng.choice(["asym", "asym", "asym", "pauli", "ising", "heis"])
    ham = asymmetric_pauli(rng, L) if hk == "asym" else random_hamiltonian(rng, L, hk)[1]
    hmat = ham.to_matrix()
    dt = inp.get("dt") or rng.choice([0.01, 0.05, 0.1, 0.2, 0.4, 0.8, 1.5, 2.5])
    dmax = rng.choice([2, 3, 4, 8])
    if fn == "single":
        cap, thr = 64, 1e-12
    elif fn == "two":
        cap = inp.get("cap") or rng.choice([2, 3, 4, 8, 64])
        thr = inp.get("thr") or rng.choice([1e-15, 1e-15, 1e-9, 1e-6, 1e-4, 1e-3])
    else:
        cap = inp.get("cap") or rng.choice([1, 2, 2, 3, 4, 4, 8, 64])
        thr = inp.get("thr") or rng.choice([1e-15, 1e-15, 1e-9, 1e-6, 1e-4])
    mps = random_mps(rng, nprng, L, dmax)   # normalised, orthogonality centre at site 0 (MPS.normalize("B"))
    if digital:
        sp = StrongSimParams([Observable(Z(), 0)], num_traj=1, max_bond_dim=cap, min_bond_dim=rng.choice([1, 2]), threshold=thr,
                             show_progress=False)
        unit = lambda: 1.0  # noqa: E731
    else:
        sp = analog_params(dt, cap, thr, mn=rng.choice([1, 2]))
        unit = lambda: sp.dt  # noqa: E731
    bonds_before = [t.shape[2] for t in mps.tensors[:-1]]
    dummy_right, dummy_left = mps.tensors[-1].shape[2], mps.tensors[0].shape[1]
    v0 = dense_of(list(mps.tensors))
    n0, e0 = float(np.vdot(v0, v0).real), float(np.vdot(v0, hmat @ v0).real)
    tr = Tracer(ham, unit)
    spy = ConserveSpy(mps, hmat, tr)
    exc = None
    try:
        tr.install(tdvp_mod, TDVP_NAMES)
        spy.install()
        try:
            {"single": tdvp_mod.single_site_tdvp, "two": tdvp_mod.two_site_tdvp, "ldtdvp": tdvp_mod.local_dynamic_tdvp}[fn](mps, ham, sp)
        except Exception as e:  # noqa: BLE001
            exc = f"{type(e).__name__}: {e}"
    finally:
        tr.restore()
        spy.restore()
    d = 1 if digital else 0
    impl = "err" if exc else ops_text(tr.events)
    if fn == "ldtdvp":
        sd = seen_dims(tr.events, L, dummy_right, dummy_left, digital)
        if sd is None:
            req, impl = f"ldtdvp {L} {cap} {d} | {' '.join(['0'] * L)} | {' '.join(['0'] * L)}", impl + " unsegmentable"
        else:
            req = f"ldtdvp {L} {cap} {d} | {' '.join(map(str, sd[0]))} | {'' if digital else ' '.join(map(str, sd[1]))}"
    else:
        req = f"{fn} {L} {d}"
    probs, worst, nsplit = judge_conserve(spy.recs, spy.hn)
    if exc:
        probs.append(f"{fn} raised {exc}")
    # the whole call: exact for the one-site integrator, within the split budget otherwise
    v1 = dense_of(list(mps.tensors))
    n1, e1 = float(np.vdot(v1, v1).real), float(np.vdot(v1, hmat @ v1).real)
    tails = sum(r["tail"] for r in spy.recs if r["kind"] == "split" and "tail" in r)
    nprim = len(spy.recs)
    if not exc:
        if abs((n0 - n1) - tails) > CONS_TOL["norm"] * max(nprim, 1):
            probs.append(f"whole call: <psi|psi> {n0:.12f} -> {n1:.12f}, but the splits discarded {tails:.3e} in total")
        ebound = spy.hn * sum(2 * np.sqrt(max(r["Nb"], 0) * r["tail"]) + r["tail"] for r in spy.recs if r["kind"] == "split" and "tail" in r)
        if abs(e1 - e0) > ebound + CONS_TOL["energy"] * (1 + spy.hn) * max(nprim, 1):
            probs.append(f"whole call: <psi|H|psi> {e0:.12f} -> {e1:.12f} (allowed {ebound:.3e} from {nsplit} splits)")
    nherm = sum(1 for r in spy.recs if "herm" in r)
    nflow = sum(1 for r in spy.recs if "flow" in r)
    detail = "; ".join(probs[:6]) or (f"{nprim} primitives ({nsplit} splits, discarded {tails:.1e}), H_eff checked {nherm}, flow checked {nflow}; worst " +
                                      " ".join(f"{k}={v:.1e}" for k, v in worst.items()))
    sig = f"cons:{fn}:{L}:{d}:{hk}:{dt}:{cap}:{thr}:{bonds_before}"
    return {"req": req, "impl": impl, "oracle": {"ok": not probs, "detail": detail}, "kind": "conserve-" + fn, "sig": sig,
            "nontrivial": bool(nherm > 0 and (fn == "single" or nsplit > 0)),
            "meta": {"worst": worst, "nprim": nprim, "nsplit": nsplit, "tails": tails, "dt": dt, "thr": thr, "cap": cap, "ham": hk,
                     "dN": n1 - n0, "dE": e1 - e0, "hn": spy.hn, "nflow": nflow,
                     "max_tH": max([r.get("tH", 0.0) for r in spy.recs] or [0.0])}}



# ----------------------------------------------------------------------------------------------- full step trace
# (gauge moves included: np.linalg.qr, the contraction of the bond matrix into the neighbour, merge_mps_tensors) vs
# Model/Conserve.lean (`singleSiteFull`, `twoSiteFull`, `ldtdvpFull`) — the lists whose centre walk the conservation
# theorems of Props/C05 are about.
class _LogList(list):
    """state.tensors with every item assignment recorded"""

    def __init__(self, items, log):
        super().__init__(items)
        self._log = log

    def __setitem__(self, k, v):
        self._log.append(("set", k))
        super().__setitem__(k, v)


class _Proxy:
    def __init__(self, target, **over):
        self.__dict__["_t"] = target
        self.__dict__["_o"] = over

    def __getattr__(self, n):
        o = self.__dict__["_o"]
        return o[n] if n in o else getattr(self.__dict__["_t"], n)


def full_steps_text(events, tensors_ids):
    out = []
    n = len(events)
    for k, e in enumerate(events):
        if e[0] in ("site", "pair", "bond", "split", "trunc"):
            out.append(ops_text([e]))
        elif e[0] == "qr":
            site = next((x[1] for x in events[k + 1:] if x[0] == "set"), "?")
            direction = next((x[0] for x in events[k + 1:] if x[0] in ("absorbR", "absorbL")), "?")
            out.append(("q" if direction == "absorbR" else "Q" if direction == "absorbL" else "?") + f":{site}")
        elif e[0] == "absorbR":
            out.append(f"a:{e[1] - 1 if isinstance(e[1], int) else '?'}")
        elif e[0] == "absorbL":
            out.append(f"A:{e[1]}")
        elif e[0] == "mergeat":
            out.append(f"m:{e[1]}")
    return " ".join(out) if out else "none"


def run_fulltrace(inp):
    rng = random.Random(inp["sub"])
    nprng = np.random.default_rng(inp["sub"])
    fn = inp["fn"]
    L = inp.get("L") or rng.choice([2, 2, 3, 3, 4, 5, 6, 7])
    if fn in ("ldtdvp", "single") and inp.get("L") is None and rng.random() < 0.05:
        L = 1
    digital = bool(inp.get("digital", rng.random() < 0.25))
    dmax = rng.choice([1, 2, 3, 4, 4, 6])
    cap = inp.get("cap") or rng.choice([1, 2, 2, 3, 3, 4, 5, 8, 64])
    thr = rng.choice([1e-12, 1e-9, 1e-6])
    dt = rng.choice([0.05, 0.1, 0.13])
    mps = random_mps(rng, nprng, L, dmax)
    _, ham = random_hamiltonian(rng, L, "ising" if L == 1 else None)
    if digital:
        sp = StrongSimParams([Observable(Z(), 0)], num_traj=1, max_bond_dim=cap, min_bond_dim=rng.choice([1, 2]), threshold=thr,
                             show_progress=False)
        unit = lambda: 1.0  # noqa: E731
    else:
        sp = analog_params(dt, cap, thr, mn=rng.choice([1, 2]))
        unit = lambda: sp.dt  # noqa: E731
    dummy_right, dummy_left = mps.tensors[-1].shape[2], mps.tensors[0].shape[1]
    tr = Tracer(ham, unit)
    mps.tensors = _LogList(mps.tensors, tr.events)
    real_qr, real_contract = np.linalg.qr, tdvp_mod.oe.contract

    def qr_spy(a, *args, **kw):
        tr.events.append(("qr",))
        return real_qr(a, *args, **kw)

    def contract_spy(*args, **kw):
        if len(args) == 5 and isinstance(args[1], tuple):  # interleaved form: only the two absorb statements use it
            which = "absorbR" if (tuple(args[1]), tuple(args[3])) == ((0, 3, 2), (1, 3)) else \
                "absorbL" if (tuple(args[1]), tuple(args[3])) == ((0, 1, 3), (3, 2)) else "absorb?"
            idx = next((k for k, t in enumerate(mps.tensors) if t is args[0]), "?")
            tr.events.append((which, idx))
        return real_contract(*args, **kw)

    exc = None
    saved_np, saved_oe = tdvp_mod.np, tdvp_mod.oe
    try:
        tr.install(tdvp_mod, TDVP_NAMES)
        layered_merge = tdvp_mod.merge_mps_tensors

        def merge_spy(a, b):
            p = next((k for k, t in enumerate(mps.tensors) if t is a), "?")
            tr.events.append(("mergeat", p))
            return layered_merge(a, b)

        tdvp_mod.merge_mps_tensors = merge_spy
        tdvp_mod.np = _Proxy(np, linalg=_Proxy(np.linalg, qr=qr_spy))
        tdvp_mod.oe = _Proxy(saved_oe, contract=contract_spy)
        try:
            {"ldtdvp": tdvp_mod.local_dynamic_tdvp, "single": tdvp_mod.single_site_tdvp, "two": tdvp_mod.two_site_tdvp}[fn](mps, ham, sp)
        except Exception as e:  # noqa: BLE001
            exc = type(e).__name__
    finally:
        tdvp_mod.np, tdvp_mod.oe = saved_np, saved_oe
        tr.restore()
    impl = "err" if exc else full_steps_text(tr.events, None)
    d = 1 if digital else 0
    if fn == "ldtdvp":
        if L == 1:
            req = f"fullldtdvp 1 {cap} {d} | 1 | 1"
        else:
            sd = seen_dims([e for e in tr.events if e[0] in ("site", "pair", "bond", "split", "merge", "trunc")], L,
                           dummy_right, dummy_left, digital)
            if sd is None:
                req = f"fullldtdvp {L} {cap} {d} | {' '.join(['0'] * L)} | {' '.join(['0'] * L)}"
                impl = impl + " unsegmentable"
            else:
                req = f"fullldtdvp {L} {cap} {d} | {' '.join(map(str, sd[0]))} | {'' if digital else ' '.join(map(str, sd[1]))}"
    else:
        req = f"full{fn} {L} {d}"
    ngauge = sum(1 for e in tr.events if e[0] in ("qr", "absorbR", "absorbL", "mergeat"))
    return {"req": req, "impl": impl, "oracle": None, "kind": "fulltrace-" + fn,
            "sig": f"full:{fn}:{L}:{d}:{ngauge}:{cap if fn == 'ldtdvp' else ''}", "nontrivial": ngauge > 0}

# ----------------------------------------------------------------------------------------------- xb05: the BUG integrator
# Extension xb05 (Props/C05.lean C05.23-C05.33, Model/Bug.lean): run the REAL `bug` with every function of bug.py wrapped in
# `bug_mod`'s namespace (prepare_canonical_site_tensors, right_qr, left_qr, update_left/right_environment, update_site,
# choose_stack_tensor, find_new_q, build_basis_change_tensor, local_update, copy, np.tensordot / np.concatenate via a proxy) and
# both tensor lists (state.tensors, canon_tensors) replaced by logging lists.
#   tied part : the full statement list (`fullbug L`, Model/Bug.lean `bugFull`) and the bonds before truncate (`bugbonds d | b…`)
#   oracles   : per local_update — new_q right-isometric; left_qr spec (stack = r·new_q, upper block = the chosen stack tensor);
#               R_{k-1}·M_k·new_q = centre tensor (hypothesis `SweepSpec`/conclusion `sweep_key` of bug_sweep_represents_old_state);
#               M_k·new_q = A_k·M_{k+1} where R_{k-1} is well conditioned (bug_new_basis_contains_old); the dense OLD state equals
#               the dense chain [A_0 … A_{k-2}, A_{k-1}·M_k, new_q_k …] (bug_sweep_represents_old_state); new bond <= 2·old;
#               whole sweep — <psi|psi> and <psi|H|psi> before truncate equal the values at entry (bug_step_conserves_norm) where the
#               Krylov exponential of the root update is converged (dt·|H| <= 8); after truncate every bond <= max_bond_dim.
# tolerances >= 100x the clean-tree maxima (BUG_TOL; observed maxima over 1340 clean-tree cases, seeds 0..9, quoted).
BUG_TOL = {
    "iso": 1e-11,       # max|sum_s q q^H - 1|; observed 1.2e-15
    "qr": 1e-11,        # max|stack - r·new_q| / (1 + max|stack|); observed 5.5e-16
    "basis": 1e-10,     # max|R·M·new_q - centre| / (1 + max|centre|); observed 4.8e-16
    "basis_direct": 1e-9,   # max|M·new_q - A·M_next| / (1 + max|A|) where cond(R) <= 1e4; observed 6.2e-16
    "state": 1e-10,     # |psi_old - psi(new basis)| / |psi_old|; observed 1.9e-15
    "norm": 1e-9,       # |N_before_truncate - N_entry| / N_entry; observed 3.0e-14
    "energy": 1e-9,     # |E_before_truncate - E_entry| / ((1 + |H|) N_entry); observed 2.1e-14
}


class _TagList(list):
    """a tensor list that records every item assignment with a tag"""

    def __init__(self, items, log, tag):
        super().__init__(items)
        self._log, self._tag = log, tag

    def __setitem__(self, k, v):
        self._log.append((self._tag, k))
        super().__setitem__(k, v)

    def __reduce_ex__(self, protocol):  # copy.copy of the state's list must not carry the logger along
        return (list, (list(self),))


def run_bugfull(inp):
    rng = random.Random(inp["sub"])
    nprng = np.random.default_rng(inp["sub"])
    L = inp.get("L") or rng.choice([1, 2, 2, 3, 3, 4, 4, 5, 6, 7])
    digital = bool(inp.get("digital", rng.random() < 0.25))
    dmax = inp.get("dmax") or rng.choice([1, 2, 3, 4, 4, 6, 8])
    thr = rng.choice([1e-15, 1e-12, 1e-9, 1e-6])
    dt = inp.get("dt") or rng.choice([0.01, 0.05, 0.1, 0.2, 0.4])
    hk = inp.get("ham") or rng.choice(["asym", "asym", "pauli", "ising", "heis"])
    if L == 1:
        hk = "ising"
    ham = asymmetric_pauli(rng, L) if hk == "asym" else random_hamiltonian(rng, L, hk)[1]
    hmat = ham.to_matrix()
    hn = float(np.linalg.norm(hmat, 2))
    mps = random_mps(rng, nprng, L, dmax)
    if inp.get("pad") and L >= 2:
        # a built-in product state zero-padded to bond dimension `pad`: every R factor of prepare_canonical_site_tensors is rank
        # deficient, so M_k·new_q = A_k·M_(k+1) is NOT implied — only the R-multiplied identity of `SweepSpec` and the state identity
        mps = MPS(L, state=rng.choice(STATES), pad=int(inp["pad"]))
    if inp.get("over"):
        # over-complete bonds (b_1 > d, b_2 > d·b_1 …: more columns than the QR of the site can keep), so that the centre dimensions
        # c_k = min(d·c_(k-1), b_k) are decided by their first argument at several sites in a row
        ob = [int(b) for b in inp["over"]]
        dims = [1] + ob + [1]
        ts = [(nprng.standard_normal((2, dims[k], dims[k + 1])) + 1j * nprng.standard_normal((2, dims[k], dims[k + 1]))) / np.sqrt(2 * dims[k + 1])
              for k in range(L)]
        mps = MPS(L, tensors=ts, physical_dimensions=[2] * L)
    if inp.get("scale"):
        mps.tensors[0] = mps.tensors[0] * float(inp["scale"])   # norm conservation is not about unit norm
    bonds = [t.shape[2] for t in mps.tensors[:-1]]
    maxb = max(bonds + [1])
    cap = inp.get("cap") or rng.choice([maxb, maxb, 2 * maxb, 64, max(1, rng.randint(1, maxb))])
    if digital:
        sp = StrongSimParams([Observable(Z(), 0)], num_traj=1, max_bond_dim=cap, min_bond_dim=rng.choice([1, 2]), threshold=thr,
                             show_progress=False)
        unit = lambda: 1.0  # noqa: E731
    else:
        sp = analog_params(dt, cap, thr, mn=rng.choice([1, 2]))
        unit = lambda: sp.dt  # noqa: E731
    old = [np.array(t) for t in mps.tensors]
    psi0 = dense_of(old)
    n0, e0 = float(np.vdot(psi0, psi0).real), float(np.vdot(psi0, hmat @ psi0).real)
    tr = Tracer(ham, unit)
    ev = tr.events
    mps.tensors = _TagList(mps.tensors, ev, "set")
    ctx = {"prep": False, "site": None, "inbasis": False, "canon": None, "Rs": [], "lastq": None, "lastM": None, "stack": None,
           "updated": None, "qr": None}
    probs, worst = [], {k: 0.0 for k in BUG_TOL}
    res = {"bonds_before_trunc": None, "N1": None, "E1": None}
    names = ["prepare_canonical_site_tensors", "right_qr", "left_qr", "choose_stack_tensor", "find_new_q",
             "build_basis_change_tensor", "local_update", "copy"]
    o = {n: getattr(bug_mod, n) for n in names}
    real_np = bug_mod.np

    def idx_in(lst, x):
        return next((k for k, t in enumerate(lst) if t is x), "?") if lst is not None else "?"

    def copy_spy(x):
        c = _TagList(list(x), ev, "cset")
        ctx["canon"] = c
        return c

    def prepare_spy(state, mpo):
        ctx["prep"] = True
        try:
            return o["prepare_canonical_site_tensors"](state, mpo)
        finally:
            ctx["prep"] = False

    def right_qr_spy(t):
        q, r = o["right_qr"](t)
        ev.append(("pq", idx_in(ctx["canon"], t)))
        ctx["Rs"].append(r)
        m = q.reshape(-1, q.shape[2])
        d = float(np.max(np.abs(m.conj().T @ m - np.eye(m.shape[1])))) if m.size else 0.0
        worst["iso"] = max(worst["iso"], d)
        if d > BUG_TOL["iso"]:
            probs.append(f"right_qr inside prepare_canonical_site_tensors: Q not an isometry (defect {d:.2e})")
        return q, r

    def left_qr_spy(t):
        q, r = o["left_qr"](t)
        ctx["qr"] = (t, q, r)
        return q, r

    def choose_spy(site, canon, state):
        out = o["choose_stack_tensor"](site, canon, state)
        which = "L" if out is state.tensors[site] and (site >= len(canon) or out is not canon[site]) else "C" if out is canon[site] else "?"
        ev.append(("k", site, which))
        ctx["stack"] = out
        return out

    def find_spy(old_stack, updated):
        ev.append(("n", ctx["site"], "" if (old_stack is ctx["stack"] and updated is ctx["updated"]) else "!args"))
        q = o["find_new_q"](old_stack, updated)
        ctx["lastq"] = q
        return q

    def basis_spy(old_q, new_q, old_m):
        k = ctx["site"]
        flag = ""
        if not (isinstance(k, int) and old_q is ctx["old_state"][k]):
            flag += "!old"
        if new_q is not ctx["lastq"]:
            flag += "!new"
        if old_m is not ctx["m_in"]:
            flag += "!m"
        ev.append(("B", k, flag))
        ctx["inbasis"] = True
        try:
            return o["build_basis_change_tensor"](old_q, new_q, old_m)
        finally:
            ctx["inbasis"] = False

    def local_update_spy(state, mpo, left_blocks, right_block, canon, site, right_m_block, sim_params):
        ctx["site"], ctx["m_in"] = site, right_m_block
        ctx["old_state"] = list(state.tensors)
        centre = canon[site]
        a_k = state.tensors[site]
        m_k, new_rb = o["local_update"](state, mpo, left_blocks, right_block, canon, site, right_m_block, sim_params)
        ctx["site"] = None
        nq = state.tensors[site]
        tag = f"local_update(site={site})"
        # 1. new_q right-isometric
        mm = nq.transpose(1, 0, 2).reshape(nq.shape[1], -1)
        d = float(np.max(np.abs(mm @ mm.conj().T - np.eye(mm.shape[0]))))
        worst["iso"] = max(worst["iso"], d)
        if d > BUG_TOL["iso"]:
            probs.append(f"{tag}: new site tensor is not right-isometric (defect {d:.2e})")
        # 2. spec of left_qr on the stack actually built, and the stack's upper block is the chosen stack tensor
        if ctx["qr"] is not None:
            stacked, q, r = ctx["qr"]
            rec = np.einsum("ln,pnr->plr", r, q)
            d = float(np.max(np.abs(rec - stacked))) / (1 + float(np.max(np.abs(stacked))))
            worst["qr"] = max(worst["qr"], d)
            if d > BUG_TOL["qr"]:
                probs.append(f"{tag}: left_qr does not reproduce its input (defect {d:.2e})")
            st = ctx["stack"]
            if st is None or stacked.shape[1] != st.shape[1] + centre.shape[1] or not np.array_equal(stacked[:, :st.shape[1], :], st):
                probs.append(f"{tag}: the tensor handed to left_qr is not [stack tensor ; updated tensor] along the left leg "
                             f"(shape {stacked.shape}, stack {None if st is None else st.shape}, centre {centre.shape})")
            ctx["qr"] = None
        else:
            probs.append(f"{tag}: find_new_q did not call left_qr")
        # 3. the old tensor is reproduced from the new basis
        r_prev = ctx["Rs"][site - 1] if site - 1 < len(ctx["Rs"]) else None
        if r_prev is not None and r_prev.shape[1] == m_k.shape[0] and m_k.shape[1] == nq.shape[1]:
            lhs = np.einsum("ab,bn,pnr->par", r_prev, m_k, nq)
            d = float(np.max(np.abs(lhs - centre))) / (1 + float(np.max(np.abs(centre)))) if lhs.shape == centre.shape else float("inf")
            worst["basis"] = max(worst["basis"], d) if np.isfinite(d) else worst["basis"]
            if d > BUG_TOL["basis"]:
                probs.append(f"{tag}: R_(k-1)·M_k·new_q differs from the centre tensor the update started from by {d:.2e} (shapes {lhs.shape} vs {centre.shape})")
            cond = float(np.linalg.cond(r_prev)) if r_prev.shape[0] == r_prev.shape[1] else float("inf")
            if cond <= 1e4:
                am = np.einsum("plr,rn->pln", a_k, right_m_block)
                mq = np.einsum("ln,pnr->plr", m_k, nq)
                d = float(np.max(np.abs(am - mq))) / (1 + float(np.max(np.abs(a_k))))
                worst["basis_direct"] = max(worst["basis_direct"], d)
                if d > BUG_TOL["basis_direct"]:
                    probs.append(f"{tag}: M_k·new_q differs from old tensor·M_(k+1) by {d:.2e} (cond R = {cond:.1e})")
        else:
            probs.append(f"{tag}: basis-change matrix of shape {m_k.shape} does not connect old bond {a_k.shape[1]} to new bond {nq.shape[1]}")
        # 4. the OLD state, written in the new basis
        try:
            blocks = [np.array(t) for t in state.tensors]
            blocks[site - 1] = np.einsum("plr,rn->pln", blocks[site - 1], m_k)
            v = dense_of(blocks)
            d = float(np.linalg.norm(v - psi0)) / max(float(np.linalg.norm(psi0)), 1e-300)
        except ValueError as e:  # shapes do not chain
            d = float("inf")
        worst["state"] = max(worst["state"], d) if np.isfinite(d) else worst["state"]
        if d > BUG_TOL["state"]:
            probs.append(f"{tag}: the chain [A_0…A_(k-2), A_(k-1)·M_k, new_q_k…] differs from the state handed to bug by {d:.2e} (relative)")
        # 5. rank augmentation
        if nq.shape[1] > 2 * max(centre.shape[1], a_k.shape[1]):
            probs.append(f"{tag}: left bond grew from {a_k.shape[1]} to {nq.shape[1]} (> 2x)")
        return m_k, new_rb

    def tensordot_spy(a, b, axes=2):
        return real_np.tensordot(a, b, axes=axes)

    orig_trunc = networks_mod.MPS.truncate

    def truncate_spy(self_mps, threshold=1e-12, max_bond_dim=None):
        res["bonds_before_trunc"] = [t.shape[2] for t in self_mps.tensors[:-1]]
        try:
            v = dense_of([np.array(t) for t in self_mps.tensors])
            res["N1"], res["E1"] = float(np.vdot(v, v).real), float(np.vdot(v, hmat @ v).real)
        except ValueError:
            res["N1"] = res["E1"] = float("nan")
        res["trunc_args"] = (float(threshold), max_bond_dim)
        ev.append(("trunc",))
        return orig_trunc(self_mps, threshold, max_bond_dim)

    def us_spy_factory(inner):
        def us(left_env, right_env, op, ket, dt_):
            out = inner(left_env, right_env, op, ket, dt_)
            ctx["updated"] = out
            return out
        return us

    exc = None
    try:
        tr.install(tdvp_mod, TDVP_NAMES)
        tr.install(bug_mod, BUG_NAMES)
        traced_ule, traced_ure = bug_mod.update_left_environment, bug_mod.update_right_environment

        def ule(ket, bra, op, env):
            ev.append(("pe" if ctx["prep"] else "L?", tr.site_of(op), "" if ket is bra else "!ketbra"))
            return traced_ule(ket, bra, op, env)

        def ure(ket, bra, op, env):
            ev.append(("r", tr.site_of(op), "" if (ket is bra and ket is ctx["lastq"]) else "!args"))
            return traced_ure(ket, bra, op, env)

        bug_mod.update_left_environment, bug_mod.update_right_environment = ule, ure
        bug_mod.update_site = us_spy_factory(bug_mod.update_site)
        bug_mod.prepare_canonical_site_tensors = prepare_spy
        bug_mod.right_qr, bug_mod.left_qr = right_qr_spy, left_qr_spy
        bug_mod.choose_stack_tensor, bug_mod.find_new_q = choose_spy, find_spy
        bug_mod.build_basis_change_tensor, bug_mod.local_update = basis_spy, local_update_spy
        bug_mod.copy = copy_spy
        networks_mod.MPS.truncate = truncate_spy
        try:
            bug_mod.bug(mps, ham, sp)
        except Exception as e:  # noqa: BLE001
            import traceback as _tb

            frames = _tb.extract_tb(e.__traceback__)
            exc = f"{type(e).__name__}: {str(e)[:120]} at " + next((f"{f.filename.split('/')[-1]}:{f.lineno}" for f in reversed(frames)
                                                                   if "/mqt/yaqs/" in f.filename), "?")
    finally:
        for n, f in o.items():
            setattr(bug_mod, n, f)
        networks_mod.MPS.truncate = orig_trunc
        tr.restore()
    # ---- the statement list
    toks = []
    for e in ev:
        if e[0] == "pq":
            toks.append(f"pq:{e[1]}")
        elif e[0] == "cset":
            toks.append(f"pc:{e[1] - 1}" if (isinstance(e[1], int) and not _after_prep(ev, e)) else f"P:{e[1] + 1 if isinstance(e[1], int) else '?'}")
        elif e[0] == "pe":
            toks.append(f"pe:{e[1]}{e[2]}")
        elif e[0] == "L?":
            toks.append(f"leftenv-outside-prepare:{e[1]}")
        elif e[0] == "site":
            toks.append(ops_text([e]))
        elif e[0] == "k":
            toks.append(f"k:{e[1]}:{e[2]}")
        elif e[0] == "n":
            toks.append(f"n:{e[1]}{e[2]}")
        elif e[0] == "B":
            toks.append(f"B:{e[1]}{e[2]}")
        elif e[0] == "set":
            toks.append("root" if e[1] == 0 else f"S:{e[1]}")
        elif e[0] == "r":
            toks.append(f"r:{e[1]}{e[2]}")
        elif e[0] == "trunc":
            toks.append("t")
    impl = "err" if exc else " ".join(toks)
    # ---- whole-call oracles
    if exc:
        probs.append(f"bug raised {exc}")
    else:
        if res["N1"] is None:
            probs.append("bug returned without calling state.truncate")
        else:
            judged = float(unit()) * hn <= 8.0
            dn = abs(res["N1"] - n0) / max(n0, 1e-300)
            de = abs(res["E1"] - e0) / ((1 + hn) * max(n0, 1e-300))
            if judged:
                worst["norm"], worst["energy"] = max(worst["norm"], dn), max(worst["energy"], de)
                if not dn <= BUG_TOL["norm"]:
                    probs.append(f"<psi|psi> before truncate {res['N1']:.12f} != at entry {n0:.12f} (relative drift {dn:.2e})")
                if not de <= BUG_TOL["energy"]:
                    probs.append(f"<psi|H|psi> before truncate {res['E1']:.12f} != at entry {e0:.12f} (drift {de:.2e} of (1+|H|)N, |H|={hn:.2f})")
            if res["trunc_args"] != (float(sp.threshold), sp.max_bond_dim):
                probs.append(f"truncate called with {res['trunc_args']} instead of (threshold, max_bond_dim) = {(sp.threshold, sp.max_bond_dim)}")
        after = [t.shape[2] for t in mps.tensors[:-1]]
        if any(b > cap for b in after):
            probs.append(f"bonds after bug {after} exceed max_bond_dim = {cap}")
        for i, t in enumerate(mps.tensors):
            if i + 1 < L and t.shape[2] != mps.tensors[i + 1].shape[1]:
                probs.append(f"bug left an MPS whose bond {i} does not match ({t.shape} | {mps.tensors[i + 1].shape})")
    detail = "; ".join(probs[:5]) or ("worst " + " ".join(f"{k}={v:.1e}" for k, v in worst.items()) +
                                      f"; bonds {bonds} -> {res['bonds_before_trunc']} -> {[t.shape[2] for t in mps.tensors[:-1]]} (cap {cap})")
    meta = {"worst": worst, "bonds": bonds, "cap": cap, "dt": float(unit()), "hn": hn, "thr": thr, "digital": digital}
    out = [{"req": f"fullbug {L}", "impl": impl, "oracle": {"ok": not probs, "detail": detail}, "kind": "bug-step",
            "sig": f"bugfull:{L}:{int(digital)}:{bonds}:{cap}:{hk}", "nontrivial": L >= 2 and maxb >= 2, "meta": meta}]
    if not exc and res["bonds_before_trunc"] is not None:
        out.append({"req": f"bugbonds 2 | {' '.join(map(str, bonds))}" if bonds else "bugbonds 2",
                    "impl": " ".join(map(str, res["bonds_before_trunc"])) if bonds else "none", "oracle": None, "kind": "bug-bonds",
                    "sig": f"bugbonds:{bonds}", "nontrivial": any(a != b for a, b in zip(bonds, res["bonds_before_trunc"]))})
    return out


def _after_prep(events, e):
    """is the `cset` event `e` one of local_update (True) or of prepare_canonical_site_tensors (False)?  local_update's hand-over
    comes after the first site update; prepare's assignments come before it"""
    for x in events:
        if x is e:
            return False
        if x[0] == "site":
            return True
    return False


def gen(rng, tier):
    n_trace = {"quick": 300, "thorough": 3000, "search": 60}.get(tier, 300)
    n_dyn = {"quick": 40, "thorough": 400, "search": 60}.get(tier, 40)
    # a few dynamics first (the oracle is what finds failing inputs), then traces, then the remaining dynamics
    dyn = []
    for k in range(n_dyn):
        dyn.append({"kind": "dynamics", "mode": ["tdvp", "tdvp-mixed", "bug"][k % 3], "sub": rng.randrange(1 << 30)})
    head = 4 if tier != "search" else n_dyn
    yield from dyn[:head]
    # xb05: the BUG integrator with every statement traced (every length once analog and once digital, then random)
    for L in (1, 2, 3, 4, 5, 6, 7):
        for dg in (False, True):
            yield {"kind": "bugfull", "L": L, "digital": dg, "sub": rng.randrange(1 << 30)}
    for L, pad in ((2, 2), (3, 2), (4, 4), (5, 2), (6, 4)):   # rank-deficient gauge matrices; a state of norm 3
        yield {"kind": "bugfull", "L": L, "pad": pad, "digital": False, "sub": rng.randrange(1 << 30)}
    yield {"kind": "bugfull", "L": 4, "scale": 3.0, "digital": False, "sub": rng.randrange(1 << 30)}
    for ob in ([4, 16], [4, 16, 4], [3, 7, 15, 2], [8, 8], [5, 12, 3, 9]):   # over-complete bonds (found thin by tools/model_mutation.py)
        yield {"kind": "bugfull", "L": len(ob) + 1, "over": ob, "digital": False, "cap": 64, "dt": 0.05, "sub": hash(tuple(ob)) % (1 << 30)}
    for k in range({"quick": 120, "thorough": 1500, "search": 150}.get(tier, 120)):
        yield {"kind": "bugfull", "sub": rng.randrange(1 << 30)}
    # shortest chains with the cap exactly at the full bond dimension (no truncation possible, so the result must converge)
    for L, cap in ((2, 2), (2, 64), (3, 4)):
        yield {"kind": "dynamics", "mode": "tdvp", "L": L, "cap": cap, "ham": rng.choice(["ising", "heis"]),
               "state": rng.choice(["x+", "Neel", "wall"]), "sub": rng.randrange(1 << 30)}
    for _ in range({"quick": 6, "thorough": 60, "search": 20}.get(tier, 6)):
        yield {"kind": "budget", "sub": rng.randrange(1 << 30)}
    # xe05: per-primitive conservation of the real sweeps (every small length once per integrator, then random)
    for L in (2, 3, 4, 5, 6):
        for fn in ("single", "two", "ldtdvp"):
            yield {"kind": "conserve", "fn": fn, "L": L, "digital": False, "ham": "asym", "sub": rng.randrange(1 << 30)}
    for k in range({"quick": 150, "thorough": 1500, "search": 150}.get(tier, 150)):
        yield {"kind": "conserve", "fn": ("single", "two", "ldtdvp")[k % 3], "sub": rng.randrange(1 << 30)}
    for L in (2, 3, 4, 5):  # every small length with caps that bite everywhere / nowhere
        for cap in (1, 2, 64):
            yield {"kind": "trace", "fn": "ldtdvp", "L": L, "cap": cap, "digital": False, "sub": rng.randrange(1 << 30)}
            yield {"kind": "fulltrace", "fn": "ldtdvp", "L": L, "cap": cap, "digital": False, "sub": rng.randrange(1 << 30)}
    for k in range({"quick": 90, "thorough": 900, "search": 30}.get(tier, 90)):
        yield {"kind": "fulltrace", "fn": ("ldtdvp", "single", "two", "ldtdvp")[k % 4], "sub": rng.randrange(1 << 30)}
    for k in range(n_trace):
        r = rng.random()
        fn = "ldtdvp" if r < 0.7 else "single" if r < 0.8 else "two" if r < 0.9 else "bug"
        yield {"kind": "trace", "fn": fn, "sub": rng.randrange(1 << 30)}
    yield from dyn[head:]


def run(inp):
    if inp["kind"] == "trace":
        return run_trace(inp)
    if inp["kind"] == "conserve":  # xe05
        return run_conserve(inp)
    if inp["kind"] == "fulltrace":
        return run_fulltrace(inp)
    if inp["kind"] == "bugfull":  # xb05
        return run_bugfull(inp)
    if inp["kind"] not in ("dynamics", "budget"):
        raise ValueError(inp["kind"])
    try:
        return run_dynamics(inp) if inp["kind"] == "dynamics" else run_budget(inp)
    except Exception as e:  # noqa: BLE001  the real code raised inside a noise-free simulator.run: that is a verdict
        import traceback

        tb = traceback.extract_tb(e.__traceback__)
        where = next((f"{f.filename.split('/')[-1]}:{f.lineno}" for f in reversed(tb) if "/mqt/yaqs/" in f.filename), "?")
        if where == "?":
            raise
        return {"req": None, "impl": None, "kind": inp["kind"] + "-" + str(inp.get("mode", "")),
                "oracle": {"ok": False, "detail": f"noise-free simulator.run raised {type(e).__name__}: {e} (at {where})"},
                "sig": f"raise:{type(e).__name__}:{where}"}


if __name__ == "__main__":
    ib.main("C05", gen, run, driver="Sweep",
            rule="trace: seeded chains L=1..8 x random valid bond dimensions x caps 1..64 x analog/digital x "
                 "{local_dynamic_tdvp, single_site_tdvp, two_site_tdvp, bug}; distinct = distinct (function, L, mode, "
                 "#site updates, #pair updates, cap, bonds) signatures; non-trivial (ldtdvp, L>2) = both branches taken. "
                 "dynamics: simulator.run noise-free on Ising/Heisenberg/random Pauli-sum chains L=4..7, built-in states"
                 + ". conserve (xe05): the real single_site_tdvp / two_site_tdvp / local_dynamic_tdvp on L=2..6, random right-canonical "
                 "MPS, asymmetric from_pauli_sum / Ising / Heisenberg MPOs, dt 0.01..2.5, thresholds 1e-15..1e-3, caps 1..64, with every "
                 "update_site / update_bond / split_mps_tensor wrapped: primitive list tied to the model; per primitive <psi|psi> and "
                 "<psi|H|psi> of the actual MPS (dense) before/after, dense H_eff Hermitian, x^H H_eff x = <psi|H|psi>, x^H x = <psi|psi>, "
                 "result = scipy expm(-i t H_eff) x, neighbours isometric, split drop = discarded weight <= threshold; tolerances "
                 ">= 100x the clean-tree maxima over 6260 cases (CONS_TOL in the script)"
                 + ". bug-step / bug-bonds (xb05): the real bug on L=1..7, random right-canonical MPS (bonds 1..8), caps at, above and below the "
                 "bonds, analog and digital parameter objects, every function of bug.py wrapped in its module namespace and both tensor lists "
                 "logging: full statement list tied to Model/Bug.lean (fullbug), bonds before truncate tied to bugBonds; per local_update new_q "
                 "right-isometric, left_qr spec, R·M·new_q = centre tensor, M·new_q = old·M_next (cond R <= 1e4), dense old state = chain in the new "
                 "basis; whole sweep: norm and energy before truncate = at entry (dt·|H| <= 8), bonds after truncate <= cap (BUG_TOL in the script)",
            trusted_base=["numpy/scipy dense linear algebra (scipy.linalg.expm) in the oracles",
                          "cited, not formalised: a consistent palindromic one-step method has even order (Hairer-Lubich-Wanner II.3); "
                          "projector-splitting exactness (Lubich-Oseledets-Vandereycken 2015); BUG first-order bound (Ceruti-Lubich-Walach 2021)"],
            assumptions=["the site of an update is the index of the MPO tensor object handed to it; the bond dimension the "
                         "branch condition looked at is the one visible in the arguments of the first call of the visit",
                         "conserve (xe05): Krylov exactness is judged only where |t|*|H_eff| <= 8 (25 Lanczos vectors suffice there); "
                         "the dense H_eff above the code's DENSE_THRESHOLD is rebuilt with the code's own build_dense_heff_* for the same environments"])
