"""C08 — implementation side: the bond dimension never exceeds the user's cap.

value tie : kept rank of the real split_mps_tensor on forced spectra (caps that are not powers of d, dynamic flag) vs
            Model.Rank (shared with C09).
trace tie : whole simulations (analog TJM order 1/2, TDVP/BUG, digital strong/weak, with and without noise) run with
            every bond-changing primitive wrapped (split_mps_tensor, two_site_svd, right_qr); every call becomes a
            request for the driver (spectrum the code saw -> kept rank; shape -> QR bond); the bond vectors seen at the
            sampling points are handed to the model's invariant (`inv`).  Coverage: every bond that changed between two
            sampling points must be explained by a recorded primitive.
spec tie  : hypotheses of theorem c08_svd_le on every SVD shift seen (numerical rank <= old bond, state not numerically 0).
oracle    : at every sampling point every bond <= max(max_bond_dim, min_bond_dim, initial bond).
"""
from __future__ import annotations

import random
import sys
import warnings

import numpy as np

import implbase as ib

warnings.simplefilter("ignore")

import C09 as c09  # noqa: E402  (forced-spectrum machinery)
from mqt.yaqs import simulator  # noqa: E402
from mqt.yaqs.core.data_structures.networks import MPO, MPS  # noqa: E402
from mqt.yaqs.core.data_structures.noise_model import NoiseModel  # noqa: E402
from mqt.yaqs.core.data_structures.simulation_parameters import (  # noqa: E402
    AnalogSimParams,
    EvolutionMode,
    Observable,
    StrongSimParams,
    WeakSimParams,
)
from mqt.yaqs.core.libraries.gate_library import X, Z  # noqa: E402
from mqt.yaqs.core.methods import decompositions as dec_mod  # noqa: E402
from mqt.yaqs.core.methods import tdvp as tdvp_mod  # noqa: E402

KEY_D16 = "C08:svd-centre-shift-floor2:max_bond_dim=1,min_bond_dim=1"
SPEC = {"svd_calls": 0, "hyp_rank_fail": 0, "hyp_zero_state": 0, "detail": ""}


def patch_everywhere(orig, wrapper):
    """replace every module-level reference to `orig` inside mqt.yaqs by `wrapper`; returns an undo function"""
    done = []
    for name, mod in list(sys.modules.items()):
        if not name.startswith("mqt.yaqs") or mod is None:
            continue
        for attr, val in list(vars(mod).items()):
            if val is orig:
                setattr(mod, attr, wrapper)
                done.append((mod, attr))

    def undo():
        for mod, attr in done:
            setattr(mod, attr, orig)

    return undo


class Recorder:
    def __init__(self):
        self.ops = []          # (kind, req, impl, edge)
        self.outputs = set()   # bond values produced by primitives since the last snapshot
        self.snaps = []        # bond vectors at sampling points
        self.unexplained = []
        self.last = None
        self.history = []
        self._s = []

    def snapshot(self, state, where):
        bonds = [int(t.shape[2]) for t in state.tensors[:-1]]
        # a value is explained if a primitive produced it since the last sampling point, or if that bond already had
        # it at an earlier sampling point (new trajectory from the initial state; TJM-2 samples a copy)
        if self.last is not None and len(self.last) == len(bonds):
            for i, (a, b) in enumerate(zip(self.last, bonds)):
                if a != b and b not in self.outputs and b not in self.history[i]:
                    self.unexplained.append((where, i, a, b))
        else:
            self.history = [set() for _ in bonds]
        for i, b in enumerate(bonds):
            self.history[i].add(b)
        self.last = bonds
        self.outputs = set()
        self.snaps.append((where, bonds))


def instrument(rec: Recorder):
    undo = []
    orig_rsvd_t = tdvp_mod.robust_svd
    orig_split = tdvp_mod.split_mps_tensor
    orig_two = dec_mod.two_site_svd
    orig_rsvd_d = dec_mod.robust_svd
    orig_qr = dec_mod.right_qr
    orig_npqr = np.linalg.qr

    def rsvd_t(a, *args, **kw):
        u, s, v = orig_rsvd_t(a, *args, **kw)
        rec._s.append(np.array(s))
        return u, s, v

    def split(tensor, dist, sim_params, dims, *, dynamic):
        rec._s = []
        a0, a1 = orig_split(tensor, dist, sim_params, dims, dynamic=dynamic)
        keep = int(a0.shape[2])
        rec.outputs.add(keep)
        if rec._s:
            s = rec._s[-1]
            mode = sim_params.trunc_mode
            rule = "dw" if mode == "discarded_weight" else "rel"
            thr = float(sim_params.threshold)
            edge = c09.margin_edge(s, thr) if rule == "dw" else any(
                abs(float(v) / float(s[0]) - thr) <= 1e-9 * max(thr, 1e-300) for v in s) if float(s[0]) > 0 else False
            rec.ops.append(("split", f"{rule} {ib.frac(thr)} {int(sim_params.min_bond_dim)} {int(sim_params.max_bond_dim)} | {ib.fracs(s)}",
                            str(keep), bool(edge), f"split:{rule}:{len(s)}:{keep}:{int(sim_params.max_bond_dim)}:{dynamic}"))
        return a0, a1

    def rsvd_d(a, *args, **kw):
        u, s, v = orig_rsvd_d(a, *args, **kw)
        rec._s.append(np.array(s))
        return u, s, v

    def two(a, b, threshold, max_bond_dim=None):
        rec._s = []
        an, bn = orig_two(a, b, threshold, max_bond_dim)
        keep = int(an.shape[2])
        rec.outputs.add(keep)
        if rec._s:
            s = rec._s[-1]
            chi = int(a.shape[2])
            SPEC["svd_calls"] += 1
            tail = float(np.sum(np.asarray(s[chi:], dtype=float) ** 2))
            tot = float(np.sum(np.asarray(s, dtype=float) ** 2))
            if not tail < threshold:
                SPEC["hyp_rank_fail"] += 1
                SPEC["detail"] = f"tailWeight beyond old bond {chi} is {tail:.3e} >= thr {threshold}"
            if not tot >= threshold:
                SPEC["hyp_zero_state"] += 1
            edge = c09.margin_edge(s, threshold)
            rec.ops.append(("svd", f"two {ib.frac(threshold)} {'none' if max_bond_dim is None else int(max_bond_dim)} | {ib.fracs(s)}",
                            str(keep), bool(edge), f"two:{len(s)}:{keep}:{max_bond_dim}:{chi}"))
        return an, bn

    def qr(t):
        q, r = orig_qr(t)
        d, l, rr = (int(x) for x in t.shape)
        out = int(q.shape[2])
        rec.outputs.add(out)
        rec.ops.append(("qr", f"qr {d} {l} {rr}", str(out), False, f"qr:{d}:{l}:{rr}"))
        return q, r

    def npqr(m, *args, **kw):
        res = orig_npqr(m, *args, **kw)
        try:
            rec.outputs.add(int(res[0].shape[1]))
        except Exception:  # noqa: BLE001
            pass
        return res

    tdvp_mod.robust_svd = rsvd_t
    dec_mod.robust_svd = rsvd_d
    undo.append(lambda: setattr(tdvp_mod, "robust_svd", orig_rsvd_t))
    undo.append(lambda: setattr(dec_mod, "robust_svd", orig_rsvd_d))
    undo.append(patch_everywhere(orig_split, split))
    undo.append(patch_everywhere(orig_two, two))
    undo.append(patch_everywhere(orig_qr, qr))
    np.linalg.qr = npqr
    undo.append(lambda: setattr(np.linalg, "qr", orig_npqr))

    orig_eval = MPS.evaluate_observables
    orig_shots = MPS.measure_shots

    def ev(self, *a, **k):
        rec.snapshot(self, "evaluate")
        return orig_eval(self, *a, **k)

    def shots(self, *a, **k):
        rec.snapshot(self, "measure_shots")
        return orig_shots(self, *a, **k)

    MPS.evaluate_observables = ev
    MPS.measure_shots = shots
    undo.append(lambda: setattr(MPS, "evaluate_observables", orig_eval))
    undo.append(lambda: setattr(MPS, "measure_shots", orig_shots))

    def restore():
        for u in reversed(undo):
            u()

    return restore


ONE_SITE = ["lowering", "raising", "pauli_z", "pauli_x", "pauli_y"]
TWO_SITE = ["lowering_two", "raising_two", "crosstalk_xx", "crosstalk_zz", "crosstalk_xy"]


def make_noise(rng, L):
    procs = []
    for _ in range(rng.randrange(1, 5)):
        if rng.random() < 0.55 or L < 2:
            procs.append({"name": rng.choice(ONE_SITE), "sites": [rng.randrange(L)], "strength": rng.choice([0.05, 0.1, 0.3])})
        else:
            i = rng.randrange(L - 1)
            procs.append({"name": rng.choice(TWO_SITE), "sites": [i, i + 1], "strength": rng.choice([0.05, 0.1, 0.3])})
    rng.shuffle(procs)
    return procs


def make_state(rng, L, kind):
    if kind == "random":
        nprng = np.random.default_rng(rng.randrange(1 << 30))
        chi = rng.choice([2, 3])
        dims = [1] + [chi] * (L - 1) + [1]
        ts = [nprng.normal(size=(2, dims[i], dims[i + 1])) + 1j * nprng.normal(size=(2, dims[i], dims[i + 1])) for i in range(L)]
        s = MPS(L, tensors=ts, physical_dimensions=[2] * L)
        s.normalize("B")
        return s
    return MPS(L, state=kind)


def random_circuit(rng, L, depth, barriers):
    from qiskit import QuantumCircuit

    qc = QuantumCircuit(L)
    for _ in range(depth):
        for q in range(L):
            g = rng.choice(["h", "rx", "rz", "x", "sx", "none"])
            if g == "h":
                qc.h(q)
            elif g == "rx":
                qc.rx(rng.uniform(0, 3), q)
            elif g == "rz":
                qc.rz(rng.uniform(0, 3), q)
            elif g == "x":
                qc.x(q)
            elif g == "sx":
                qc.sx(q)
        start = rng.choice([0, 1])
        for q in range(start, L - 1, 2):
            g = rng.choice(["cx", "cz", "rzz", "rxx", "cp", "cxr"])
            if g == "cx":
                qc.cx(q, q + 1)
            elif g == "cxr":
                qc.cx(q + 1, q)
            elif g == "cz":
                qc.cz(q, q + 1)
            elif g == "rzz":
                qc.rzz(rng.uniform(0, 2), q, q + 1)
            elif g == "rxx":
                qc.rxx(rng.uniform(0, 2), q, q + 1)
            else:
                qc.cp(rng.uniform(0, 2), q, q + 1)
        if barriers and rng.random() < 0.5:
            qc.barrier(label="SAMPLE_OBSERVABLES")
    return qc


def gen(rng, tier):
    nsplit = {"quick": 180, "thorough": 6000, "search": 300}.get(tier, 60)
    nsim = {"quick": 90, "thorough": 2500, "search": 150}.get(tier, 26)
    yield {"kind": "d16"}
    for i in range(nsim):
        yield {"kind": "sim", "sub": rng.randrange(1 << 30)}
        for _ in range(nsplit // max(nsim, 1) + 1):
            yield {"kind": "split-cap", "sub": rng.randrange(1 << 30)}
        yield {"kind": "two-cap", "sub": rng.randrange(1 << 30)}


def run_split_cap(inp):
    """forced spectra through the real split_mps_tensor with caps 1..7 (mostly not powers of d) and dynamic=True"""
    rng = random.Random(inp["sub"])
    nprng = np.random.default_rng(inp["sub"])
    d0, d1 = rng.choice([(2, 2), (2, 2), (3, 3), (2, 3)])
    dl, dr = rng.choice([2, 3, 4]), rng.choice([2, 3, 4])
    k = min(d0 * dl, d1 * dr)
    mode = rng.choice(["discarded_weight", "discarded_weight", "relative"])
    mn = rng.choice([1, 1, 2, 2, 3])
    mx = rng.choice([1, 2, 3, 3, 5, 5, 6, 7])
    dyn = rng.random() < 0.7
    s = c09.dyadic_spectrum(rng, k)
    if rng.random() < 0.6:  # full-rank flat-ish spectrum: truncation wants to keep everything
        s = sorted((rng.choice([1, 2, 3, 4]) / rng.choice([1, 2, 4]) for _ in range(k)), reverse=True)
    thr = rng.choice([0.0, 0.0, 2.0**-40, 2.0**-12]) if mode == "discarded_weight" else rng.choice([2.0**-30, 0.25])
    r = rng.random()
    if r < 0.15:  # the whole block weighs no more than the threshold: the truncation loop never breaks
        s = [v * 2.0**-12 for v in s]
        thr = float(sum(v * v for v in s)) * rng.choice([1.0, 2.0, 16.0]) if mode == "discarded_weight" else thr
    elif r < 0.2:
        s = [0.0] * k
    tensor, _ = c09.tensor_with_spectrum(nprng, d0, d1, dl, dr, s)
    sp = c09.params(mode, thr, mn, mx)
    rec = []
    exc = None
    with c09.patched_svd(tdvp_mod, "robust_svd", rec, force=list(s)):
        try:
            a0, a1 = tdvp_mod.split_mps_tensor(tensor, rng.choice(["left", "right", "sqrt"]), sp, [d0, d1], dynamic=dyn)
        except Exception as e:  # noqa: BLE001
            exc = type(e).__name__
    seen = rec[0]
    rule = "dw" if mode == "discarded_weight" else "rel"
    impl = "err" if exc else str(a0.shape[2])
    probs = []
    if exc:
        probs.append(f"split_mps_tensor raised {exc}")
    elif a0.shape[2] > max(mx, min(mn, len(seen))):
        probs.append(f"split kept {a0.shape[2]} > max(max_bond_dim={mx}, min_bond_dim={mn}) (dynamic={dyn}, mode={mode}, spectrum {list(seen)[:8]})")
    edge = c09.margin_edge(seen, thr) and not c09.float_sums_exact(seen) if rule == "dw" else False
    return {"req": f"{rule} {ib.frac(thr)} {mn} {mx} | {ib.fracs(seen)}", "impl": impl, "edge": bool(edge),
            "oracle": {"ok": not probs, "detail": "; ".join(probs) or f"kept {impl} <= cap"},
            "sig": f"splitcap:{rule}:{len(seen)}:{impl}:{mn}:{mx}:{dyn}", "nontrivial": impl != "err" and int(impl) < len(seen)}


def run_sim(inp):
    rng = random.Random(inp["sub"])
    L = rng.choice([3, 4, 5])
    mx = rng.choice([1, 2, 3, 3, 4, 5, 6, 7])
    mn = rng.choice([1, 2, 2, 3])
    mode = rng.choice(["discarded_weight", "discarded_weight", "relative"])
    thr = rng.choice([1e-12, 1e-9, 1e-6]) if mode == "discarded_weight" else rng.choice([1e-6, 1e-2])
    noisy = rng.random() < 0.6
    if mx == 1 and mn == 1:
        noisy = False  # with noise this is the D16 point (SVD centre shift floor), probed by its own case
    flavour = rng.choice(["analog1", "analog2", "analog2", "bug", "strong", "strong", "weak"])
    state_kind = rng.choice(["zeros", "x+", "Neel", "wall", "random", "y+"])
    state = make_state(rng, L, state_kind)
    init = [int(t.shape[2]) for t in state.tensors[:-1]]
    noise = NoiseModel(make_noise(rng, L)) if noisy else None
    obs = [Observable(Z(), i) for i in range(L)] + [Observable(X(), 0)]
    rec = Recorder()
    restore = instrument(rec)
    err = None
    try:
        if flavour in ("analog1", "analog2", "bug"):
            ham = MPO.ising(L, 1.0, 0.8) if rng.random() < 0.5 else MPO.heisenberg(L, 1.0, 0.7, 0.4, 0.3)
            sp = AnalogSimParams(obs, elapsed_time=0.3, dt=0.1, num_traj=2 if noisy else 1, max_bond_dim=mx, min_bond_dim=mn,
                                 trunc_mode=mode, threshold=thr, order=1 if flavour == "analog1" else 2,
                                 sample_timesteps=rng.random() < 0.7, show_progress=False,
                                 evolution_mode=EvolutionMode.BUG if flavour == "bug" else EvolutionMode.TDVP)
            simulator.run(state, ham, sp, noise, parallel=False)
        else:
            qc = random_circuit(rng, L, rng.choice([2, 3, 4]), barriers=(flavour == "strong"))
            if flavour == "strong":
                sp = StrongSimParams(obs, num_traj=2 if noisy else 1, max_bond_dim=mx, min_bond_dim=mn, trunc_mode=mode,
                                     threshold=thr, sample_layers=rng.random() < 0.6, show_progress=False)
            else:
                qc.measure_all()
                sp = WeakSimParams(shots=3, max_bond_dim=mx, min_bond_dim=mn, trunc_mode=mode, threshold=thr, show_progress=False)
            simulator.run(state, qc, sp, noise, parallel=False)
    except Exception as e:  # noqa: BLE001
        err = f"{type(e).__name__}: {e}"
    finally:
        restore()
    out = []
    seen_sig = set()
    for kind, req, impl, edge, sig in rec.ops:
        if sig in seen_sig or len(seen_sig) >= 40:
            continue
        seen_sig.add(sig)
        out.append({"req": req, "impl": impl, "edge": edge, "oracle": None, "kind": f"sim-{kind}", "sig": sig,
                    "nontrivial": kind != "qr"})
    # invariant on the bond vectors at the sampling points
    allowed = [max(mx, mn, b) for b in init]
    worst = None
    for where, bonds in rec.snaps:
        if len(bonds) != len(init):
            continue
        for i, b in enumerate(bonds):
            if b > allowed[i] and (worst is None or b - allowed[i] > worst[3] - worst[4]):
                worst = (where, i, bonds, b, allowed[i])
    meta = f"{flavour} L={L} max={mx} min={mn} {mode} thr={thr} noise={noisy} state={state_kind}"
    probs = []
    if err:
        probs.append(f"simulation raised {err}")
    if worst:
        probs.append(f"bond {worst[1]} = {worst[3]} > max(max_bond_dim, min_bond_dim, initial) = {worst[4]} at {worst[0]} (bonds {worst[2]}, initial {init})")
    if rec.snaps:
        last = rec.snaps[-1][1]
        widest = max(rec.snaps, key=lambda s: max(s[1]) if s[1] else 0)[1]
        for tag, vec in (("inv", widest), ("invfull", last)):
            if len(vec) == len(init):
                out.append({"req": f"{tag} {mx} {mn} | {' '.join(map(str, init))} | {' '.join(map(str, vec))}",
                            "impl": "ok" if not worst else None, "edge": worst is not None, "oracle": None, "kind": "sim-inv",
                            "sig": f"inv:{mx}:{mn}:{init}:{vec}", "nontrivial": max(vec) >= min(mx, 2)})
    if rec.unexplained:
        probs.append(f"bond changed without a recorded primitive: {rec.unexplained[:3]} — the model's op set does not cover the code")
    out.append({"req": None, "impl": None, "oracle": {"ok": not probs, "detail": "; ".join(probs) or f"{meta}: {len(rec.snaps)} sampling points, max bond {max((max(b) for _, b in rec.snaps if b), default=0)}"},
                "kind": "sim", "sig": f"sim:{flavour}:{L}:{mx}:{mn}:{mode}:{noisy}:{state_kind}", "meta": meta})
    return out


def run_d16(inp):
    """the point excluded by c08_full: max_bond_dim = min_bond_dim = 1 with noise (known finding D16)"""
    from mqt.yaqs.core.methods.dissipation import apply_dissipation

    L = 4
    state = MPS(L, state="x+")
    sp = AnalogSimParams([Observable(Z(), 0)], elapsed_time=0.1, dt=0.1, max_bond_dim=1, min_bond_dim=1, show_progress=False)
    noise = NoiseModel([{"name": "lowering", "sites": [i], "strength": 0.1} for i in range(L)])
    apply_dissipation(state, noise, 0.1, sp)
    bonds = [int(t.shape[2]) for t in state.tensors[:-1]]
    bad = [b for b in bonds if b > 1]
    out = [{"req": f"inv 1 1 | 1 1 1 | {' '.join(map(str, bonds))}", "impl": "ok" if max(bonds) <= 2 else "viol", "oracle": None,
            "kind": "d16-inv", "sig": "d16-inv"}]
    out.append({"req": None, "impl": None, "kind": "d16", "key": KEY_D16, "sig": "d16",
                "oracle": {"ok": not bad, "detail": f"bonds after apply_dissipation with max_bond_dim=min_bond_dim=1: {bonds}"}})
    return out


def run_two_cap(inp):
    """two_site_svd (canonicalisation with SVD, MPS.truncate, BUG's closing truncation) with small caps incl. 1"""
    out = c09.run_two(dict(inp, kind="two-forced"), True)
    return dict(out, kind="two-cap")


def run(inp):
    k = inp["kind"]
    if k == "two-cap":
        return run_two_cap(inp)
    if k == "split-cap":
        return run_split_cap(inp)
    if k == "sim":
        return run_sim(inp)
    if k == "d16":
        return run_d16(inp)
    if k == "fixed":
        return c09.run_fixed(inp)
    raise ValueError(k)


def spec():
    return [{"name": "hypotheses of c08_svd_le on every SVD centre shift seen: weight beyond the old bond < threshold (numerical rank), total weight >= threshold (state not numerically zero)",
             "ok": SPEC["hyp_rank_fail"] == 0, "n": SPEC["svd_calls"], "rank_hypothesis_failures": SPEC["hyp_rank_fail"],
             "zero_state_cases": SPEC["hyp_zero_state"], "detail": SPEC["detail"]}]


if __name__ == "__main__":
    ib.main("C08", gen, run, driver="Rank",
            rule="whole simulations (analog order 1/2, TDVP/BUG, digital strong/weak; noise on/off; caps 1..7, min bond 1..3, both "
                 "truncation modes; product and random initial states) with every bond-changing primitive recorded, plus forced "
                 "spectra through split_mps_tensor with non-power-of-d caps and dynamic=True; distinct = distinct primitive "
                 "signatures (rule, spectrum length, kept rank, cap, flag) / simulation configurations",
            trusted_base=["numerical-rank hypothesis of the SVD centre shift (spec-tied on every call seen)"],
            assumptions=["bond-changing primitives are exactly split_mps_tensor, two_site_svd, right_qr/np.linalg.qr (coverage-checked: every bond change between sampling points is explained by a recorded primitive output)"],
            spec=spec)
