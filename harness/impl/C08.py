"""C08 — implementation side: the bond dimension never exceeds the user's cap.

value tie : kept rank of the real split_mps_tensor on forced spectra (caps that are not powers of d, dynamic flag) vs
            Model.Rank (shared with C09).
trace tie : whole simulations (analog TJM order 1/2, TDVP/BUG, digital strong/weak, with and without noise) run with
            every bond-changing primitive wrapped (split_mps_tensor, two_site_svd, right_qr); every call becomes a
            request for the driver (spectrum the code saw -> kept rank; shape -> QR bond); the bond vectors seen at the
            sampling points are handed to the model's invariant (`inv`).  Coverage: every bond that changed between two
            sampling points must be explained by a recorded primitive.
spec tie  : hypotheses of theorem c08_svd_le on every SVD shift seen (numerical rank <= old bond, state not numerically 0).
oracle    : at every sampling point every bond <= max(max_bond_dim, min_bond_dim, initial bond).
"""
from __future__ import annotations

import random
import sys
import warnings

import numpy as np

import implbase as ib

warnings.simplefilter("ignore")

import C09 as c09  # noqa: E402  (forced-spectrum machinery)
from mqt.yaqs import simulator  # noqa: E402
from mqt.yaqs.core.data_structures.networks import MPO, MPS  # noqa: E402
from mqt.yaqs.core.data_structures.noise_model import NoiseModel  # noqa: E402
from mqt.yaqs.core.data_structures.simulation_parameters import (  # noqa: E402
    AnalogSimParams,
    EvolutionMode,
    Observable,
    StrongSimParams,
    WeakSimParams,
)
from mqt.yaqs.core.libraries.gate_library import X, Z  # noqa: E402
from mqt.yaqs.core.methods import decompositions as dec_mod  # noqa: E402
from mqt.yaqs.core.methods import tdvp as tdvp_mod  # noqa: E402

KEY_D16 = "C08:svd-centre-shift-floor2:max_bond_dim=1,min_bond_dim=1"
KEY_D31 = "C08:zero-state-after-zero-weight-jump"
SPEC = {"svd_calls": 0, "hyp_rank_fail": 0, "hyp_zero_state": 0, "detail": ""}


def patch_everywhere(orig, wrapper):
    """replace every module-level reference to `orig` inside mqt.yaqs by `wrapper`; returns an undo function"""
    done = []
    for name, mod in list(sys.modules.items()):
        if not name.startswith("mqt.yaqs") or mod is None:
            continue
        for attr, val in list(vars(mod).items()):
            if val is orig:
                setattr(mod, attr, wrapper)
                done.append((mod, attr))

    def undo():
        for mod, attr in done:
            setattr(mod, attr, orig)

    return undo


class Recorder:
    def __init__(self):
        self.ops = []          # (kind, req, impl, edge)
        self.outputs = set()   # bond values produced by primitives since the last snapshot
        self.snaps = []        # bond vectors at sampling points
        self.unexplained = []
        self.last = None
        self.seed = 0
        self.history = []
        self._s = []

    def snapshot(self, state, where):
        bonds = [int(t.shape[2]) for t in state.tensors[:-1]]
        # a value is explained if a primitive produced it since the last sampling point, or if that bond already had
        # it at an earlier sampling point (new trajectory from the initial state; TJM-2 samples a copy)
        if self.last is not None and len(self.last) == len(bonds):
            for i, (a, b) in enumerate(zip(self.last, bonds)):
                if a != b and b not in self.outputs and b not in self.history[i]:
                    self.unexplained.append((where, i, a, b))
        else:
            self.history = [set() for _ in bonds]
        for i, b in enumerate(bonds):
            self.history[i].add(b)
        self.last = bonds
        self.outputs = set()
        self.snaps.append((where, bonds))


def instrument(rec: Recorder):
    undo = []
    orig_rsvd_t = tdvp_mod.robust_svd
    orig_split = tdvp_mod.split_mps_tensor
    orig_two = dec_mod.two_site_svd
    orig_rsvd_d = dec_mod.robust_svd
    orig_qr = dec_mod.right_qr
    orig_npqr = np.linalg.qr

    def rsvd_t(a, *args, **kw):
        u, s, v = orig_rsvd_t(a, *args, **kw)
        rec._s.append(np.array(s))
        return u, s, v

    def split(tensor, dist, sim_params, dims, *, dynamic):
        rec._s = []
        a0, a1 = orig_split(tensor, dist, sim_params, dims, dynamic=dynamic)
        keep = int(a0.shape[2])
        rec.outputs.add(keep)
        if rec._s:
            s = rec._s[-1]
            mode = sim_params.trunc_mode
            rule = "dw" if mode == "discarded_weight" else "rel"
            thr = float(sim_params.threshold)
            edge = c09.margin_edge(s, thr) if rule == "dw" else any(
                abs(float(v) / float(s[0]) - thr) <= 1e-9 * max(thr, 1e-300) for v in s) if float(s[0]) > 0 else False
            rec.ops.append(("split", f"{rule} {ib.frac(thr)} {int(sim_params.min_bond_dim)} {int(sim_params.max_bond_dim)} | {ib.fracs(s)}",
                            str(keep), bool(edge), f"split:{rule}:{len(s)}:{keep}:{int(sim_params.max_bond_dim)}:{dynamic}"))
        return a0, a1

    def rsvd_d(a, *args, **kw):
        u, s, v = orig_rsvd_d(a, *args, **kw)
        rec._s.append(np.array(s))
        return u, s, v

    def two(a, b, threshold, max_bond_dim=None):
        rec._s = []
        an, bn = orig_two(a, b, threshold, max_bond_dim)
        keep = int(an.shape[2])
        rec.outputs.add(keep)
        if rec._s:
            s = rec._s[-1]
            chi = int(a.shape[2])
            SPEC["svd_calls"] += 1
            tail = float(np.sum(np.asarray(s[chi:], dtype=float) ** 2))
            tot = float(np.sum(np.asarray(s, dtype=float) ** 2))
            if not tail < threshold:
                SPEC["hyp_rank_fail"] += 1
                SPEC["detail"] = f"tailWeight beyond old bond {chi} is {tail:.3e} >= thr {threshold}"
            if not tot >= threshold:
                SPEC["hyp_zero_state"] += 1
            edge = c09.margin_edge(s, threshold)
            rec.ops.append(("svd", f"two {ib.frac(threshold)} {'none' if max_bond_dim is None else int(max_bond_dim)} | {ib.fracs(s)}",
                            str(keep), bool(edge), f"two:{len(s)}:{keep}:{max_bond_dim}:{chi}"))
        return an, bn

    def qr(t):
        q, r = orig_qr(t)
        d, l, rr = (int(x) for x in t.shape)
        out = int(q.shape[2])
        rec.outputs.add(out)
        rec.ops.append(("qr", f"qr {d} {l} {rr}", str(out), False, f"qr:{d}:{l}:{rr}"))
        return q, r

    def npqr(m, *args, **kw):
        res = orig_npqr(m, *args, **kw)
        try:
            rec.outputs.add(int(res[0].shape[1]))
        except Exception:  # noqa: BLE001
            pass
        return res

    tdvp_mod.robust_svd = rsvd_t
    dec_mod.robust_svd = rsvd_d
    undo.append(lambda: setattr(tdvp_mod, "robust_svd", orig_rsvd_t))
    undo.append(lambda: setattr(dec_mod, "robust_svd", orig_rsvd_d))
    undo.append(patch_everywhere(orig_split, split))
    undo.append(patch_everywhere(orig_two, two))
    undo.append(patch_everywhere(orig_qr, qr))
    np.linalg.qr = npqr
    undo.append(lambda: setattr(np.linalg, "qr", orig_npqr))

    orig_eval = MPS.evaluate_observables
    orig_shots = MPS.measure_shots

    def ev(self, *a, **k):
        rec.snapshot(self, "evaluate")
        return orig_eval(self, *a, **k)

    def shots(self, *a, **k):
        rec.snapshot(self, "measure_shots")
        return orig_shots(self, *a, **k)

    MPS.evaluate_observables = ev
    MPS.measure_shots = shots
    # trajectories draw from an unseeded generator; seed it from the case so that a run is reproducible from VERIF_SEED
    orig_rng = np.random.default_rng
    counter = {"n": 0}

    def seeded_rng(*a, **k):
        if a or k:
            return orig_rng(*a, **k)
        counter["n"] += 1
        return orig_rng([rec.seed, counter["n"]])

    np.random.default_rng = seeded_rng
    undo.append(lambda: setattr(np.random, "default_rng", orig_rng))
    undo.append(lambda: setattr(MPS, "evaluate_observables", orig_eval))
    undo.append(lambda: setattr(MPS, "measure_shots", orig_shots))

    def restore():
        for u in reversed(undo):
            u()

    return restore


ONE_SITE = ["lowering", "raising", "pauli_z", "pauli_x", "pauli_y"]
TWO_SITE = ["lowering_two", "raising_two", "crosstalk_xx", "crosstalk_zz", "crosstalk_xy"]


def make_noise(rng, L):
    procs = []
    for _ in range(rng.randrange(1, 5)):
        if rng.random() < 0.55 or L < 2:
            procs.append({"name": rng.choice(ONE_SITE), "sites": [rng.randrange(L)], "strength": rng.choice([0.05, 0.1, 0.3])})
        else:
            i = rng.randrange(L - 1)
            procs.append({"name": rng.choice(TWO_SITE), "sites": [i, i + 1], "strength": rng.choice([0.05, 0.1, 0.3])})
    rng.shuffle(procs)
    return procs


def make_state(rng, L, kind):
    if kind == "random":
        nprng = np.random.default_rng(rng.randrange(1 << 30))
        chi = rng.choice([2, 3])
        dims = [1] + [chi] * (L - 1) + [1]
        ts = [nprng.normal(size=(2, dims[i], dims[i + 1])) + 1j * nprng.normal(size=(2, dims[i], dims[i + 1])) for i in range(L)]
        s = MPS(L, tensors=ts, physical_dimensions=[2] * L)
        s.normalize("B")
        return s
    return MPS(L, state=kind)


def random_circuit(rng, L, depth, barriers):
    from qiskit import QuantumCircuit

    qc = QuantumCircuit(L)
    for _ in range(depth):
        for q in range(L):
            g = rng.choice(["h", "rx", "rz", "x", "sx", "none"])
            if g == "h":
                qc.h(q)
            elif g == "rx":
                qc.rx(rng.uniform(0, 3), q)
            elif g == "rz":
                qc.rz(rng.uniform(0, 3), q)
            elif g == "x":
                qc.x(q)
            elif g == "sx":
                qc.sx(q)
        start = rng.choice([0, 1])
        for q in range(start, L - 1, 2):
            g = rng.choice(["cx", "cz", "rzz", "rxx", "cp", "cxr"])
            if g == "cx":
                qc.cx(q, q + 1)
            elif g == "cxr":
                qc.cx(q + 1, q)
            elif g == "cz":
                qc.cz(q, q + 1)
            elif g == "rzz":
                qc.rzz(rng.uniform(0, 2), q, q + 1)
            elif g == "rxx":
                qc.rxx(rng.uniform(0, 2), q, q + 1)
            else:
                qc.cp(rng.uniform(0, 2), q, q + 1)
        if barriers and rng.random() < 0.5:
            qc.barrier(label="SAMPLE_OBSERVABLES")
    return qc


def gen(rng, tier):
    nsplit = {"quick": 180, "thorough": 6000, "search": 300}.get(tier, 60)
    nsim = {"quick": 90, "thorough": 2500, "search": 150}.get(tier, 26)
    yield {"kind": "d16"}
    for i in range(nsim):
        yield {"kind": "sim", "sub": rng.randrange(1 << 30)}
        for _ in range(nsplit // max(nsim, 1) + 1):
            yield {"kind": "split-cap", "sub": rng.randrange(1 << 30)}
        yield {"kind": "two-cap", "sub": rng.randrange(1 << 30)}


def run_split_cap(inp):
    """forced spectra through the real split_mps_tensor with caps 1..7 (mostly not powers of d) and dynamic=True"""
    rng = random.Random(inp["sub"])
    nprng = np.random.default_rng(inp["sub"])
    d0, d1 = rng.choice([(2, 2), (2, 2), (3, 3), (2, 3)])
    dl, dr = rng.choice([2, 3, 4]), rng.choice([2, 3, 4])
    k = min(d0 * dl, d1 * dr)
    mode = rng.choice(["discarded_weight", "discarded_weight", "relative"])
    mn = rng.choice([1, 1, 2, 2, 3])
    mx = rng.choice([1, 2, 3, 3, 5, 5, 6, 7])
    dyn = rng.random() < 0.7
    s = c09.dyadic_spectrum(rng, k)
    if rng.random() < 0.6:  # full-rank flat-ish spectrum: truncation wants to keep everything
        s = sorted((rng.choice([1, 2, 3, 4]) / rng.choice([1, 2, 4]) for _ in range(k)), reverse=True)
    thr = rng.choice([0.0, 0.0, 2.0**-40, 2.0**-12]) if mode == "discarded_weight" else rng.choice([2.0**-30, 0.25])
    r = rng.random()
    if r < 0.15:  # the whole block weighs no more than the threshold: the truncation loop never breaks
        s = [v * 2.0**-12 for v in s]
        thr = float(sum(v * v for v in s)) * rng.choice([1.0, 2.0, 16.0]) if mode == "discarded_weight" else thr
    elif r < 0.2:
        s = [0.0] * k
    tensor, _ = c09.tensor_with_spectrum(nprng, d0, d1, dl, dr, s)
    sp = c09.params(mode, thr, mn, mx)
    rec = []
    exc = None
    with c09.patched_svd(tdvp_mod, "robust_svd", rec, force=list(s)):
        try:
            a0, a1 = tdvp_mod.split_mps_tensor(tensor, rng.choice(["left", "right", "sqrt"]), sp, [d0, d1], dynamic=dyn)
        except Exception as e:  # noqa: BLE001
            exc = type(e).__name__
    seen = rec[0]
    rule = "dw" if mode == "discarded_weight" else "rel"
    impl = "err" if exc else str(a0.shape[2])
    probs = []
    if exc:
        probs.append(f"split_mps_tensor raised {exc}")
    elif a0.shape[2] > max(mx, min(mn, len(seen))):
        probs.append(f"split kept {a0.shape[2]} > max(max_bond_dim={mx}, min_bond_dim={mn}) (dynamic={dyn}, mode={mode}, spectrum {list(seen)[:8]})")
    edge = c09.margin_edge(seen, thr) and not c09.float_sums_exact(seen) if rule == "dw" else False
    return {"req": f"{rule} {ib.frac(thr)} {mn} {mx} | {ib.fracs(seen)}", "impl": impl, "edge": bool(edge),
            "oracle": {"ok": not probs, "detail": "; ".join(probs) or f"kept {impl} <= cap"},
            "sig": f"splitcap:{rule}:{len(seen)}:{impl}:{mn}:{mx}:{dyn}", "nontrivial": impl != "err" and int(impl) < len(seen)}


def run_sim(inp):
    rng = random.Random(inp["sub"])
    L = rng.choice([3, 4, 5])
    mx = rng.choice([1, 2, 3, 3, 4, 5, 6, 7])
    mn = rng.choice([1, 2, 2, 3])
    mode = rng.choice(["discarded_weight", "discarded_weight", "relative"])
    thr = rng.choice([1e-12, 1e-9, 1e-6]) if mode == "discarded_weight" else rng.choice([1e-6, 1e-2])
    noisy = rng.random() < 0.6
    if mx == 1 and mn == 1:
        noisy = False  # with noise this is the D16 point (SVD centre shift floor), probed by its own case
    flavour = rng.choice(["analog1", "analog2", "analog2", "bug", "strong", "strong", "weak", "qutrit1", "qutrit2"])
    qutrit = flavour.startswith("qutrit")
    if qutrit:
        # three-level sites (Bose-Hubbard): the caps must hold for every physical dimension, and the library's noise names are
        # qubit operators, so the processes carry an explicit 3x3 matrix
        from mqt.yaqs.core.libraries.gate_library import Destroy  # noqa: PLC0415

        L = rng.choice([3, 4])
        state_kind = "fock:" + "".join(rng.choice("012") for _ in range(L))
        state = MPS(L, state="basis", basis_string=state_kind[5:], physical_dimensions=[3] * L)
        a = Destroy(3).matrix
        noise = NoiseModel([{"name": "photon_loss", "sites": [i], "strength": rng.choice([0.05, 0.2]), "matrix": a}
                            for i in range(L) if rng.random() < 0.8] or [{"name": "photon_loss", "sites": [0], "strength": 0.1, "matrix": a}]) if noisy else None
        obs = [Observable("total_bond"), Observable("max_bond")]
    else:
        state_kind = rng.choice(["zeros", "x+", "Neel", "wall", "random", "y+"])
        state = make_state(rng, L, state_kind)
        noise = NoiseModel(make_noise(rng, L)) if noisy else None
        obs = [Observable(Z(), i) for i in range(L)] + [Observable(X(), 0)]
    init = [int(t.shape[2]) for t in state.tensors[:-1]]
    rec = Recorder()
    rec.seed = int(inp["sub"]) % (2**31)
    zero0 = SPEC["hyp_zero_state"]
    restore = instrument(rec)
    err = None
    try:
        if flavour in ("analog1", "analog2", "bug") or qutrit:
            if qutrit:
                ham = MPO.bose_hubbard(L, 3, 1.0, 0.5, 0.3)
            else:
                ham = MPO.ising(L, 1.0, 0.8) if rng.random() < 0.5 else MPO.heisenberg(L, 1.0, 0.7, 0.4, 0.3)
            sp = AnalogSimParams(obs, elapsed_time=0.3, dt=0.1, num_traj=2 if noisy else 1, max_bond_dim=mx, min_bond_dim=mn,
                                 trunc_mode=mode, threshold=thr, order=1 if flavour in ("analog1", "qutrit1") else 2,
                                 sample_timesteps=rng.random() < 0.7, show_progress=False,
                                 evolution_mode=EvolutionMode.BUG if flavour == "bug" else EvolutionMode.TDVP)
            simulator.run(state, ham, sp, noise, parallel=False)
        else:
            qc = random_circuit(rng, L, rng.choice([2, 3, 4]), barriers=(flavour == "strong"))
            if flavour == "strong":
                sp = StrongSimParams(obs, num_traj=2 if noisy else 1, max_bond_dim=mx, min_bond_dim=mn, trunc_mode=mode,
                                     threshold=thr, sample_layers=rng.random() < 0.6, show_progress=False)
            else:
                qc.measure_all()
                sp = WeakSimParams(shots=3, max_bond_dim=mx, min_bond_dim=mn, trunc_mode=mode, threshold=thr, show_progress=False)
            simulator.run(state, qc, sp, noise, parallel=False)
    except Exception as e:  # noqa: BLE001
        err = f"{type(e).__name__}: {e}"
    finally:
        restore()
    out = []
    seen_sig = set()
    for kind, req, impl, edge, sig in rec.ops:
        if sig in seen_sig or len(seen_sig) >= 40:
            continue
        seen_sig.add(sig)
        out.append({"req": req, "impl": impl, "edge": edge, "oracle": None, "kind": f"sim-{kind}", "sig": sig,
                    "nontrivial": kind != "qr"})
    # invariant on the bond vectors at the sampling points
    allowed = [max(mx, mn, b) for b in init]
    worst = None
    for where, bonds in rec.snaps:
        if len(bonds) != len(init):
            continue
        for i, b in enumerate(bonds):
            if b > allowed[i] and (worst is None or b - allowed[i] > worst[3] - worst[4]):
                worst = (where, i, bonds, b, allowed[i])
    meta = f"{flavour} L={L} max={mx} min={mn} {mode} thr={thr} noise={noisy} state={state_kind}"
    probs = []
    if err:
        probs.append(f"simulation raised {err}")
    if worst:
        probs.append(f"bond {worst[1]} = {worst[3]} > max(max_bond_dim, min_bond_dim, initial) = {worst[4]} at {worst[0]} (bonds {worst[2]}, initial {init})")
    if rec.snaps:
        last = rec.snaps[-1][1]
        widest = max(rec.snaps, key=lambda s: max(s[1]) if s[1] else 0)[1]
        for tag, vec in (("inv", widest), ("invfull", last)):
            if len(vec) == len(init):
                out.append({"req": f"{tag} {mx} {mn} | {' '.join(map(str, init))} | {' '.join(map(str, vec))}",
                            "impl": "ok" if not worst else None, "edge": worst is not None, "oracle": None, "kind": "sim-inv",
                            "sig": f"inv:{mx}:{mn}:{init}:{vec}", "nontrivial": max(vec) >= min(mx, 2)})
    if rec.unexplained:
        probs.append(f"bond changed without a recorded primitive: {rec.unexplained[:3]} — the model's op set does not cover the code")
    key = None
    if worst and not err and not rec.unexplained and SPEC["hyp_zero_state"] > zero0:
        # known finding D31: the bond excess follows an SVD normalisation of a numerically zero state (a jump was drawn although
        # every process has zero weight, because norm lost to truncation is read as jump probability)
        key = KEY_D31
        probs.append(f"{SPEC['hyp_zero_state'] - zero0} SVD shifts of this run saw a state of squared norm below their threshold")
    case = {"req": None, "impl": None, "oracle": {"ok": not probs, "detail": "; ".join(probs) or f"{meta}: {len(rec.snaps)} sampling points, max bond {max((max(b) for _, b in rec.snaps if b), default=0)}"},
            "kind": "sim", "sig": f"sim:{flavour}:{L}:{mx}:{mn}:{mode}:{noisy}:{state_kind}", "meta": meta}
    if key:
        case["key"] = key
    out.append(case)
    return out


def run_d16(inp):
    """the point excluded by c08_full: max_bond_dim = min_bond_dim = 1 with noise (known finding D16)"""
    from mqt.yaqs.core.methods.dissipation import apply_dissipation

    L = 4
    state = MPS(L, state="x+")
    sp = AnalogSimParams([Observable(Z(), 0)], elapsed_time=0.1, dt=0.1, max_bond_dim=1, min_bond_dim=1, show_progress=False)
    noise = NoiseModel([{"name": "lowering", "sites": [i], "strength": 0.1} for i in range(L)])
    apply_dissipation(state, noise, 0.1, sp)
    bonds = [int(t.shape[2]) for t in state.tensors[:-1]]
    bad = [b for b in bonds if b > 1]
    out = [{"req": f"inv 1 1 | 1 1 1 | {' '.join(map(str, bonds))}", "impl": "ok" if max(bonds) <= 2 else "viol", "oracle": None,
            "kind": "d16-inv", "sig": "d16-inv"}]
    out.append({"req": None, "impl": None, "kind": "d16", "key": KEY_D16, "sig": "d16",
                "oracle": {"ok": not bad, "detail": f"bonds after apply_dissipation with max_bond_dim=min_bond_dim=1: {bonds}"}})
    return out


def run_two_cap(inp):
    """two_site_svd (canonicalisation with SVD, MPS.truncate, BUG's closing truncation) with small caps incl. 1"""
    out = c09.run_two(dict(inp, kind="two-forced"), True)
    return dict(out, kind="two-cap")


def run(inp):
    k = inp["kind"]
    if k == "two-cap":
        return run_two_cap(inp)
    if k == "split-cap":
        return run_split_cap(inp)
    if k == "sim":
        return run_sim(inp)
    if k == "d16":
        return run_d16(inp)
    if k == "fixed":
        return c09.run_fixed(inp)
    raise ValueError(k)


def spec():
    return [{"name": "hypotheses of c08_svd_le on every SVD centre shift seen: weight beyond the old bond < threshold (numerical rank), total weight >= threshold (state not numerically zero)",
             "ok": SPEC["hyp_rank_fail"] == 0, "n": SPEC["svd_calls"], "rank_hypothesis_failures": SPEC["hyp_rank_fail"],
             "zero_state_cases": SPEC["hyp_zero_state"], "detail": SPEC["detail"]}]


# =====================================================================================================================
# extension (Model.SweepBonds): the ACTUAL operation sequences of the code, with the bond every primitive acts on
#
# trace tie : the real `local_dynamic_tdvp` / `two_site_tdvp` / `single_site_tdvp` / `bug` / `analog_tjm.step_through`
#             (several steps in a row) / `digital_tjm` (one case per two-qubit gate step) run with every bond-changing
#             primitive recorded (split_mps_tensor, two_site_svd, right_qr, np.linalg.qr, bug.find_new_q) AND the bond
#             it acts on.  The bond is recovered from where the primitive's output tensor is stored: `state.tensors`
#             is replaced by a list subclass that logs every `__setitem__` (index, flipped flag of the owner, value);
#             the first store of the output object (or of a view of it) after the call gives the site, the flipped
#             flag / the neighbour stored next gives the direction of a QR shift.  Primitives whose output never
#             reaches `state.tensors` (deep copies in create_probability_distribution, QRs of
#             prepare_canonical_site_tensors) are not ops on the state.
#             request  `sweepbonds <fn> … | L mode thr min max | phys | init bonds | n2 | e0 | e1 | …` : the structure
#             parameters are inputs (noise model handed to apply_dissipation, process drawn by the lottery, gate sites
#             returned by apply_two_qubit_gate, centre returned by check_canonical_form), `e_k` the numbers the k-th op
#             saw.  The model computes the op list itself (decisions of local_dynamic_tdvp from the bond vector) and
#             must reproduce kind, bond, physical dimension and resulting bond dimension of every op and the bond
#             vector after the call.
# oracle    : after every call / step every bond <= max(max_bond_dim, min_bond_dim, initial bond).
# =====================================================================================================================
import copy as _copy  # noqa: E402

from mqt.yaqs.analog import analog_tjm as atjm_mod  # noqa: E402
from mqt.yaqs.core.methods import bug as bug_mod  # noqa: E402
from mqt.yaqs.core.methods import dissipation as diss_mod  # noqa: E402
from mqt.yaqs.core.methods import stochastic_process as sp_mod  # noqa: E402
from mqt.yaqs.digital import digital_tjm as dtjm_mod  # noqa: E402

SEQ = {"ops": 0, "off_state": 0, "dummy_qr": 0, "svd_thr_other": 0, "grow_formula_fail": 0, "detail": ""}


class TList(list):
    """`state.tensors` with every item store logged; copies are plain lists (copies of a state are not the state)"""

    def __init__(self, it, trace, owner, offset):
        super().__init__(it)
        self._trace, self._owner, self._offset = trace, owner, offset

    def __setitem__(self, idx, val):
        if isinstance(idx, int):
            o = self._owner
            n = len(self)
            j = idx if idx >= 0 else n + idx
            site = (n - 1 - j if o.flipped else j) + self._offset
            self._trace.log.append(("set", id(self), site, bool(o.flipped), val))
        super().__setitem__(idx, val)

    def __copy__(self):
        return list(self)

    def __deepcopy__(self, memo):
        return [_copy.deepcopy(t, memo) for t in self]

    def __reduce_ex__(self, protocol):
        return (list, (list(self),))


class OpTrace:
    def __init__(self):
        self.log = []
        self.tracked = {}   # id(state) -> (state, offset)
        self.depth = 0      # > 0 inside a wrapped primitive that itself calls np.linalg.qr
        self._s = []
        self.undo = []
        self.centres = []

    # ---- tracking of states
    def track(self, state, offset=0):
        if id(state) in self.tracked and isinstance(state.tensors, TList):
            return
        self.tracked[id(state)] = (state, offset)
        state.tensors = TList(state.tensors, self, state, offset)

    def untrack_all(self):
        for st, _ in self.tracked.values():
            if isinstance(st.tensors, TList):
                st.tensors = list(st.tensors)
        self.tracked = {}

    # ---- instrumentation
    def install(self):
        t = self
        orig_rsvd_t, orig_rsvd_d = tdvp_mod.robust_svd, dec_mod.robust_svd
        orig_split, orig_two, orig_rqr = tdvp_mod.split_mps_tensor, dec_mod.two_site_svd, dec_mod.right_qr
        orig_npqr = np.linalg.qr
        orig_flip = MPS.flip_network
        orig_newq = bug_mod.find_new_q
        orig_ccf = MPS.check_canonical_form
        orig_trunc = MPS.truncate

        def rsvd(orig):
            def f(a, *args, **kw):
                u, s, v = orig(a, *args, **kw)
                t._s.append(np.array(s))
                return u, s, v
            return f

        def split(tensor, dist, sim_params, dims, *, dynamic):
            t._s = []
            a0, a1 = orig_split(tensor, dist, sim_params, dims, dynamic=dynamic)
            s = t._s[-1] if t._s else np.array([])
            thr = float(sim_params.threshold)
            if sim_params.trunc_mode == "discarded_weight":
                edge = c09.margin_edge(s, thr)
            else:
                edge = bool(len(s)) and float(s[0]) > 0 and any(
                    abs(float(v) / float(s[0]) - thr) <= 1e-9 * max(thr, 1e-300) for v in s)
            t.log.append(("prim", "split", {"s": s, "keep": int(a0.shape[2]), "edge": bool(edge), "dynamic": dynamic}, a0))
            return a0, a1

        def two(a, b, threshold, max_bond_dim=None):
            t._s = []
            an, bn = orig_two(a, b, threshold, max_bond_dim)
            s = t._s[-1] if t._s else np.array([])
            chi = int(a.shape[2])
            SPEC["svd_calls"] += 1
            tail = float(np.sum(np.asarray(s[chi:], dtype=float) ** 2))
            tot = float(np.sum(np.asarray(s, dtype=float) ** 2))
            if max_bond_dim is None:
                if not tail < threshold:
                    SPEC["hyp_rank_fail"] += 1
                    SPEC["detail"] = f"tailWeight beyond old bond {chi} is {tail:.3e} >= thr {threshold}"
                if not tot >= threshold:
                    SPEC["hyp_zero_state"] += 1
            t.log.append(("prim", "svd" if max_bond_dim is None else "trunc",
                          {"s": s, "thr": float(threshold), "cap": max_bond_dim, "keep": int(an.shape[2]), "chi": chi,
                           "edge": bool(c09.margin_edge(s, threshold)), "zero": not tot >= threshold}, an))
            return an, bn

        def rqr(tensor):
            t.depth += 1
            try:
                q, r = orig_rqr(tensor)
            finally:
                t.depth -= 1
            t.log.append(("prim", "qr", {"d": int(tensor.shape[0]), "k": int(q.shape[2]), "r": int(tensor.shape[2])}, q))
            return q, r

        def npqr(m, *args, **kw):
            res = orig_npqr(m, *args, **kw)
            if t.depth == 0 and t.tracked:
                try:
                    t.log.append(("prim", "npqr", {"k": int(res[0].shape[1])}, res[0]))
                except Exception:  # noqa: BLE001
                    pass
            return res

        def newq(old_stack_tensor, updated_tensor):
            t.depth += 1
            try:
                q = orig_newq(old_stack_tensor, updated_tensor)
            finally:
                t.depth -= 1
            d, l2, r = int(old_stack_tensor.shape[0]), int(old_stack_tensor.shape[1] + updated_tensor.shape[1]), int(old_stack_tensor.shape[2])
            if int(q.shape[1]) != min(l2, d * r):
                SEQ["grow_formula_fail"] += 1
            t.log.append(("prim", "grow", {"v": int(q.shape[1])}, q))
            return q

        def flip(self_mps):
            orig_flip(self_mps)
            if id(self_mps) in t.tracked:
                self_mps.tensors = TList(self_mps.tensors, t, self_mps, t.tracked[id(self_mps)][1])

        def ccf(self_mps):
            res = orig_ccf(self_mps)
            if id(self_mps) in t.tracked:
                t.centres.append(list(res))
            return res

        tdvp_mod.robust_svd, dec_mod.robust_svd = rsvd(orig_rsvd_t), rsvd(orig_rsvd_d)
        self.undo.append(lambda: (setattr(tdvp_mod, "robust_svd", orig_rsvd_t), setattr(dec_mod, "robust_svd", orig_rsvd_d)))
        self.undo.append(patch_everywhere(orig_split, split))
        self.undo.append(patch_everywhere(orig_two, two))
        self.undo.append(patch_everywhere(orig_rqr, rqr))
        self.undo.append(patch_everywhere(orig_newq, newq))
        np.linalg.qr = npqr
        self.undo.append(lambda: setattr(np.linalg, "qr", orig_npqr))
        MPS.flip_network = flip
        MPS.check_canonical_form = ccf
        self.undo.append(lambda: (setattr(MPS, "flip_network", orig_flip), setattr(MPS, "check_canonical_form", orig_ccf)))
        _ = orig_trunc

    def restore(self):
        for u in reversed(self.undo):
            u()
        self.undo = []
        self.untrack_all()

    # ---- resolution of the log into ops with bonds
    def resolve(self, lo, hi, nbonds):
        """ops of log[lo:hi]: list of dicts {tok, ext, edge}; tok without the '=value' part"""
        log = self.log
        out = []
        for n in range(lo, hi):
            ev = log[n]
            if ev[0] != "prim":
                continue
            _, kind, dat, obj = ev
            land = None
            m = n + 1
            while m < len(log) and log[m][0] != "prim":
                v = log[m][4]
                if v is obj or (isinstance(v, np.ndarray) and np.shares_memory(v, obj)):
                    land = m
                    break
                m += 1
            if land is None:
                SEQ["off_state"] += 1
                continue
            _, lid, site, flipped, val = log[land]
            if kind == "split":
                out.append({"tok": f"split:{site}", "val": dat["keep"], "ext": "s " + ib.fracs(dat["s"]), "edge": dat["edge"]})
            elif kind in ("svd", "trunc"):
                bond = site - 1 if flipped else site
                if kind == "svd":
                    if dat["thr"] != 1e-12:
                        SEQ["svd_thr_other"] += 1
                    out.append({"tok": f"svd:{bond}", "val": dat["keep"], "ext": f"v {ib.frac(dat['thr'])} " + ib.fracs(dat["s"]), "edge": dat["edge"],
                                "zero": dat["zero"]})
                else:
                    out.append({"tok": f"trunc:{bond}:{int(dat['cap'])}", "val": dat["keep"], "ext": "t " + ib.fracs(dat["s"]), "edge": dat["edge"],
                                "thr": dat["thr"]})
            elif kind == "qr":
                bond = site - 1 if flipped else site
                if bond < 0 or bond >= nbonds:
                    SEQ["dummy_qr"] += 1
                    if dat["k"] != 1:
                        out.append({"tok": f"dummy-qr-not-1:{bond}", "val": dat["k"], "ext": "x", "edge": False})
                    continue
                out.append({"tok": f"{'qrl' if flipped else 'qr'}:{bond}:{dat['d']}", "val": dat["k"], "ext": "x", "edge": False})
            elif kind == "npqr":
                # direction: the neighbour that receives the R factor is stored next (same list)
                nxt = None
                for mm in range(land + 1, len(log)):
                    if log[mm][0] == "prim":
                        break
                    if log[mm][1] == lid and log[mm][2] != site:
                        nxt = log[mm][2]
                        break
                d = int(val.shape[0])
                if nxt == site + 1:
                    out.append({"tok": f"qr:{site}:{d}", "val": dat["k"], "ext": "x", "edge": False})
                elif nxt == site - 1:
                    out.append({"tok": f"qrl:{site - 1}:{d}", "val": dat["k"], "ext": "x", "edge": False})
                else:
                    out.append({"tok": f"qr?:{site}:{d}", "val": dat["k"], "ext": "x", "edge": False})
            elif kind == "grow":
                out.append({"tok": f"grow:{site - 1}", "val": dat["v"], "ext": f"g {dat['v']}", "edge": False})
        SEQ["ops"] += len(out)
        return out


class RecRng:
    """the rng handed to stochastic_process: real draws (optionally capped at 1e-3 for the jump test, so that a jump occurs
    whenever its total probability exceeds 1e-3), choices recorded"""

    def __init__(self, gen, force_jump=False):
        self.g, self.force, self.choice_idx, self.n_random = gen, force_jump, None, 0

    def random(self):
        self.n_random += 1
        r = self.g.random()
        return min(r, 1e-3) if self.force else r

    def choice(self, n, p=None):
        self.choice_idx = int(self.g.choice(n, p=p))
        return self.choice_idx


def bonds_of(state):
    return [int(t.shape[2]) for t in list(state.tensors)[:-1]]


def n2_of(noise, L):
    """number of non-Pauli adjacent two-site processes whose right site is i (what apply_dissipation splits)"""
    n2 = [0] * L
    if noise is not None:
        for p in noise.processes:
            if len(p["sites"]) == 2 and not diss_mod.is_pauli(p) and abs(p["sites"][1] - p["sites"][0]) == 1:
                n2[p["sites"][1]] += 1
    return n2


def noisy_of(noise):
    return not (noise is None or all(p["strength"] == 0 for p in noise.processes))


def jump_of(noise, rr):
    if rr is None or rr.choice_idx is None:
        return "none"
    sites = noise.processes[rr.choice_idx]["sites"]
    if len(sites) == 2 and abs(sites[1] - sites[0]) == 1:
        return f"stoch {min(sites)}"
    return "stoch -"


def seq_case(fn_head, L, sp, init, n2, ops, final, err, allowed, meta, sigx, model_err=False):
    """one tied case + its oracle from a resolved op list"""
    mode = "dw" if sp.trunc_mode == "discarded_weight" else "rel"
    head = f"sweepbonds {fn_head} | {L} {mode} {ib.frac(float(sp.threshold))} {int(sp.min_bond_dim)} {int(sp.max_bond_dim)}"
    req = " | ".join([head, " ".join(["2"] * L), " ".join(map(str, init)), " ".join(map(str, n2))] + [o["ext"] for o in ops])
    if err is not None:
        impl = "err" if model_err else f"raised {err}"
    else:
        impl = " ".join([f"{o['tok']}={o['val']}" for o in ops] + ["->"] + [str(b) for b in final])
    probs = []
    if err is None:
        over = [(i, b, a) for i, (b, a) in enumerate(zip(final, allowed)) if b > a]
        if over:
            probs.append(f"after {fn_head}: bond {over[0][0]} = {over[0][1]} > max(max_bond_dim, min_bond_dim, initial) = {over[0][2]} (bonds {final}, allowed {allowed})")
    elif not model_err:
        probs.append(f"{fn_head} raised {err}")
    kinds = sorted({o["tok"].split(":")[0] for o in ops})
    zero = any(o.get("zero") for o in ops)
    if zero:
        # an SVD centre shift on a numerically zero state (total weight < 1e-12, e.g. after a jump through a channel
        # of zero amplitude): outside the hypotheses of the invariant (OpOk: thr <= sqsum s) — counted, not judged
        SEQ["zero_state_steps"] = SEQ.get("zero_state_steps", 0) + 1
        if probs:
            SEQ["zero_state_over_cap"] = SEQ.get("zero_state_over_cap", 0) + 1
            SEQ["detail"] = probs[0] + " | " + meta
    return {"req": req, "impl": impl, "edge": any(o["edge"] for o in ops) or zero,
            "oracle": None if zero else {"ok": not probs, "detail": "; ".join(probs) or f"{meta}: bonds {init} -> {final} within {allowed}"},
            "kind": "seq-" + fn_head.split()[0], "sig": f"seq:{fn_head}:{L}:{int(sp.max_bond_dim)}:{int(sp.min_bond_dim)}:{mode}:{init}:{sigx}",
            "nontrivial": len(kinds) >= 1 and len(ops) >= 1, "meta": meta}


def seq_state(rng, L, mx):
    kind = rng.choice(["random", "random", "random", "x+", "Neel", "zeros"])
    if kind != "random" or L == 1:
        return kind, MPS(L, state=kind if kind != "random" else "x+")
    nprng = np.random.default_rng(rng.randrange(1 << 30))
    dmax = rng.choice([2, 3, 4, 5, 6, max(2, mx), max(2, mx + 1)])
    b = [1] * (L + 1)
    for i in range(1, L):
        b[i] = rng.randint(1, min(dmax, 2 * b[i - 1], 2 ** min(i, L - i)))
    for i in range(L - 1, 0, -1):
        b[i] = min(b[i], 2 * b[i + 1])
    if rng.random() < 0.2:
        # hand-made tensors with over-complete bonds (larger than d * the neighbouring bond): a QR centre shift then SHRINKS a
        # bond to d * (left bond) — the only way the `min` of the model's QR rule is decided by its first argument
        kind = "overcomplete"
        b = [1] + [rng.randint(1, dmax) for _ in range(L - 1)] + [1]
    ts = [nprng.normal(size=(2, b[i], b[i + 1])) + 1j * nprng.normal(size=(2, b[i], b[i + 1])) for i in range(L)]
    s = MPS(L, tensors=ts, physical_dimensions=[2] * L)
    if kind == "overcomplete" and rng.random() < 0.5:
        # left as it is (not brought to form B, which would already shrink every bond to d * its right neighbour): the first
        # right-to-left QR of the traced call then SHRINKS a bond — the `min` of the model's `qrl` rule decided by its first argument
        kind = "overcomplete-raw"
        nrm = s.norm() if hasattr(s, "norm") else 1.0
        nrm = float(np.sqrt(abs(nrm))) if nrm else 1.0
        s.tensors[0] = s.tensors[0] / (nrm if nrm > 0 else 1.0)
        return kind, s
    s.normalize("B")
    return kind, s


def seq_params(rng, analog=True, bugmode=False, dt=0.1):
    mx = rng.choice([1, 2, 2, 3, 3, 4, 4, 5, 6, 7])
    mn = rng.choice([1, 2, 2, 3])
    mode = rng.choice(["discarded_weight", "discarded_weight", "relative"])
    thr = rng.choice([1e-12, 1e-9, 1e-6, 1e-3]) if mode == "discarded_weight" else rng.choice([1e-6, 1e-2])
    obs = [Observable(Z(), 0)]
    if analog:
        sp = AnalogSimParams(obs, elapsed_time=dt, dt=dt, num_traj=1, max_bond_dim=mx, min_bond_dim=mn, trunc_mode=mode,
                             threshold=thr, order=1, sample_timesteps=False, show_progress=False,
                             evolution_mode=EvolutionMode.BUG if bugmode else EvolutionMode.TDVP)
    else:
        sp = StrongSimParams(obs, num_traj=1, max_bond_dim=mx, min_bond_dim=mn, trunc_mode=mode, threshold=thr,
                             sample_layers=False, show_progress=False)
    return sp, mx, mn


def seq_ham(rng, L):
    return MPO.ising(L, 1.0, 0.8) if rng.random() < 0.5 else MPO.heisenberg(L, 1.0, 0.7, 0.4, 0.3)


def run_seq_fn(inp):
    """one call of an integrator function on a state with random bonds"""
    rng = random.Random(inp["sub"])
    fn = inp["fn"]
    digital = rng.random() < 0.3 and fn != "bug"
    L = rng.choice([1, 2, 2, 3, 3, 4, 4, 5, 5, 6]) if fn != "bug" else rng.choice([2, 3, 4, 5])
    sp, mx, mn = seq_params(rng, analog=not digital, bugmode=(fn == "bug"), dt=rng.choice([0.05, 0.1, 0.3]))
    skind, state = seq_state(rng, L, mx)
    ham = seq_ham(rng, L)
    init = bonds_of(state)
    if init and rng.random() < 0.6:
        # a cap that bites at some bonds and not at others: one of the bond dimensions present (or one more)
        mx = max(1, rng.choice(init) + rng.choice([0, 0, 1]))
        sp.max_bond_dim = mx
    tr = OpTrace()
    tr.install()
    err = None
    try:
        tr.track(state)
        f = {"ldtdvp": tdvp_mod.local_dynamic_tdvp, "twosite": tdvp_mod.two_site_tdvp,
             "singlesite": tdvp_mod.single_site_tdvp, "bug": bug_mod.bug}[fn]
        try:
            f(state, ham, sp)
        except Exception as e:  # noqa: BLE001
            err = f"{type(e).__name__}"
        final = bonds_of(state)
        ops = tr.resolve(0, len(tr.log), L - 1)
    finally:
        tr.restore()
    if fn == "bug":
        c0 = tr.centres[-1][0] if tr.centres and tr.centres[-1] else 0
        head = f"bug {c0}"
    else:
        head = f"{fn} {1 if digital else 0}"
    allowed = [max(mx, mn, b) for b in init]
    meta = f"{fn} L={L} digital={digital} max={mx} min={mn} {sp.trunc_mode} thr={sp.threshold} state={skind}"
    model_err = fn == "twosite" and L < 2 and err == "ValueError"
    return seq_case(head, L, sp, init, [], ops, final, err, allowed, meta, f"{digital}:{[o['tok'] for o in ops]}", model_err)


def run_seq_analog(inp):
    """several real `step_through` calls in a row; one case per step"""
    rng = random.Random(inp["sub"])
    L = rng.choice([2, 3, 3, 4, 4, 5])
    bugmode = rng.random() < 0.3
    dt = rng.choice([0.1, 0.3, 0.5])
    sp, mx, mn = seq_params(rng, analog=True, bugmode=bugmode, dt=dt)
    noisy = rng.random() < 0.75
    if mx == 1 and mn == 1:
        noisy = False  # D16 point, probed by its own case
    skind, state = seq_state(rng, L, mx)
    ham = seq_ham(rng, L)
    procs = make_noise(rng, L) if noisy else None
    sched = None
    if noisy and rng.random() < 0.25:
        i = rng.randrange(L - 1)
        sched = [{"time": dt * rng.choice([1, 2]), "sites": rng.choice([[i], [i, i + 1]]), "name": "x"}]
        if len(sched[0]["sites"]) == 2:
            sched[0]["name"] = "lowering_two"
    noise = NoiseModel(procs, scheduled_jumps=sched) if noisy else None
    run_init = bonds_of(state)
    allowed = [max(mx, mn, b) for b in run_init]
    out = []
    tr = OpTrace()
    tr.install()
    orig_sp = atjm_mod.stochastic_process
    orig_sj = atjm_mod.apply_scheduled_jumps
    cur = {"rr": None, "sched": None}

    def sproc(st, nm, dt_, sim_params, rng=None):
        cur["rr"] = RecRng(rng, force_jump=cur["force"])
        return orig_sp(st, nm, dt_, sim_params, rng=cur["rr"])

    def sjump(st, nm, time, sim_params):
        pairs = []
        for j in nm.scheduled_jumps:
            if np.isclose(j["time"], time, rtol=0.0, atol=sim_params.dt * 1e-3) and len(j["sites"]) == 2:
                pairs.append(min(j["sites"]))
        cur["sched"] = pairs
        return orig_sj(st, nm, time, sim_params)

    atjm_mod.stochastic_process = sproc
    atjm_mod.apply_scheduled_jumps = sjump
    try:
        tr.track(state)
        g = np.random.default_rng(rng.randrange(1 << 30))
        for step in range(rng.choice([1, 2, 3])):
            cur.update(rr=None, sched=None, force=noisy and rng.random() < 0.5)
            init = bonds_of(state)
            lo = len(tr.log)
            nc = len(tr.centres)
            err = None
            try:
                state = atjm_mod.step_through(state, ham, noise, sp, dt * (step + 1), rng=g)
            except Exception as e:  # noqa: BLE001
                err = f"{type(e).__name__}"
            final = bonds_of(state)
            ops = tr.resolve(lo, len(tr.log), L - 1)
            if cur["sched"] is not None:
                jump = "sched " + " ".join(map(str, cur["sched"])) if cur["sched"] else "sched"
            else:
                jump = jump_of(noise, cur["rr"])
            if bugmode:
                c0 = tr.centres[nc][0] if len(tr.centres) > nc and tr.centres[nc] else 0
                evo = f"bug:{c0}"
            else:
                evo = "auto"
            head = f"analog {evo} {1 if noisy_of(noise) else 0} {jump}"
            meta = f"step_through #{step} L={L} {evo} max={mx} min={mn} {sp.trunc_mode} thr={sp.threshold} noise={procs} sched={sched} jump={jump} state={skind}"
            out.append(seq_case(head, L, sp, init, n2_of(noise, L), ops, final, err, allowed, meta,
                                f"{[o['tok'] for o in ops]}"))
            if err is not None:
                break
    finally:
        atjm_mod.stochastic_process = orig_sp
        atjm_mod.apply_scheduled_jumps = orig_sj
        tr.restore()
    return out


def seq_circuit(rng, L, depth):
    from qiskit import QuantumCircuit

    qc = QuantumCircuit(L)
    for _ in range(depth):
        for q in range(L):
            g = rng.choice(["h", "rx", "rz", "x", "none"])
            if g == "h":
                qc.h(q)
            elif g == "rx":
                qc.rx(rng.uniform(0, 3), q)
            elif g == "rz":
                qc.rz(rng.uniform(0, 3), q)
            elif g == "x":
                qc.x(q)
        if L >= 3 and rng.random() < 0.25:
            q = rng.randrange(L - 2)
            (qc.rzz if rng.random() < 0.5 else qc.rxx)(rng.uniform(0, 2), q, q + 2)
        start = rng.choice([0, 1])
        for q in range(start, L - 1, 2):
            g = rng.choice(["cx", "cz", "rzz", "rxx", "cp", "cxr"])
            if g == "cx":
                qc.cx(q, q + 1)
            elif g == "cxr":
                qc.cx(q + 1, q)
            elif g == "cz":
                qc.cz(q, q + 1)
            elif g == "rzz":
                qc.rzz(rng.uniform(0, 2), q, q + 1)
            elif g == "rxx":
                qc.rxx(rng.uniform(0, 2), q, q + 1)
            else:
                qc.cp(rng.uniform(0, 2), q, q + 1)
    return qc


def run_seq_gate(inp):
    """the real `digital_tjm` on a random circuit; one case per two-qubit gate step (gate + noise block)"""
    rng = random.Random(inp["sub"])
    L = rng.choice([2, 3, 4, 4, 5, 5, 6])
    sp, mx, mn = seq_params(rng, analog=False)
    noisy = rng.random() < 0.6
    if mx == 1 and mn == 1:
        noisy = False
    skind, state0 = seq_state(rng, L, mx)
    noise = NoiseModel(make_noise(rng, L)) if noisy else None
    qc = seq_circuit(rng, L, rng.choice([1, 2, 3]))
    out = []
    tr = OpTrace()
    tr.install()
    names = ["apply_two_qubit_gate", "apply_single_qubit_gate", "apply_dissipation", "stochastic_process", "two_site_tdvp"]
    orig = {n: getattr(dtjm_mod, n) for n in names}
    orig_eval, orig_shots = MPS.evaluate_observables, MPS.measure_shots
    cur = {"open": None, "state": None, "run_init": None}

    def close():
        c = cur["open"]
        if c is None:
            return
        cur["open"] = None
        st = cur["state"]
        final = bonds_of(st)
        ops = tr.resolve(c["lo"], len(tr.log), L - 1)
        if c["noise"] is None:
            head = f"gate {c['first']} {c['last']} nonoise"
            n2 = []
        else:
            head = f"gate {c['first']} {c['last']} noise {1 if noisy_of(c['noise']) else 0} {jump_of(c['noise'], c['rr'])}"
            n2 = n2_of(c["noise"], L)
        allowed = [max(mx, mn, b) for b in cur["run_init"]]
        meta = f"digital gate step ({c['first']},{c['last']}) L={L} max={mx} min={mn} {sp.trunc_mode} thr={sp.threshold} local noise={None if c['noise'] is None else [(p['name'], p['sites']) for p in c['noise'].processes]} state={skind}"
        out.append(seq_case(head, L, sp, c["init"], n2, ops, final, c.get("err"), allowed, meta, f"{[o['tok'] for o in ops]}"))

    def a2q(st, node, sim_params):
        close()
        tr.track(st)
        cur["state"] = st
        if cur["run_init"] is None:
            cur["run_init"] = bonds_of(st)
        c = {"lo": len(tr.log), "init": bonds_of(st), "noise": None, "rr": None, "first": "?", "last": "?"}
        cur["open"] = c
        c["first"], c["last"] = orig["apply_two_qubit_gate"](st, node, sim_params)
        return c["first"], c["last"]

    def a1q(st, node):
        close()
        return orig["apply_single_qubit_gate"](st, node)

    def adiss(st, nm, dt, sim_params):
        if cur["open"] is not None:
            cur["open"]["noise"] = nm
        return orig["apply_dissipation"](st, nm, dt=dt, sim_params=sim_params)

    def sproc(st, nm, dt, sim_params, rng=None):
        # the generator is an input of stochastic_process: a seeded one keeps the run reproducible
        r2 = random.Random(len(tr.log) + inp["sub"])
        rr = RecRng(np.random.default_rng(r2.randrange(1 << 30)), force_jump=r2.random() < 0.4)
        if cur["open"] is not None:
            cur["open"]["rr"] = rr
        return orig["stochastic_process"](st, nm, dt=dt, sim_params=sim_params, rng=rr)

    def tstdvp(short_state, short_mpo, sim_params, **kw):
        st = cur["state"]
        off = None
        for i, t_ in enumerate(list(st.tensors)):
            if t_ is short_state.tensors[0]:
                off = i
                break
        if off is not None:
            tr.track(short_state, offset=off)
        return orig["two_site_tdvp"](short_state, short_mpo, sim_params, **kw)

    def ev(self, *a, **k):
        close()
        return orig_eval(self, *a, **k)

    def shots(self, *a, **k):
        close()
        return orig_shots(self, *a, **k)

    for n, f in zip(names, [a2q, a1q, adiss, sproc, tstdvp]):
        setattr(dtjm_mod, n, f)
    MPS.evaluate_observables, MPS.measure_shots = ev, shots
    err = None
    try:
        try:
            dtjm_mod.digital_tjm((0, state0, noise, sp, qc))
        except Exception as e:  # noqa: BLE001
            err = f"{type(e).__name__}"
            if cur["open"] is not None:
                cur["open"]["err"] = err
            close()
    finally:
        for n in names:
            setattr(dtjm_mod, n, orig[n])
        MPS.evaluate_observables, MPS.measure_shots = orig_eval, orig_shots
        tr.restore()
    if err is not None and not out:
        out.append({"req": None, "impl": None, "kind": "seq-gate", "sig": f"seq-gate-err:{err}",
                    "oracle": {"ok": False, "detail": f"digital_tjm raised {err} (L={L} max={mx} min={mn})"}})
    return out


_gen_base, _run_base, _spec_base = gen, run, spec


def gen(rng, tier):  # noqa: F811
    """the original stream, then (from an independent derived generator, so the original cases keep their sub-seeds)
    the op-sequence cases, interleaved so that a budget cut keeps every kind"""
    rng2 = random.Random(f"x08:{tier}:{hash(rng.getstate()[1][:8])}")
    nseq = {"quick": 36, "thorough": 900, "search": 60}.get(tier, 8)
    base = list(_gen_base(rng, tier))
    extra = []
    for _ in range(nseq):
        for fn in ("ldtdvp", "ldtdvp", "twosite", "singlesite", "bug"):
            extra.append({"kind": "seq-fn", "fn": fn, "sub": rng2.randrange(1 << 30)})
        extra.append({"kind": "seq-analog", "sub": rng2.randrange(1 << 30)})
        extra.append({"kind": "seq-analog", "sub": rng2.randrange(1 << 30)})
        extra.append({"kind": "seq-gate", "sub": rng2.randrange(1 << 30)})
    # interleave: one extra input after every second original one
    it = iter(extra)
    for n, b in enumerate(base):
        yield b
        if n % 2 == 1:
            e = next(it, None)
            if e is not None:
                yield e
    yield from it


def run(inp):  # noqa: F811
    k = inp["kind"]
    if k == "seq-fn":
        return run_seq_fn(inp)
    if k == "seq-analog":
        return run_seq_analog(inp)
    if k == "seq-gate":
        return run_seq_gate(inp)
    if k == "d16":
        # the original case lets an exception of the real code escape (harness error, no verdict); report it instead,
        # under its own key so that the known finding D16 does not absorb it
        try:
            return _run_base(inp)
        except Exception as e:  # noqa: BLE001
            return {"req": None, "impl": None, "kind": "d16-raised", "sig": "d16-raised",
                    "oracle": {"ok": False, "detail": f"apply_dissipation with max_bond_dim=min_bond_dim=1 on the x+ chain raised {type(e).__name__}: {e}"}}
    return _run_base(inp)


def spec():  # noqa: F811
    return _spec_base() + [
        {"name": "op-sequence tie: SVD centre shifts use threshold 1e-12; QRs on the dummy legs leave them at 1; "
                 "bug.find_new_q enlarges the left leg to min(2*left, d*right)",
         "ok": SEQ["svd_thr_other"] == 0 and SEQ["grow_formula_fail"] == 0, "n": SEQ["ops"],
         "primitives_on_copies": SEQ["off_state"], "dummy_leg_qrs": SEQ["dummy_qr"],
         "svd_threshold_not_1e-12": SEQ["svd_thr_other"], "grow_formula_failures": SEQ["grow_formula_fail"],
         "steps_with_svd_shift_on_numerically_zero_state": SEQ.get("zero_state_steps", 0),
         "of_which_over_the_cap": SEQ.get("zero_state_over_cap", 0), "detail": SEQ["detail"]}]


if __name__ == "__main__":
    ib.main("C08", gen, run, driver="Rank",
            rule="whole simulations (analog order 1/2, TDVP/BUG, digital strong/weak; noise on/off; caps 1..7, min bond 1..3, both "
                 "truncation modes; product and random initial states) with every bond-changing primitive recorded, plus forced "
                 "spectra through split_mps_tensor with non-power-of-d caps and dynamic=True; distinct = distinct primitive "
                 "signatures (rule, spectrum length, kept rank, cap, flag) / simulation configurations; "
                 "op-sequence tie (Model.SweepBonds): single calls of local_dynamic_tdvp / two_site_tdvp / single_site_tdvp / bug "
                 "(L = 1..6, analog and digital, caps biting at some bonds only), runs of 1..3 step_through calls (TDVP and BUG, "
                 "one- and two-site noise, forced and natural jumps, scheduled jumps), every two-qubit gate step of digital_tjm on "
                 "random circuits (nearest-neighbour and next-nearest gates, local noise) — kind, bond, physical dimension and "
                 "resulting dimension of every op and the bond vector after the call vs the model's own op list",
            trusted_base=["numerical-rank hypothesis of the SVD centre shift (spec-tied on every call seen)"],
            assumptions=["bond-changing primitives are exactly split_mps_tensor, two_site_svd, right_qr/np.linalg.qr (coverage-checked: every bond change between sampling points is explained by a recorded primitive output)",
                         "op-sequence tie: the bond of a primitive is read off the first store of its output tensor into state.tensors (list subclass logging __setitem__); the bond vector replayed by the model must equal the one observed after the call, so an unrecorded bond change shows up as a mismatch",
                         "steps in which an SVD centre shift meets a numerically zero state (total weight < 1e-12) are outside the hypotheses of the invariant: skipped and counted in the spec tie"],
            spec=spec)
