"""C16 — implementation side: barriers / measurements are transparent; labelled barriers sample where they stand.

trace tie  : the REAL `simulator.run` → `digital_tjm` in every mode (strong with sample_layers on / off, weak) on random
             circuits with plain barriers on random qubit subsets, labelled barriers (full-width and partial, any case,
             Python-whitespace padding, near-miss labels) and measurements (shared clbits) sprinkled: sequence of
             `apply_*_gate` calls, `evaluate_observables` columns, `measure_shots`, allocated column count
             vs `Layers.runCircuit`.  Each run in a forked child with a hard kill: a hang is the observation
             "does not terminate" (oracle failure), not a harness failure.
value tie  : qiskit's `front_layer()` of the real DAG vs `Layers.front`;  `_run_strong_sim`'s `num_mid_measurements`
             (backend stubbed) and `process_layer`'s classification of every barrier vs `countMid` / `classify`.
oracle     : termination in all modes; every allocated column written exactly once, in order; column 0 = initial state,
             column k = state of the program prefix at the k-th labelled barrier (full-width ones), last = final state,
             against qiskit `Statevector`; same results with markers removed (strong: all columns / final state; weak:
             output state).
known finding D27 (key "C16:partial-labelled-barrier"): for circuits containing a labelled barrier that does NOT span
             all qubits an extra oracle kind checks (a) column k = the k-th labelled barrier in program order (on the
             observables supported on that barrier's qubits, where the prefix state is unambiguous) and (b) all columns
             unchanged when measurements / plain barriers are removed.  Only this kind carries the key, and it is only
             evaluated when every other oracle of the circuit is green, so nothing else can hide behind the finding.
extension (builder xk16, kinds `column-values`, `column-values-stripped`, `column-values-off`) — ties the VALUE theorems
             `column_state` / `column_values` / `markers_transparent_values` of Props/C16.lean: random circuits (2..5 qubits,
             every supported gate, two-qubit gates on neighbouring qubits in both orientations) whose labelled barriers are all
             full-width (mixed-case / padded labels, shuffled qubit order), plain barriers and measurements sprinkled, run
             through the REAL `simulator.run` with `sample_layers=True` and a SHUFFLED observable list (one-site Paulis and
             adjacent two-site Pauli pairs, duplicates allowed): every entry (object j, column k) against <psi_k|O_j|psi_k> of
             the qiskit `Statevector` of the program prefix up to the k-th labelled barrier (1e-9); the circuit with ALL
             markers removed gives the same final column; `sample_layers=False` gives exactly that column.  The event
             sequence of each of these runs is trace-tied to `Layers.runCircuit` as well.
extension (builder x16d, kind `column-exact`) — EXACT value tie of `Model/ColumnsExec.lean` (`colValuesExec`, theorems
             `colValuesExec_is_column_values` / `colValuesExec_at_barrier`): random circuits (2..5 qubits, basis initial state)
             over the gates whose matrices are rational — x y z id cx cz, and rx ry rz p cp rxx ryy rzz at rational points of the
             unit circle (the harness ships the exact `(c, s)`; the real code gets `theta = 2*atan2(s, c)` resp. `atan2(s, c)`) —
             neighbouring two-qubit gates in both orientations, full-width labelled barriers, plain barriers, measurements, a
             SHUFFLED observable list: the whole result table of the REAL `simulator.run(sample_layers=True)` (every object, every
             column, in the order the columns were written) vs the driver request `colvals` (exact rationals; 1e-9).  The float
             oracle (qiskit prefix states) runs alongside so that a disagreement comes with a failing input.
"""
from __future__ import annotations

import copy
import json
import random

import numpy as np

import implbase as ib
import layers_common as lc

TOL = 1e-7          # clean tree: worst deviation observed over seeds 0..9 < 5e-13 (see evidence `worst_dev`)
PRE: dict[str, list] = {}
WORST = {"dev": 0.0, "partial_columns_skipped": 0, "columns_checked": 0}
MODES = ("ss", "sp", "weak")
KEY_PARTIAL = "C16:partial-labelled-barrier"


def key_of(inp) -> str:
    return json.dumps({k: v for k, v in inp.items() if k not in ("corpus_file",)}, sort_keys=True, default=str)


def jobs_for(inp):
    if inp["kind"] != "modes":
        return []
    spec = inp["spec"]
    return ([{"spec": spec, "mode": m} for m in MODES] +
            [{"spec": spec, "mode": "ss", "drop": "plain"}, {"spec": spec, "mode": "sp", "drop": "all"}])


def gen(rng, tier):
    n_modes, n_front, n_count = {"quick": (40, 30, 30), "thorough": (300, 300, 200), "search": (70, 0, 0)}.get(tier, (40, 30, 30))
    inputs = []
    for _ in range(n_modes):
        r = rng.random()
        if r < 0.2:       # marker-heavy
            spec = lc.random_circuit(rng, max_ops=12, p_marker=0.6, p_label=0.45)
        elif r < 0.3:     # labelled barrier guaranteed, few gates
            spec = lc.random_circuit(rng, max_ops=6, p_marker=0.3)
            pos = rng.randrange(len(spec["ops"]) + 1)
            spec["ops"].insert(pos, {"op": "b", "qs": list(range(spec["n"])), "label": lc.random_label(rng, rng.choice(["strict", "padded"]))})
        else:
            spec = lc.random_circuit(rng, max_ops=12, p_marker=0.35)
        inputs.append({"kind": "modes", "spec": spec})
    # several labelled barriers on disjoint qubit groups reach the front layer together: each one must still get its own column
    for _ in range({"quick": 3, "thorough": 20, "search": 6}.get(tier, 3)):
        n = rng.choice([4, 5, 6])
        cut = rng.randrange(2, n - 1)
        # nothing, or one one-qubit gate on every qubit, before the barriers: both barriers then become front in the same layer
        ops = []
        if rng.random() < 0.5:
            for q in range(n):
                g = lc.random_gate(rng, n, "one")
                ops.append(dict(g, q=q))
        ops += [{"op": "b", "qs": list(range(0, cut)), "label": lc.random_label(rng, "strict")},
                {"op": "b", "qs": list(range(cut, n)), "label": lc.random_label(rng, "strict")}]
        ops += [lc.random_gate(rng, n) for _ in range(rng.randrange(1, 4))]
        inputs.append({"kind": "modes", "spec": {"n": n, "init": rng.choice(lc.INITS), "ops": ops}})
    for _ in range(n_front):
        inputs.append({"kind": "front", "spec": lc.random_circuit(rng, nmax=7, max_ops=14, p_marker=0.5)})
    for _ in range(n_count):
        spec = lc.random_circuit(rng, max_ops=8, p_marker=0.7, p_label=0.6)
        inputs.append({"kind": "count", "spec": spec})
    rng.shuffle(inputs)
    jobs, owner = [], []
    for i, inp in enumerate(inputs):
        for j in jobs_for(inp):
            jobs.append(j)
            owner.append(i)
    res = lc.run_many(jobs) if jobs else []
    for i, inp in enumerate(inputs):
        PRE[key_of(inp)] = [r for r, o in zip(res, owner) if o == i]
    yield from inputs


# ------------------------------------------------------------------------------------------------- oracles
def terminated(res, what):
    if res.get("hang"):
        return {"ok": False, "detail": f"{what}: does not terminate (killed after {res['timeout']} s)"}
    if res.get("crash"):
        return {"ok": False, "detail": f"{what}: child crashed: " + res["crash"][-300:]}
    if res.get("exc"):
        return {"ok": False, "detail": f"{what}: raised {res['exc']}"}
    return None


def dev_of(got, want):
    d = float(np.max(np.abs(np.asarray(got) - np.asarray(want)))) if len(got) else 0.0
    WORST["dev"] = max(WORST["dev"], d)
    return d


def state_dev(vec, ref):
    d = abs(1.0 - abs(np.vdot(ref, vec))) + abs(float(np.linalg.norm(vec)) - 1.0)
    WORST["dev"] = max(WORST["dev"], d)
    return d


def eval_columns(res):
    segs = res.get("segments") or [[]]
    return [ev[1] for ev in segs[0] if ev[0] == "e"]


def oracle_sampling(spec, res):
    """sample_layers=True: columns = initial / each labelled barrier in program order / final"""
    bad = terminated(res, "strong simulation with sample_layers=True")
    if bad:
        return bad
    n, ops = spec["n"], spec["ops"]
    padded = [i for i, op in enumerate(ops) if op["op"] == "b" and lc.label_padded(op.get("label"))]
    strict = [i for i, op in enumerate(ops) if op["op"] == "b" and lc.label_strict(op.get("label"))]
    results = np.array(res["results"])
    ncols = results.shape[1]
    if ncols == len(padded) + 2:
        sampling = padded
    elif ncols == len(strict) + 2:
        sampling = strict
    else:
        return {"ok": False, "detail": f"{ncols} result columns for {len(strict)} labelled barriers ({len(padded)} counting whitespace-padded labels)"}
    cols = eval_columns(res)
    if cols != list(range(ncols)):
        return {"ok": False, "detail": f"columns written {cols}, allocated 0..{ncols - 1}: some column is unfilled, repeated or out of order"}
    if len(res.get("segments") or []) != 1:
        return {"ok": False, "detail": f"digital_tjm invoked {len(res.get('segments') or [])} times for one noise-free trajectory"}
    checks = [(0, 0, "initial state")]
    for k, p in enumerate(sampling):
        if sorted(ops[p]["qs"]) == list(range(n)):
            checks.append((k + 1, p, f"labelled barrier #{k + 1} (instruction {p})"))
        else:
            WORST["partial_columns_skipped"] += 1
    checks.append((ncols - 1, len(ops), "final state"))
    for col, upto, what in checks:
        want = lc.reference_expectations(n, lc.reference_state(spec, upto))
        d = dev_of(results[:, col], want)
        WORST["columns_checked"] += 1
        if d > TOL:
            j = int(np.argmax(np.abs(results[:, col] - np.array(want))))
            lab = lc.observable_list(n)[j]
            return {"ok": False, "detail": f"column {col} ({what}): <{lab[0]}@{lab[1]}> = {results[j, col]:.12g}, state vector of the circuit prefix gives {want[j]:.12g}"}
    vec = lc.vec_of(res)
    if vec is None or state_dev(vec, lc.reference_state(spec)) > TOL:
        return {"ok": False, "detail": "final state differs from the exact state vector"}
    return {"ok": True, "detail": f"{ncols} columns, {len(checks)} compared with prefix state vectors"}


def oracle_plain(spec, res):
    bad = terminated(res, "strong simulation with sample_layers=False")
    if bad:
        return bad
    results = np.array(res["results"])
    if results.shape[1] != 1 or eval_columns(res) != [0]:
        return {"ok": False, "detail": f"sample_layers=False: result columns {results.shape[1]}, columns written {eval_columns(res)}"}
    ref = lc.reference_state(spec)
    d = dev_of(results[:, 0], lc.reference_expectations(spec["n"], ref))
    vec = lc.vec_of(res)
    if d > TOL or vec is None or state_dev(vec, ref) > TOL:
        return {"ok": False, "detail": f"final results deviate from the exact state vector of the gate-only circuit by {d:.3g}"}
    return {"ok": True, "detail": f"terminates; dev {d:.2e}"}


def oracle_weak(spec, res):
    bad = terminated(res, "weak simulation")
    if bad:
        return bad
    ref = lc.reference_state(spec)
    vec = lc.vec_of(res)
    if vec is None or state_dev(vec, ref) > TOL:
        return {"ok": False, "detail": "weak simulation: output state differs from the exact state vector"}
    shots = res.get("weak_results") or {}
    if sum(shots.values()) != 1:
        return {"ok": False, "detail": f"weak simulation with shots=1 returned {shots}"}
    (outcome,) = shots
    if not (0 <= outcome < 2 ** spec["n"]) or abs(ref[outcome]) ** 2 < 1e-9:
        return {"ok": False, "detail": f"measured basis state {outcome} has probability {abs(ref[outcome]) ** 2 if 0 <= outcome < len(ref) else 'n/a'}"}
    return {"ok": True, "detail": "terminates; state exact; outcome has non-zero probability"}


def oracle_strip(spec, full_ss, full_sp, strip_ss, strip_sp):
    """a circuit gives the same results with the markers removed"""
    for r, what in ((full_ss, "sampling run"), (full_sp, "plain run"), (strip_ss, "sampling run without measurements/plain barriers"),
                    (strip_sp, "plain run without any marker")):
        bad = terminated(r, what)
        if bad:
            return bad
    a, b = np.array(full_sp["results"]), np.array(strip_sp["results"])
    if a.shape != b.shape or dev_of(a, b) > TOL or state_dev(lc.vec_of(full_sp), lc.vec_of(strip_sp)) > TOL:
        return {"ok": False, "detail": "results change when barriers / measurements are removed (sample_layers=False)"}
    a, b = np.array(full_ss["results"]), np.array(strip_ss["results"])
    if a.shape != b.shape:
        return {"ok": False, "detail": f"column count changes when measurements / plain barriers are removed: {a.shape[1]} vs {b.shape[1]}"}
    n, ops = spec["n"], spec["ops"]
    sampling = [op for op in ops if op["op"] == "b" and lc.label_padded(op.get("label"))]
    cols = [0, a.shape[1] - 1]
    if a.shape[1] == len(sampling) + 2:
        cols += [k + 1 for k, op in enumerate(sampling) if sorted(op["qs"]) == list(range(n))]
    for c in sorted(set(cols)):
        if dev_of(a[:, c], b[:, c]) > TOL:
            return {"ok": False, "detail": f"column {c} changes when measurements / plain barriers are removed"}
    return {"ok": True, "detail": f"columns {sorted(set(cols))} and final states agree with markers removed"}


def has_partial_labelled(spec) -> bool:
    return any(op["op"] == "b" and lc.label_padded(op.get("label")) and sorted(set(op["qs"])) != list(range(spec["n"]))
               for op in spec["ops"])


def oracle_partial(spec, full_ss, strip_ss):
    """D27: labelled barriers that do not span all qubits.  Called only when the runs terminated and the full-width
    oracles are green.  (a) column order = program order of the labelled barriers; (b) markers removed → same columns."""
    n, ops = spec["n"], spec["ops"]
    a, b = np.array(full_ss["results"]), np.array(strip_ss["results"])
    sampling = [i for i, op in enumerate(ops) if op["op"] == "b" and lc.label_padded(op.get("label"))]
    obs = lc.observable_list(n)
    problems = []
    if a.shape[1] == len(sampling) + 2:
        for k, p in enumerate(sampling):
            qs = set(ops[p]["qs"])
            want = lc.reference_expectations(n, lc.reference_state(spec, p))
            rows = [j for j, (_, sites, _) in enumerate(obs) if set(sites) <= qs]
            for j in rows:
                if abs(a[j, k + 1] - want[j]) > TOL:
                    problems.append(f"(a) column {k + 1} should be labelled barrier #{k + 1} (instruction {p}, qubits {sorted(qs)}): "
                                    f"<{obs[j][0]}@{obs[j][1]}> = {a[j, k + 1]:.6g}, program prefix gives {want[j]:.6g}")
                    break
            if problems:
                break
    if a.shape == b.shape:
        d = np.abs(a - b)
        if d.size and float(d.max()) > TOL:
            j, c = np.unravel_index(int(np.argmax(d)), d.shape)
            problems.append(f"(b) column {c} changes when measurements / plain barriers are removed: "
                            f"<{obs[j][0]}@{obs[j][1]}> = {a[j, c]:.6g} vs {b[j, c]:.6g}")
    if problems:
        return {"ok": False, "detail": "partial labelled barrier: " + "; ".join(problems)}
    return {"ok": True, "detail": "partial labelled barriers: columns in program order on their own qubits, unchanged without markers"}


def spec_sig(spec):
    def tok(op):
        if op["op"] in ("g1", "g2"):
            return op["name"] + ":" + str(op.get("q", (op.get("a"), op.get("b"))))
        if op["op"] == "m":
            return f"m:{op['q']}:{op['c']}"
        return ("sb" if lc.label_padded(op.get("label")) else "b") + ":" + ",".join(map(str, op["qs"]))
    return f"n{spec['n']}:" + " ".join(tok(op) for op in spec["ops"])


def run_modes(inp, results):
    spec = inp["spec"]
    ss, sp, weak, strip_ss, strip_sp = results
    tied = lc.ascii_labels(spec["ops"])
    nmark = sum(lc.is_marker(op) for op in spec["ops"])
    cases = []
    for mode, res, orc in (("ss", ss, oracle_sampling), ("sp", sp, oracle_plain), ("weak", weak, oracle_weak)):
        cases.append({
            "kind": "run-" + mode,
            "req": lc.request(f"run new {mode}", spec["ops"]) if tied else None,
            "impl": lc.events_string(res, spec, mode),
            "oracle": orc(spec, res),
            "sig": mode + ":" + spec_sig(spec),
            "nontrivial": nmark >= 1 and len(spec["ops"]) >= 2,
        })
    cases.append({"kind": "markers-removed", "req": None, "impl": None,
                  "oracle": oracle_strip(spec, ss, sp, strip_ss, strip_sp), "sig": "strip:" + spec_sig(spec),
                  "nontrivial": nmark >= 1})
    if has_partial_labelled(spec) and all(c["oracle"]["ok"] for c in cases):
        # known finding D27 — the ONLY case kind that carries the key; evaluated only when everything else is green
        cases.append({"kind": "partial-labelled-barrier", "req": None, "impl": None, "key": KEY_PARTIAL,
                      "oracle": oracle_partial(spec, ss, strip_ss), "sig": "partial:" + spec_sig(spec), "nontrivial": True})
    if "corpus_file" in inp:
        for c in cases:
            c["kind"] = "corpus:" + c["kind"]
    return cases


def run_front(inp):
    """qiskit's own front layer of the DAG the simulator builds vs the wire-dependency front of the instruction list"""
    spec = inp["spec"]
    if not lc.ascii_labels(spec["ops"]):
        return []
    tags = lc.tag_table(spec["ops"])
    qc = copy.deepcopy(lc.build_circuit(spec).reverse_bits())
    dag = lc.circuit_to_dag(qc)
    out = []
    rem = list(spec["ops"])
    # the first front layer, and the front after removing it (exercises remove_op_node)
    for step in range(2):
        nodes = dag.front_layer()
        toks = sorted(t.replace("sb:", "b:") for t in lc.dag_nodes_tokens(nodes, tags))
        out.append({"kind": "front-layer", "req": lc.request("front", rem, tags), "impl": " ".join(["F"] + toks), "oracle": None,
                    "sig": f"front{step}:" + spec_sig({"n": spec["n"], "ops": rem}), "nontrivial": len(nodes) >= 2})
        # remove the front nodes from both sides: positions in `rem` found through the model-independent wire rule
        busy, keep = set(), []
        for op in rem:
            wires = {("q", q) for q in ([op["q"]] if "q" in op else [op["a"], op["b"]] if "a" in op else op["qs"])}
            if op["op"] == "m":
                wires.add(("c", op["c"]))
            if wires & busy:
                keep.append(op)
            busy |= wires
        if len(rem) - len(keep) != len(nodes):
            out[-1]["oracle"] = {"ok": True, "detail": "front sizes differ between qiskit and the wire rule (see correspondence)"}
            break
        for nd in nodes:
            dag.remove_op_node(nd)
        rem = keep
        if not rem:
            break
    return out


def run_count(inp):
    """`_run_strong_sim`'s column count (backend stubbed, so nothing can loop) and `process_layer`'s view of each barrier"""
    from mqt.yaqs import simulator as sim_mod
    from mqt.yaqs.core.data_structures.networks import MPS
    from mqt.yaqs.core.data_structures.simulation_parameters import Observable, StrongSimParams
    from mqt.yaqs.core.libraries.gate_library import Z
    from mqt.yaqs.digital import digital_tjm as dt_mod

    spec = inp["spec"]
    if not lc.ascii_labels(spec["ops"]):
        return []
    qc = copy.deepcopy(lc.build_circuit(spec).reverse_bits())
    params = StrongSimParams([Observable(Z(), 0)], num_traj=1, sample_layers=True, show_progress=False)
    orig = sim_mod.digital_tjm
    sim_mod.digital_tjm = lambda args: np.zeros((1, args[3].num_mid_measurements + 2))
    try:
        sim_mod._run_strong_sim(MPS(spec["n"], state="zeros"), qc, params, None, parallel=False)  # noqa: SLF001
    finally:
        sim_mod.digital_tjm = orig
    seen = 0
    for op in spec["ops"]:
        if op["op"] == "b":
            one = lc.QuantumCircuit(spec["n"])
            one.barrier(*op["qs"], label=op.get("label"))
            seen += len(dt_mod.process_layer(lc.circuit_to_dag(one))[3])
    ncol = len(params.observables[0].results)
    first = _count_case(spec, params, seen, ncol, "label-count")
    # the SAME parameter object is reused for a second circuit with a different number of sampling barriers: the count (and
    # with it the number of result columns) must follow the circuit of this run, not a value left over from the last run
    ops2 = [op for op in spec["ops"]]
    labelled = [i for i, op in enumerate(ops2) if op["op"] == "b" and lc.label_padded(op.get("label"))]
    if labelled and len(labelled) % 2 == 0:
        del ops2[labelled[0]]
    else:
        ops2 = ops2 + [{"op": "b", "qs": list(range(spec["n"])), "label": "SAMPLE_OBSERVABLES"}, {"op": "g1", "name": "x", "params": [], "q": 0}]
    spec2 = dict(spec, ops=ops2)
    try:
        qc2 = copy.deepcopy(lc.build_circuit(spec2).reverse_bits())
    except Exception:  # noqa: BLE001  (spec format differs: skip the reuse part)
        return [first]
    sim_mod.digital_tjm = lambda args: np.zeros((1, args[3].num_mid_measurements + 2))
    try:
        sim_mod._run_strong_sim(MPS(spec["n"], state="zeros"), qc2, params, None, parallel=False)  # noqa: SLF001
    finally:
        sim_mod.digital_tjm = orig
    seen2 = 0
    for op in ops2:
        if op["op"] == "b":
            one = lc.QuantumCircuit(spec["n"])
            one.barrier(*op["qs"], label=op.get("label"))
            seen2 += len(dt_mod.process_layer(lc.circuit_to_dag(one))[3])
    ncol2 = len(params.observables[0].results)
    second = _count_case(spec2, params, seen2, ncol2, "label-count-reused-params")
    return [first, second]


def _count_case(spec, params, seen, ncol, kind):
    return {"kind": kind, "req": lc.request("count", spec["ops"]), "impl": f"{params.num_mid_measurements} {seen}",
            "oracle": {"ok": ncol == params.num_mid_measurements + 2 and seen == params.num_mid_measurements,
                       "detail": f"{kind}: _run_strong_sim counts {params.num_mid_measurements} sampling barriers ({ncol} columns), process_layer recognises {seen}"},
            "sig": kind + ":" + "|".join(repr(op.get("label")) for op in spec["ops"] if op["op"] == "b"),
            "nontrivial": any(op["op"] == "b" and op.get("label") is not None for op in spec["ops"]),
            "input": {"kind": "count", "spec": spec}}


def _unused_count_tail(spec, params, seen, ncol):
    return [{"kind": "label-count", "req": lc.request("count", spec["ops"]), "impl": f"{params.num_mid_measurements} {seen}",
             "oracle": {"ok": ncol == params.num_mid_measurements + 2 and seen == params.num_mid_measurements,
                        "detail": f"_run_strong_sim counts {params.num_mid_measurements} sampling barriers ({ncol} columns), process_layer recognises {seen}"},
             "sig": "count:" + "|".join(repr(op.get("label")) for op in spec["ops"] if op["op"] == "b"),
             "nontrivial": any(op["op"] == "b" and op.get("label") is not None for op in spec["ops"])}]



# ------------------------------------------------------------------------- extension xk16: the VALUES of the columns
CV_TOL = 1e-9       # clean tree, seeds 0..9: worst deviation < 1e-12 (recorded in evidence as `cv_worst_dev`)
CV = {"dev": 0.0, "entries": 0, "columns": 0, "circuits": 0}
_LC_DO_RUN = lc._do_run  # noqa: SLF001


def _cv_do_run(job):
    """child process only: the observed run of layers_common with the observable list of this job (user's order).
    With `check_steps` every `apply_single_qubit_gate` / `apply_two_qubit_gate` call of the real run is additionally compared
    on the dense state with the embedded gate matrix (qiskit `Operator` of the one-gate circuit): the hypothesis
    `Represents n (apply g) (denseSem … g)` of `column_values`, on the states and gates actually seen."""
    if "obs_order" in job:
        full = lc.observable_list(job["spec"]["n"])
        sel = [full[i] for i in job["obs_order"]]
        lc.observable_list = lambda n: sel      # the fork's private copy of the module
    steps = []
    if job.get("check_steps"):
        from qiskit.quantum_info import Operator

        from mqt.yaqs.digital import digital_tjm as dt_mod

        a1, a2 = dt_mod.apply_single_qubit_gate, dt_mod.apply_two_qubit_gate

        def chk(before, state, node):
            qc = lc.QuantumCircuit(state.length)
            qc.append(node.op, [q._index for q in node.qargs])  # noqa: SLF001
            want = np.asarray(Operator(qc).data) @ before
            steps.append(float(np.max(np.abs(np.asarray(state.to_vec()) - want))))

        def w1(state, node):
            before = np.asarray(state.to_vec())
            r = a1(state, node)
            chk(before, state, node)
            return r

        def w2(state, node, sp):
            before = np.asarray(state.to_vec())
            r = a2(state, node, sp)
            chk(before, state, node)
            return r

        dt_mod.apply_single_qubit_gate, dt_mod.apply_two_qubit_gate = w1, w2
    out = _LC_DO_RUN(job)
    if job.get("check_steps") and isinstance(out, dict):
        out["step_devs"] = steps
    return out


def cv_run_many(jobs):
    """same forked children with the same hard kill as every other run of this check"""
    lc._do_run = _cv_do_run  # noqa: SLF001
    try:
        return lc.run_many(jobs)
    finally:
        lc._do_run = _LC_DO_RUN  # noqa: SLF001


def cv_random_gate(rng, n):
    """every supported gate; two-qubit gates on neighbouring qubits in either orientation — the supported set of C02.
    (Long-range two-qubit gates are NOT generated: the windowed TDVP sweep is not exact for them — e.g. ryy(-0.97) on
    qubits (3, 0) of |11111> leaves the state unchanged on the clean tree — which is outside the property.)"""
    return lc.random_gate(rng, n)


def cv_circuit(rng):
    n = rng.randrange(2, 6)
    nseg = rng.randrange(1, 4)                   # 0..2 labelled barriers inside, sometimes one at the very start / end
    ops = []
    if rng.random() < 0.15:
        ops.append(cv_full_barrier(rng, n))
    for s in range(nseg):
        for _ in range(rng.randrange(1, 6)):
            r = rng.random()
            if r < 0.12:
                ops.append({"op": "m", "q": rng.randrange(n), "c": rng.randrange(n)})
            elif r < 0.27:
                ops.append({"op": "b", "qs": rng.sample(range(n), rng.randrange(1, n + 1)),
                            "label": lc.random_label(rng, rng.choice(["none", "none", "other"]))})
            else:
                ops.append(cv_random_gate(rng, n))
        if s < nseg - 1 or rng.random() < 0.2:
            ops.append(cv_full_barrier(rng, n))
    init = rng.choice(lc.INITS + ["basis:" + "".join(rng.choice("01") for _ in range(n))])
    full = lc.observable_list(n)
    k = rng.randrange(1, len(full) + 1)
    order = [rng.randrange(len(full)) for _ in range(k)] if rng.random() < 0.3 else rng.sample(range(len(full)), k)
    if not any(len(full[i][1]) == 2 for i in order):
        order.insert(rng.randrange(len(order) + 1), rng.choice([i for i, o in enumerate(full) if len(o[1]) == 2]))
    return {"kind": "column-values", "spec": {"n": n, "init": init, "ops": ops}, "obs_order": order}


def cv_full_barrier(rng, n):
    qs = list(range(n))
    if rng.random() < 0.4:
        rng.shuffle(qs)
    if rng.random() < 0.3:      # the spellings a user would type: all lower-case, all upper-case, capitalised
        label = rng.choice(["sample_observables", "SAMPLE_OBSERVABLES", "Sample_Observables"])
    else:
        label = lc.random_label(rng, rng.choice(["strict", "strict", "padded"]))
    return {"op": "b", "qs": qs, "label": label}


def cv_jobs(inp):
    base = {"spec": inp["spec"], "obs_order": inp["obs_order"]}
    return [dict(base, mode="ss", check_steps=True), dict(base, mode="ss", drop="all"), dict(base, mode="sp")]


def cv_reference(spec, order, upto):
    want = lc.reference_expectations(spec["n"], lc.reference_state(spec, upto))
    return np.array([want[i] for i in order])


def cv_table(res, nobs):
    t = np.array(res["results"], dtype=float)
    return t.reshape(nobs, -1) if t.size else t.reshape(nobs, 0)


def cv_compare(col, want, order, n, what):
    d = float(np.max(np.abs(col - want))) if len(want) else 0.0
    CV["dev"] = max(CV["dev"], d)
    CV["entries"] += len(want)
    CV["columns"] += 1
    if not np.all(np.isfinite(col)) or d > CV_TOL:
        j = int(np.argmax(np.abs(col - want)))
        lab = lc.observable_list(n)[order[j]]
        return {"ok": False, "detail": f"{what}: object {j} of the user's list (<{lab[0]}@{lab[1]}>) holds {col[j]:.12g}, "
                                       f"the state vector of the circuit prefix gives {want[j]:.12g}"}
    return None


def oracle_cv_full(spec, order, res):
    bad = terminated(res, "sampling run (column-values)")
    if bad:
        return bad
    n, ops = spec["n"], spec["ops"]
    sampling = [i for i, op in enumerate(ops) if op["op"] == "b" and lc.label_padded(op.get("label"))]
    t = cv_table(res, len(order))
    if t.shape[1] != len(sampling) + 2:
        return {"ok": False, "detail": f"{t.shape[1]} result columns for {len(sampling)} labelled barriers"}
    if eval_columns(res) != list(range(t.shape[1])):
        return {"ok": False, "detail": f"columns written {eval_columns(res)}, allocated 0..{t.shape[1] - 1}"}
    uptos = [0] + sampling + [len(ops)]
    for k, upto in enumerate(uptos):
        what = "column 0 (initial state)" if k == 0 else (f"last column {k} (final state)" if k == len(uptos) - 1
                                                           else f"column {k} (labelled barrier at instruction {upto})")
        bad = cv_compare(t[:, k], cv_reference(spec, order, upto), order, n, what)
        if bad:
            return bad
    devs = res.get("step_devs") or []
    ngates = sum(op["op"] in ("g1", "g2") for op in ops)
    if len(devs) != ngates:
        return {"ok": False, "detail": f"{len(devs)} gate applications observed for {ngates} gates"}
    if devs:
        CV["step_dev"] = max(CV.get("step_dev", 0.0), max(devs))
        CV["steps"] = CV.get("steps", 0) + len(devs)
        if not np.all(np.isfinite(devs)) or max(devs) > CV_TOL:
            i = int(np.argmax(devs))
            return {"ok": False, "detail": f"gate application #{i} of the run changes the dense state by something else than the "
                                           f"embedded gate matrix (deviation {devs[i]:.3g}): the exactness hypothesis of column_values fails"}
    CV["circuits"] += 1
    return {"ok": True, "detail": f"{t.shape[0]} objects x {t.shape[1]} columns equal the prefix-state expectation values; "
                                  f"{len(devs)} gate applications exact on the dense state"}


def oracle_cv_stripped(spec, order, full, stripped):
    for r, what in ((full, "sampling run"), (stripped, "sampling run of the circuit without any marker")):
        bad = terminated(r, what)
        if bad:
            return bad
    n = spec["n"]
    a, b = cv_table(full, len(order)), cv_table(stripped, len(order))
    if b.shape[1] != 2:
        return {"ok": False, "detail": f"circuit without markers: {b.shape[1]} columns, expected initial and final"}
    for k, upto, what in ((0, 0, "markers removed: column 0"), (1, len(spec["ops"]), "markers removed: final column")):
        bad = cv_compare(b[:, k], cv_reference(spec, order, upto), order, n, what)
        if bad:
            return bad
    if a.shape[1] >= 2:
        d = float(np.max(np.abs(a[:, -1] - b[:, -1])))
        CV["dev"] = max(CV["dev"], d)
        if d > CV_TOL:
            return {"ok": False, "detail": f"final column changes by {d:.3g} when barriers and measurements are removed"}
    return {"ok": True, "detail": "final column unchanged without barriers / measurements"}


def oracle_cv_off(spec, order, full, plain):
    for r, what in ((full, "sampling run"), (plain, "run with sample_layers=False")):
        bad = terminated(r, what)
        if bad:
            return bad
    a, b = cv_table(full, len(order)), cv_table(plain, len(order))
    if b.shape[1] != 1 or eval_columns(plain) != [0]:
        return {"ok": False, "detail": f"sample_layers=False: {b.shape[1]} columns, written {eval_columns(plain)}"}
    bad = cv_compare(b[:, 0], cv_reference(spec, order, len(spec["ops"])), order, spec["n"], "sample_layers=False: the single column")
    if bad:
        return bad
    if a.shape[1] >= 1 and float(np.max(np.abs(a[:, -1] - b[:, 0]))) > CV_TOL:
        return {"ok": False, "detail": "the single column of sample_layers=False differs from the final column of the sampling run"}
    return {"ok": True, "detail": "single column = final column"}


def run_cv(inp, results):
    spec, order = inp["spec"], inp["obs_order"]
    full, stripped, plain = results
    tied = lc.ascii_labels(spec["ops"])
    sspec = dict(spec, ops=lc.drop_ops(spec["ops"], "all"))
    nlab = sum(op["op"] == "b" and lc.label_padded(op.get("label")) for op in spec["ops"])
    ngate = sum(op["op"] in ("g1", "g2") for op in spec["ops"])
    osig = ",".join(map(str, order))
    nt = nlab >= 1 and ngate >= 2
    return [
        {"kind": "column-values", "req": lc.request("run new ss", spec["ops"]) if tied else None,
         "impl": lc.events_string(full, spec, "ss"), "oracle": oracle_cv_full(spec, order, full),
         "sig": "cv:" + spec_sig(spec) + "|" + osig, "nontrivial": nt},
        {"kind": "column-values-stripped", "req": lc.request("run new ss", sspec["ops"]),
         "impl": lc.events_string(stripped, sspec, "ss"), "oracle": oracle_cv_stripped(spec, order, full, stripped),
         "sig": "cvs:" + spec_sig(spec) + "|" + osig, "nontrivial": nt and any(lc.is_marker(op) for op in spec["ops"])},
        {"kind": "column-values-off", "req": lc.request("run new sp", spec["ops"]) if tied else None,
         "impl": lc.events_string(plain, spec, "sp"), "oracle": oracle_cv_off(spec, order, full, plain),
         "sig": "cvo:" + spec_sig(spec) + "|" + osig, "nontrivial": nt},
    ]


def gen_cv(rng, tier):
    """inputs of the extension; drawn from a generator of their own so that the inputs of the kinds above stay what they were"""
    n = {"quick": 36, "thorough": 400, "search": 60}.get(tier, 36)
    inputs = [cv_circuit(rng) for _ in range(n)]
    jobs, owner = [], []
    for i, inp in enumerate(inputs):
        for j in cv_jobs(inp):
            jobs.append(j)
            owner.append(i)
    res = cv_run_many(jobs) if jobs else []
    for i, inp in enumerate(inputs):
        PRE[key_of(inp)] = [r for r, o in zip(res, owner) if o == i]
    return inputs


# ------------------------------------------------------------- extension x16d: the column values, tied EXACTLY over Q(i)
CX_HALF = ("rx", "ry", "rz", "rxx", "ryy", "rzz")      # (c, s) = (cos theta/2, sin theta/2)
CX_FULL = ("p", "cp")                                  # (c, s) = (cos theta, sin theta)
CX_G1 = ("x", "y", "z", "id", "rx", "ry", "rz", "p")
CX_G2 = ("cx", "cz", "cp", "rxx", "ryy", "rzz")
CX = {"dev": 0.0, "entries": 0, "circuits": 0, "rows": 0}


def cx_point(rng):
    """a rational point of the unit circle, exactly: ((q^2-p^2)/(q^2+p^2), 2pq/(q^2+p^2)), signs / axes shuffled"""
    from fractions import Fraction
    while True:
        a, b = rng.randrange(0, 8), rng.randrange(1, 8)
        c, s = Fraction(b * b - a * a, a * a + b * b), Fraction(2 * a * b, a * a + b * b)
        if rng.random() < 0.5:
            c, s = s, c
        if rng.random() < 0.5:
            c = -c
        if rng.random() < 0.5:
            s = -s
        if c * c + s * s == 1:
            return c, s


def cx_gate(rng, n):
    import math
    two = n >= 2 and rng.random() < 0.5
    name = rng.choice(CX_G2 if two else CX_G1)
    op = {"op": "g2" if two else "g1", "name": name, "params": []}
    if two:
        q = rng.randrange(n - 1)
        op["a"], op["b"] = (q, q + 1) if rng.random() < 0.5 else (q + 1, q)
    else:
        op["q"] = rng.randrange(n)
    if name in CX_HALF or name in CX_FULL:
        c, s = cx_point(rng)
        phi = math.atan2(float(s), float(c))
        op["params"] = [2.0 * phi if name in CX_HALF else phi]
        op["cs"] = [f"{c.numerator}/{c.denominator}", f"{s.numerator}/{s.denominator}"]
    return op


def cx_circuit(rng):
    n = rng.randrange(2, 6)
    nseg = rng.randrange(1, 4)
    ops = []
    if rng.random() < 0.15:
        ops.append(cv_full_barrier(rng, n))
    for sgm in range(nseg):
        for _ in range(rng.randrange(1, 7)):
            r = rng.random()
            if r < 0.1:
                ops.append({"op": "m", "q": rng.randrange(n), "c": rng.randrange(n)})
            elif r < 0.22:
                ops.append({"op": "b", "qs": rng.sample(range(n), rng.randrange(1, n + 1)),
                            "label": lc.random_label(rng, rng.choice(["none", "none", "other"]))})
            else:
                ops.append(cx_gate(rng, n))
        if sgm < nseg - 1 or rng.random() < 0.2:
            ops.append(cv_full_barrier(rng, n))
    init = "basis:" + "".join(rng.choice("01") for _ in range(n))
    full = lc.observable_list(n)
    k = rng.randrange(1, len(full) + 1)
    order = [rng.randrange(len(full)) for _ in range(k)] if rng.random() < 0.3 else rng.sample(range(len(full)), k)
    if not any(len(full[i][1]) == 2 for i in order):
        order.insert(rng.randrange(len(order) + 1), rng.choice([i for i, o in enumerate(full) if len(o[1]) == 2]))
    return {"kind": "column-exact", "spec": {"n": n, "init": init, "ops": ops}, "obs_order": order}


def cx_request(spec, order):
    segs = [f"colvals {spec['n']} {spec['init'][6:]}"]
    for op in spec["ops"]:
        if op["op"] == "g1":
            segs.append(" ".join(["g1", op["name"], str(op["q"])] + list(op.get("cs", []))))
        elif op["op"] == "g2":
            segs.append(" ".join(["g2", op["name"], str(op["a"]), str(op["b"])] + list(op.get("cs", []))))
        else:
            segs.append(lc.op_tokens(op, {}))
    full = lc.observable_list(spec["n"])
    for i in order:
        lab, sites, _ = full[i]
        segs.append(f"o{len(sites)} {lab} {sites[0]}")
    return " | ".join(segs)


def cx_impl(res, nobs):
    """the table the real run left in `Observable.results`, columns in the order `evaluate_observables` wrote them"""
    if res.get("hang"):
        return "hang"
    if res.get("crash") or res.get("exc") or "results" not in res:
        return "crash"
    t = cv_table(res, nobs)
    toks = [f"cols={t.shape[1]}"]
    for col in eval_columns(res):
        toks.append(f"e{col}")
        toks += [ib.fmt(t[j, col]) if 0 <= col < t.shape[1] else "unallocated" for j in range(nobs)]
    return " ".join(toks)


def oracle_cx(spec, order, res):
    bad = terminated(res, "sampling run (column-exact)")
    if bad:
        return bad
    n, ops = spec["n"], spec["ops"]
    sampling = [i for i, op in enumerate(ops) if op["op"] == "b" and lc.label_padded(op.get("label"))]
    t = cv_table(res, len(order))
    if t.shape[1] != len(sampling) + 2:
        return {"ok": False, "detail": f"{t.shape[1]} result columns for {len(sampling)} labelled barriers"}
    if eval_columns(res) != list(range(t.shape[1])):
        return {"ok": False, "detail": f"columns written {eval_columns(res)}, allocated 0..{t.shape[1] - 1}"}
    for k, upto in enumerate([0] + sampling + [len(ops)]):
        want = cv_reference(spec, order, upto)
        col = t[:, k]
        d = float(np.max(np.abs(col - want))) if len(want) else 0.0
        CX["dev"] = max(CX["dev"], d)
        CX["entries"] += len(want)
        CX["rows"] += 1
        if not np.all(np.isfinite(col)) or d > CV_TOL:
            j = int(np.argmax(np.abs(col - want)))
            lab = lc.observable_list(n)[order[j]]
            return {"ok": False, "detail": f"column {k}: object {j} of the user's list (<{lab[0]}@{lab[1]}>) holds {col[j]:.12g}, "
                                           f"the state vector of the circuit prefix (first {upto} instructions) gives {want[j]:.12g}"}
    CX["circuits"] += 1
    return {"ok": True, "detail": f"{t.shape[0]} objects x {t.shape[1]} columns equal the prefix-state expectation values"}


def cx_jobs(inp):
    return [{"spec": inp["spec"], "obs_order": inp["obs_order"], "mode": "ss"}]


def run_cx(inp, results):
    spec, order = inp["spec"], inp["obs_order"]
    (res,) = results
    nlab = sum(op["op"] == "b" and lc.label_padded(op.get("label")) for op in spec["ops"])
    ngate = sum(op["op"] in ("g1", "g2") for op in spec["ops"])
    nrev = sum(op["op"] == "g2" and op["a"] > op["b"] for op in spec["ops"])
    return [{"kind": "column-exact", "req": cx_request(spec, order) if lc.ascii_labels(spec["ops"]) else None,
             "impl": cx_impl(res, len(order)), "oracle": oracle_cx(spec, order, res),
             "sig": "cx:" + spec["init"] + ":" + spec_sig(spec) + "|" + ",".join(map(str, order)) + "|" +
                    ";".join(",".join(op.get("cs", [])) for op in spec["ops"] if op["op"] in ("g1", "g2")),
             "nontrivial": nlab >= 1 and ngate >= 2, "reversed_two_qubit_gates": nrev}]


def gen_cx(rng, tier):
    n = {"quick": 40, "thorough": 400, "search": 80}.get(tier, 40)
    inputs = [cx_circuit(rng) for _ in range(n)]
    res = cv_run_many([j for inp in inputs for j in cx_jobs(inp)]) if inputs else []
    for inp, r in zip(inputs, res):
        PRE[key_of(inp)] = [r]
    return inputs


def gen_all(rng, tier):
    yield from gen(rng, tier)
    yield from gen_cv(random.Random(rng.random()), tier)
    yield from gen_cx(random.Random(rng.random()), tier)


def run(inp):
    kind = str(inp["kind"]).split(":")[-1]      # "replay:corpus:modes" → "modes"
    inp = dict(inp, kind=kind)
    if kind == "front":
        return run_front(inp)
    if kind == "count":
        return run_count(inp)
    if kind == "column-values":
        results = PRE.pop(key_of(inp), None)
        return run_cv(inp, results if results is not None else cv_run_many(cv_jobs(inp)))
    if kind == "column-exact":
        results = PRE.pop(key_of(inp), None)
        return run_cx(inp, results if results is not None else cv_run_many(cx_jobs(inp)))
    results = PRE.pop(key_of(inp), None)
    if results is None:
        results = lc.run_many(jobs_for(inp))
    if kind == "modes":
        return run_modes(inp, results)
    raise ValueError(f"unknown kind {kind}")


def spec_report():
    return [{"name": "oracle deviations on this run (clean tree: < 5e-13)", "ok": True, "worst_dev": WORST["dev"],
             "columns_compared_with_prefix_states": WORST["columns_checked"],
             "partial_labelled_barrier_columns_not_compared_by_the_unkeyed_oracles": WORST["partial_columns_skipped"],
             "tolerance": TOL},
            {"name": "column-values (extension xk16): every (object, column) entry vs prefix state vector (clean tree: < 1e-12)", "ok": True,
             "cv_worst_dev": CV["dev"], "entries_compared": CV["entries"], "columns_compared": CV["columns"],
             "circuits_fully_compared": CV["circuits"], "tolerance": CV_TOL,
             "hypothesis_Represents_gate_applications_checked": CV.get("steps", 0), "worst_step_dev": CV.get("step_dev", 0.0)},
            {"name": "column-exact (extension x16d): float oracle alongside the exact tie (clean tree: < 1e-12)", "ok": True,
             "cx_worst_dev": CX["dev"], "entries_compared": CX["entries"], "columns_compared": CX["rows"],
             "circuits_fully_compared": CX["circuits"], "tolerance": CV_TOL}]


if __name__ == "__main__":
    random.seed(0)
    ib.main(
        "C16", gen_all, run, driver="Layers",
        rule="distinct = different (mode, width, instruction sequence incl. marker kinds and qubit sets); nontrivial = at "
             "least one marker and two instructions (runs) / front of at least two nodes / at least one labelled barrier (count)",
        trusted_base=[
            "qiskit circuit_to_dag / front_layer / remove_op_node modelled as the wire-dependency front of an instruction list (value-tied on every run against the real DAG)",
            "qiskit Statevector of the circuit prefixes as the reference for the sampled columns",
            "a child that does not answer within VERIF_RUN_TIMEOUT (45 s; typical run < 1 s) is reported as non-termination",
        ],
        assumptions=[
            "labels are ASCII (Python str.strip/str.upper modelled on code points < 128)",
            "columns of *partial* labelled barriers are trace-tied; their values are judged only by the oracle kind `partial-labelled-barrier` (known finding D27, key C16:partial-labelled-barrier), never by the unkeyed oracles",
        ],
        spec=spec_report,
    )
