"""C14 — implementation side: a scheduled jump acts exactly once, at its scheduled time.

trace tie  : the real analog_tjm_1 / analog_tjm_2 run with every collaborator in the `analog_tjm` namespace wrapped
             (pipeline_common.traced_tjm); the recorded event sequence must equal the model's trace.  Two requests per
             run: `sim …` (the model derives the grid from (T, dt) with Model.Grid, the firing indices from the jump
             *times* with Model.SJump and the trace with Model.Pipeline) and `trace …` (jump *indices* given).
value tie  : real `has_scheduled_jump` and `apply_scheduled_jumps` (which list positions are contracted, observed through
             the `oe` name of the scheduled_jumps module) vs Model.SJump, on grid times, perturbed times, far times
             (D17) and tolerance-straddling times.
localop    : (extension, `localop_common.py`) what the applied operation does to the state: the real `apply_scheduled_jumps` (one-site
             and adjacent two-site asymmetric user matrices, d = 2 and 3, L = 2..5, random entangled chains), the jump branch of the
             real `stochastic_process` (forced draw and choice; one-site, adjacent, long-range pair with explicit factors) and
             `apply_single_qubit_gate`: dense vector after = embedded operator · dense vector before, renormalised where the code
             renormalises, to 1e-10; value ties of every contraction, of `merge_mps_tensors`, of the merged contraction, of the SVD
             input of `split_mps_tensor` and of `to_vec()` after the contraction against `Model/LocalOp.lean`.
oracle     : `simulator.run` with `NoiseModel(scheduled_jumps=…)` on 2–3 site chains vs exact dense evolution with the
             operators applied once on arrival at t_m and renormalised; columns before t_m must equal the run without
             the jump.  One-site and adjacent two-site operators, library names and user matrices, orders 1 and 2,
             several jumps, equal times, both sample_timesteps settings.
"""
from __future__ import annotations

import random
import types
from fractions import Fraction

import numpy as np

import implbase as ib
import localop_common as lo
import pipeline_common as pc
from mqt.yaqs.core.methods import scheduled_jumps as sj_mod

DTS = [0.1, 0.05, 0.2, 0.01, 0.025, 0.3, 0.125, 1.0 / 3.0, 0.07]
ORACLE_TOL = 1e-7      # measured clean-tree deviation from the dense reference (120 runs): 5e-14; a jump one step off: > 1e-2


# ------------------------------------------------------------------------------------------------ generators
def gen(rng, tier):
    n_trace = {"quick": 26, "thorough": 160, "search": 30}.get(tier, 26)
    n_match = {"quick": 140, "thorough": 1500, "search": 60}.get(tier, 140)
    n_sim = {"quick": 36, "thorough": 400, "search": 120}.get(tier, 44)
    # extension: local operator application = dense operator (cheap, so first; its own PRNG so that the seeds of the other
    # kinds are what they were)
    n_local = {"quick": 60, "thorough": 600, "search": 150}.get(tier, 60)
    lrng = random.Random("localop:" + str(rng.getstate()[1][:3]))
    for what in ("sj1", "sj2", "lot1", "lot2", "lotf", "gate"):
        yield {"kind": "localop", "sub": lrng.randrange(1 << 30), "what": what}
    for _ in range(n_local):
        yield {"kind": "localop", "sub": lrng.randrange(1 << 30)}
    if tier == "search":      # oracles are what matters
        for _ in range(n_sim):
            yield {"kind": "simrun", "sub": rng.randrange(1 << 30)}
        for _ in range(n_trace):
            yield {"kind": "trace", "sub": rng.randrange(1 << 30)}
        for _ in range(n_match):
            yield {"kind": "match", "sub": rng.randrange(1 << 30)}
        return
    yield {"kind": "template", "names": ["x", "z", "y"], "site": 1}
    yield {"kind": "template", "names": ["z", "x"], "site": 0}
    # interleave so that a budget cut keeps every kind
    plan = ["trace"] * n_trace + ["match"] * n_match + ["simrun"] * n_sim
    rng.shuffle(plan)
    # the systematic part first: every (order, sample) for small n with one jump
    for order in (1, 2):
        for samp in (True, False):
            yield {"kind": "trace", "sub": rng.randrange(1 << 30), "order": order, "samp": samp}
    # a two-site user operator with a tiny prefactor hitting an entangled bond (rank > 2 after ten steps on four sites): the jumped
    # state has squared norm far below the truncation threshold, and must still be the renormalised L|psi>
    for order in (1, 2):
        yield {"kind": "simrun", "sub": rng.randrange(1 << 30), "L": 4, "n": 15, "dt": 0.1, "order": order, "samp": True,
               "jumps": [{"m": 10, "site": 1, "two": True, "op": "user", "scale": rng.choice([1e-6, 1e-7, 1e-8])}]}
    for k in plan:
        yield {"kind": k, "sub": rng.randrange(1 << 30)}


def jump_time(rng, m, dt, times):
    """how a user would write the time of grid point m"""
    style = rng.choice(["grid", "mul", "dec", "dec"])
    if style == "grid" and m < len(times):
        return float(times[m])
    if style == "mul":
        return float(m * dt)
    return float(f"{m * dt:.10g}")


# ------------------------------------------------------------------------------------------------ trace tie
def run_trace(inp):
    rng = random.Random(inp["sub"])
    order = inp.get("order", rng.choice([1, 2]))
    samp = inp.get("samp", rng.random() < 0.6)
    n = inp.get("n", rng.choice([2, 3, 3, 4, 4, 5, 6, 7]))
    dt = inp.get("dt", rng.choice(DTS))
    T = float(inp["T"]) if "T" in inp else float((n - 1) * dt) if rng.random() < 0.7 else float(f"{(n - 1) * dt:.10g}")
    mode = rng.choice(["TDVP", "TDVP", "BUG"])
    L = rng.choice([2, 2, 3])
    # grid as the implementation builds it (needed to phrase jump times the way a user would)
    times = [float(t) for t in pc.AnalogSimParams(elapsed_time=T, dt=dt).times]
    if "jump_idx" in inp:
        idx = list(inp["jump_idx"])
    else:
        cnt = rng.choice([1, 1, 2, 3])
        lo = 0 if rng.random() < 0.15 else 1
        idx = [rng.randrange(lo, len(times) + (1 if rng.random() < 0.1 else 0)) for _ in range(cnt)]
        if cnt >= 2 and rng.random() < 0.4:
            idx[1] = idx[0]          # two jumps at the same time
    sites_choices = [[0], [L - 1], [0, 1]]
    jumps = []
    for m in idx:
        sites = rng.choice(sites_choices)
        name = rng.choice(["x", "y", "z"]) if len(sites) == 1 else rng.choice(["crosstalk_xx", "crosstalk_zy"])
        jumps.append({"time": jump_time(rng, m, dt, times), "sites": sites, "name": name})
    procs = None
    if rng.random() < 0.6:
        procs = [{"name": "lowering", "sites": [rng.randrange(L)], "strength": rng.choice([0.05, 0.3])}]
        if rng.random() < 0.3:
            procs.append({"name": "pauli_z", "sites": [0], "strength": 0.1})
    got = pc.guarded(pc.traced_tjm, (order, T, dt, samp, jumps, procs, L, mode), timeout=120)
    if got[0] != "ok":
        # a raising pipeline is a failing input of the property (jumps on the grid must be applied, not crash)
        return {"req": None, "impl": None, "kind": "trace", "sig": f"trace-crash:{order}:{samp}",
                "oracle": {"ok": False, "detail": f"analog_tjm_{order} {got[0]}: {got[1] if len(got) > 1 else ''} "
                                                   f"(T={T}, dt={dt}, sample_timesteps={samp}, jumps={jumps})"}}
    r = got[1]
    backend = "tjm1" if order == 1 else "tjm2"
    tj = [j["time"] for j in jumps]
    # razor edge: some |tj - t_k| within 1e-10 (relative) of the tolerance dt*1e-3
    edge = False
    atol = Fraction(dt) / 1000
    for a in tj:
        for t in r["times"]:
            d = abs(Fraction(a) - Fraction(t))
            if abs(d - atol) <= atol / 10**10:
                edge = True
    impl = f"{r['n']} " + " ".join(r["tokens"])
    out = [{
        "req": f"sim {backend} {int(samp)} 1 {pc.bits(T)} {pc.bits(dt)} | {ib.fracs(tj)}",
        "impl": impl, "oracle": None, "edge": edge, "kind": "trace-sim",
        "sig": f"sim:{backend}:{r['n']}:{int(samp)}:{sorted(set(idx))}:{mode}:{procs is not None}",
        "nontrivial": any(tok.lstrip("c").startswith("S") for tok in r["tokens"]),
        "meta": {"L": L, "mode": mode, "jumps": jumps, "times": r["times"]},
    }]
    # second request: indices instead of times (only meaningful when every jump sits on the grid it was written for)
    J = [m for m in idx if m < r["n"]]
    out.append({
        "req": f"trace {backend} {r['n']} {int(samp)} 1 | {' '.join(str(m) for m in J)}",
        "impl": " ".join(r["tokens"]), "oracle": None, "edge": edge, "kind": "trace-idx",
        "sig": f"idx:{backend}:{r['n']}:{int(samp)}:{sorted(J)}",
        "nontrivial": bool(J),
    })
    # direct reading of the trace (model-independent): each on-grid jump index m >= 1 is applied exactly once to the
    # propagated line of every column j >= m — checked on the real event list by replaying object identities
    probs = check_trace_property(r["tokens"], set(m for m in J if m >= 1), r["n"], samp)
    out.append({"req": None, "impl": None, "kind": "trace-oracle", "sig": f"tro:{backend}:{r['n']}:{int(samp)}:{sorted(J)}",
                "oracle": {"ok": not probs, "detail": "; ".join(probs) or "every scheduled index applied once per column"}})
    return out


def check_trace_property(tokens, J, n, samp):
    """replay the recorded events: history of the propagated object and of the current copy; at each E<col> the
    measured history must contain S<m> exactly once for m <= column time and never for m > column time"""
    main, copy, probs = [], [], []
    for tok in tokens:
        if tok == "F":
            copy = list(main)
        elif tok.startswith("C") and not tok.startswith("c"):
            continue
        elif tok.startswith("c"):
            body = tok[1:]
            if body.startswith("E"):
                col = int(body[1:])
                probs += _check_col(copy, col if samp else n - 1, J)
            else:
                copy.append(body)
        elif tok.startswith("E"):
            col = int(tok[1:])
            probs += _check_col(main, col if samp else n - 1, J)
        else:
            main.append(tok)
    return probs


def _check_col(hist, j, J):
    probs = []
    for m in J:
        c = hist.count(f"S{m}")
        want = 1 if m <= j else 0
        if c != want:
            probs.append(f"column t_{j}: operator of t_{m} applied {c} times (expected {want})")
        elif want == 1:
            before = hist[: hist.index(f"S{m}")].count("U")
            if before != m:
                probs.append(f"column t_{j}: operator of t_{m} applied after {before} steps")
    return probs


# ------------------------------------------------------------------------------------------------ value tie
class _OeSpy:
    def __init__(self, real, ops, log):
        self._real, self._ops, self._log = real, ops, log

    def contract(self, expr, a, *rest, **kw):
        for i, o in enumerate(self._ops):
            if a is o:
                self._log.append(i)
        return self._real.contract(expr, a, *rest, **kw)

    def __getattr__(self, name):
        return getattr(self._real, name)


def real_applied(tjs, t, dt):
    """positions of scheduled_jumps that the real apply_scheduled_jumps contracts at time t"""
    L = 2
    jumps = []
    for i, a in enumerate(tjs):
        sites = [0] if i % 2 == 0 else [0, 1]
        mat = np.eye(2 if len(sites) == 1 else 4, dtype=complex) * (1.0 + 0.01 * i)
        jumps.append({"time": a, "sites": sites, "name": f"user{i}", "matrix": mat})
    nm = pc.NoiseModel(scheduled_jumps=jumps)
    ops = [j["matrix"] for j in nm.scheduled_jumps]
    state = pc.MPS(L, state="x+")
    sp = pc.AnalogSimParams(observables=[pc.Observable(pc.Z(), 0)], elapsed_time=1.0, dt=dt, show_progress=False)
    log: list[int] = []
    real = sj_mod.oe
    sj_mod.oe = _OeSpy(real, ops, log)
    try:
        sj_mod.apply_scheduled_jumps(state, nm, t, sp)
    finally:
        sj_mod.oe = real
    has = bool(sj_mod.has_scheduled_jump(nm, t, dt))
    return log, has


def run_match(inp):
    rng = random.Random(inp["sub"])
    if "tjs" in inp:
        tjs, t, dt = [float(x) for x in inp["tjs"]], float(inp["t"]), float(inp["dt"])
        style = "fixed"
    else:
        dt = rng.choice(DTS + [1e-3, 1e-3])
        style = rng.choice(["grid", "grid", "far", "far", "straddle", "perturbed", "random"])
        cnt = rng.choice([1, 1, 2, 3, 4])
        if style == "far":
            k = rng.choice([99_899, 99_900, 99_999, 100_000, 100_001, 250_000, 1_000_003, 12_345_678])
        else:
            k = rng.randrange(0, 400)
        t = float(k * dt)
        ms = [k + rng.choice([0, 0, 1, -1, 2, 5]) for _ in range(cnt)]
        tjs = [float(max(m, 0) * dt) if rng.random() < 0.6 else float(f"{max(m, 0) * dt:.12g}") for m in ms]
        if style == "straddle":
            f = rng.choice([0.5, 0.999, 0.9999999, 1.0000001, 1.001, 2.0])
            tjs[0] = t + f * dt * 1e-3 * rng.choice([1, -1])
        if style == "perturbed":
            tjs[0] = t * (1 + rng.choice([1, -1, 3]) * 2.0**-52)
        if style == "random":
            tjs = [t + rng.uniform(-2, 2) * dt * rng.choice([1e-3, 1e-2, 1]) for _ in range(cnt)]
    applied, has = real_applied(tjs, t, dt)
    atol = Fraction(dt) / 1000
    edge = any(abs(abs(Fraction(a) - Fraction(t)) - atol) <= atol / 10**10 for a in tjs)
    base = f"{ib.frac(t)} {ib.frac(dt)} | {ib.fracs(tjs)}"
    sig = f"{style}:{len(tjs)}:{len(applied)}"
    return [
        {"req": "has " + base, "impl": "1" if has else "0", "oracle": None, "edge": edge, "kind": "match-has",
         "sig": "has:" + sig, "nontrivial": has},
        {"req": "applied " + base, "impl": " ".join(str(i) for i in applied) or "-", "oracle": None, "edge": edge,
         "kind": "match-applied", "sig": "app:" + sig, "nontrivial": bool(applied)},
    ]


def run_far(inp):
    """D17: a jump at t_m far out on the grid must be found at k = m only (direct oracle on has_scheduled_jump)"""
    dt, m = float(inp["dt"]), int(inp["m"])
    nm = pc.NoiseModel(scheduled_jumps=[{"time": float(m * dt), "sites": [0], "name": "x"}])
    hits = [k for k in range(m - 3, m + 4) if sj_mod.has_scheduled_jump(nm, float(k * dt), dt)]
    out = []
    for k in (m - 1, m, m + 1):
        out.append({"req": f"match {ib.frac(float(m * dt))} {ib.frac(float(k * dt))} {ib.frac(dt)}",
                    "impl": "1" if k in hits else "0", "oracle": None, "kind": "match-far", "sig": f"far:{m}:{k - m}"})
    out.append({"req": None, "impl": None, "kind": "far-oracle", "sig": f"far:{m}:{dt}",
                "oracle": {"ok": hits == [m], "detail": f"jump at t_{m} (dt={dt}) matches grid indices {hits}"}})
    return out


# ------------------------------------------------------------------------------------------------ oracle
def _simrun_child(L, order, T, dt, samp, jumps, vecs, Jc, g):
    mps, _ = pc.product_state(vecs)
    H = pc.MPO.ising(L, Jc, g)
    obs, _ = pc.all_site_observables(L)
    nm = pc.NoiseModel(scheduled_jumps=jumps) if jumps is not None else None
    sp = pc.AnalogSimParams(observables=obs, elapsed_time=T, dt=dt, num_traj=1, order=order, sample_timesteps=samp,
                            show_progress=False, threshold=1e-12, max_bond_dim=64)
    pc.simulator.run(mps, H, sp, nm, parallel=False)
    return [np.asarray(o.results, dtype=float).tolist() for o in obs], [float(t) for t in sp.times]


LIB2 = ["crosstalk_xx", "crosstalk_xy", "crosstalk_zx", "crosstalk_yz"]


def build_jumps(rng, L, n, dt, times, spec=None):
    """returns (jump dicts for yaqs, {index: [dense operators]})"""
    jumps, dense = [], {}
    items = spec
    if items is None:
        cnt = rng.choice([1, 1, 2, 2, 3])
        items = []
        for c in range(cnt):
            m = rng.randrange(1, n)
            if c == 1 and rng.random() < 0.4:
                m = items[0]["m"]
            two = L >= 2 and rng.random() < 0.4
            s = rng.randrange(L - 1) if two else rng.randrange(L)
            kind = rng.choice(["lib", "lib", "user"])
            items.append({"m": m, "site": s, "two": two, "op": kind})
    for it in items:
        m, s, two = it["m"], it["site"], it["two"]
        d = {"time": jump_time(rng, m, dt, times), "sites": [s, s + 1] if two else [s]}
        if it["op"] == "user":
            dim = 4 if two else 2
            mat = np.array([[complex(rng.uniform(-1, 1), rng.uniform(-1, 1)) for _ in range(dim)] for _ in range(dim)])
            mat = mat + 1.5 * np.eye(dim)      # keep it well away from annihilating the state
            # the operator's scale is irrelevant after the renormalisation: a tiny or huge user matrix must give the same values
            mat = mat * it.setdefault("scale", rng.choice([1.0, 1.0, 1e-5, 1e-6, 1e-7, 1e3]))
            d["name"] = "user"
            d["matrix"] = mat
        elif it["op"] == "lib":
            d["name"] = rng.choice(LIB2 if two else ["x", "y", "z"])
            mat = np.kron(pc.PAULI[d["name"][-2]], pc.PAULI[d["name"][-1]]) if two else pc.PAULI[d["name"]]
        else:                                   # explicit library name given by a corpus entry
            d["name"] = it["op"]
            mat = np.kron(pc.PAULI[d["name"][-2]], pc.PAULI[d["name"][-1]]) if two else pc.PAULI[d["name"]]
        jumps.append(d)
        dense.setdefault(m, []).append(pc.embed(np.asarray(mat, dtype=complex), s, L))
    return jumps, dense, items


def run_simrun(inp):
    rng = random.Random(inp["sub"])
    L = inp.get("L", rng.choice([2, 2, 3, 4]))           # 4 sites: the middle bond can carry rank > 2 when a jump hits it
    order = inp.get("order", rng.choice([1, 2]))
    samp = inp.get("samp", rng.random() < 0.75)
    n = inp.get("n", rng.choice([3, 4, 5, 6, 7]))        # grid points
    dt = inp.get("dt", rng.choice([0.1, 0.05, 0.2, 0.125, 0.07]))
    T = float((n - 1) * dt) if rng.random() < 0.6 else float(f"{(n - 1) * dt:.10g}")
    Jc, g = rng.choice([1.0, 0.6]), rng.choice([0.7, 1.1])
    vecs = inp.get("vecs") or pc.site_vecs(rng, L)
    times = [float(t) for t in pc.AnalogSimParams(elapsed_time=T, dt=dt).times]
    if len(times) != n:
        return {"req": None, "impl": None, "oracle": None, "kind": "simrun-skip", "sig": "skip", "nontrivial": False}
    jumps, dense_ops, items = build_jumps(rng, L, n, dt, times, inp.get("jumps"))
    a = pc.guarded(_simrun_child, (L, order, T, dt, samp, jumps, vecs, Jc, g), timeout=120)
    b = pc.guarded(_simrun_child, (L, order, T, dt, samp, None, vecs, Jc, g), timeout=120)
    label = f"L={L} order={order} T={T} dt={dt} sample_timesteps={samp} jumps={[(it['m'], it['site'], it['two'], it['op']) for it in items]}"
    if a[0] != "ok" or b[0] != "ok":
        bad = a if a[0] != "ok" else b
        return {"req": None, "impl": None, "kind": "simrun", "sig": f"simrun-crash:{order}",
                "oracle": {"ok": False, "detail": f"simulator.run {bad[0]}: {bad[1] if len(bad) > 1 else ''} [{label}]"}}
    res, _ = a[1]
    res0, _ = b[1]
    res, res0 = np.array(res), np.array(res0)
    _, psi0 = pc.product_state(vecs)
    _, mats = pc.all_site_observables(L)
    Hd = pc.ising_dense(L, Jc, g)
    ref = pc.dense_reference(psi0, Hd, dt, n - 1, dense_ops, mats)
    ref0 = pc.dense_reference(psi0, Hd, dt, n - 1, {}, mats)
    probs = []
    mfirst = min(dense_ops)
    # on four sites a split may discard weight up to the threshold 1e-12 of these runs, i.e. amplitudes of 1e-6 (on two and three
    # sites every bond is at most min_bond_dim = 2 and nothing is ever discarded): the comparison with the dense reference allows 1e-4
    # there (largest clean-tree deviation seen over 8 seeds: 1.4e-6; a jump applied a step early/late or twice: > 1e-2)
    ORACLE_TOL = globals()["ORACLE_TOL"] if L <= 3 else 1e-4  # noqa: N806
    if samp:
        if res.shape != ref.shape:
            probs.append(f"result shape {res.shape}, expected {ref.shape}")
        else:
            pre = float(np.abs(res[:, :mfirst] - res0[:, :mfirst]).max())
            if pre > ORACLE_TOL:
                probs.append(f"values before t_{mfirst} differ from the run without the jump by {pre:.3e}")
            dev = np.abs(res - ref).max(axis=0)
            badc = [int(c) for c in np.where(dev > ORACLE_TOL)[0]]
            if badc:
                probs.append(f"columns {badc} differ from 'operator applied once at its time' by {dev[badc].max():.3e}")
    else:
        if res.shape[1] != 1:
            probs.append(f"result has {res.shape[1]} columns with sample_timesteps=False")
        else:
            dev = float(np.abs(res[:, 0] - ref[:, -1]).max())
            if dev > ORACLE_TOL:
                probs.append(f"final value differs from 'operator applied once at its time' by {dev:.3e}")
    signal = float(np.abs(ref - ref0).max())
    return {"req": None, "impl": None, "kind": "simrun", "edge": False,
            "sig": f"simrun:{L}:{order}:{int(samp)}:{n}:{sorted((it['m'], it['two'], it['op']) for it in items)}",
            "nontrivial": signal > 1e-3,
            "oracle": {"ok": not probs, "detail": ("; ".join(probs) + f" [{label}]") if probs else f"max dev ok, jump signal {signal:.2e} [{label}]"}}


def run(inp):
    res = _run(inp)
    if "corpus_file" in inp:      # keep corpus cases recognisable in the evidence
        many = res if isinstance(res, list) else [res]
        for r in many:
            r["kind"] = "corpus:" + str(r.get("kind", inp["kind"]))
            r.setdefault("meta", {})["corpus_file"] = inp["corpus_file"]
    return res


def run_template(inp):
    """the operator of a scheduled jump is the one named in *this* model's specification: one dict reused (re-labelled) for several
    NoiseModels must give each model its own operator, and the caller's dict is left as it was"""
    import copy as _copy

    import numpy as _np

    from mqt.yaqs.core.data_structures.networks import MPS
    from mqt.yaqs.core.data_structures.noise_model import NoiseModel
    from mqt.yaqs.core.data_structures.simulation_parameters import AnalogSimParams, Observable
    from mqt.yaqs.core.libraries.gate_library import X, Y, Z
    from mqt.yaqs.core.methods.scheduled_jumps import apply_scheduled_jumps

    names = inp.get("names", ["x", "z", "y"])
    site = int(inp.get("site", 1))
    template = {"time": 0.2, "sites": [site], "name": names[0]}
    probs = []
    sp = AnalogSimParams([Observable(Z(), 0)], elapsed_time=0.4, dt=0.1, show_progress=False)
    want = {"x": (1.0, 0.0, 0.0), "y": (0.0, 1.0, 0.0), "z": (0.0, 0.0, 1.0)}     # <X>,<Y>,<Z> signature of P|psi> for psi below
    for nm_name in names:
        template["name"] = nm_name
        before = _copy.deepcopy({k: v for k, v in template.items()})
        model = NoiseModel(scheduled_jumps=[template])
        if set(template) != set(before) or any(not _np.array_equal(template[k], before[k]) for k in before):
            probs.append(f"NoiseModel(scheduled_jumps=[d]) changed the caller's dict d: keys {sorted(before)} -> {sorted(template)}")
        # |psi> = generic single-qubit state on `site`; applying P and measuring <P> gives <psi|P|psi> again, other Paulis flip sign
        st = MPS(3, state="zeros")
        th, ph = 0.7, 0.4
        st.tensors[site] = _np.array([_np.cos(th / 2), _np.exp(1j * ph) * _np.sin(th / 2)], dtype=complex).reshape(2, 1, 1)
        ref = {p: float(MPS.expect(_copy.deepcopy(st), Observable(g(), site))) for p, g in (("x", X), ("y", Y), ("z", Z))}
        out_state = apply_scheduled_jumps(_copy.deepcopy(st), model, 0.2, sp)
        got = {p: float(out_state.expect(Observable(g(), site))) for p, g in (("x", X), ("y", Y), ("z", Z))}
        exp = {p: (ref[p] if p == nm_name else -ref[p]) for p in ref}
        if max(abs(got[p] - exp[p]) for p in ref) > 1e-9:
            probs.append(f"model built for scheduled jump '{nm_name}' applied a different operator: Pauli expectations {got}, expected {exp}")
    return {"req": None, "impl": None, "kind": "template-reuse", "oracle": {"ok": not probs, "detail": "; ".join(probs[:2]) or f"names {names}: each model applied its own operator"},
            "sig": f"template:{names}:{site}", "nontrivial": True}


def _run(inp):
    k = inp["kind"]
    if k == "template":
        return run_template(inp)
    if k == "trace":
        return run_trace(inp)
    if k == "match":
        return run_match(inp)
    if k == "far":
        return run_far(inp)
    if k == "simrun":
        return run_simrun(inp)
    if k == "localop":
        return lo.run_localop(inp)
    raise ValueError(k)


def spec():
    out = []
    for L in (2, 3):
        d = float(np.abs(pc.MPO.ising(L, 1.0, 0.7).to_matrix() - pc.ising_dense(L, 1.0, 0.7)).max())
        out.append({"name": f"dense Ising reference equals MPO.ising({L}).to_matrix()", "ok": d < 1e-12, "worst": d})
    out += lo.spec()
    return out


if __name__ == "__main__":
    ib.main("C14", gen, run, driver="Pipeline",
            rule="trace: seeded (order, sample_timesteps, n=2..7, dt, TDVP/BUG, noise processes, 1-3 jumps incl. equal "
                 "times, index 0, off-grid index; times written as times[m], m*dt or a decimal literal); match: grid, far "
                 "(1e5..1e7 steps), tolerance-straddling, 1-ulp perturbed and random times; simrun: L=2,3, orders 1/2, "
                 "library and user operators on 1 or 2 adjacent sites.  distinct = distinct signature (backend, n, sample, "
                 "index set, …); non-trivial = a scheduled operator is actually applied / changes a value by > 1e-3.  "
                 "localop: random entangled chains with dyadic tensor entries, L=2..5, d=2,3, bond caps 1..9, asymmetric "
                 "non-Hermitian operators; apply_scheduled_jumps (1 site / adjacent pair), forced jump branch of "
                 "stochastic_process (1 site / adjacent pair / long-range factors), apply_single_qubit_gate",
            trusted_base=["numpy/scipy dense evolution (expm) as the reference of the oracle",
                          "object identity decides which MPS is the propagated state and which the copy",
                          "localop: numpy kron / einsum dense reference built from the tensors (site 0 most significant), qiskit "
                          "Operator for the gate matrix"],
            assumptions=["jump and grid times handed to the model are the binary64 values the implementation saw",
                         "the oracle runs without noise processes (deterministic); with processes only the event trace is tied"],
            spec=spec, budget_s={"quick": 100, "thorough": 1100, "search": 200}.get(pc.tier_from_argv(), 100))
