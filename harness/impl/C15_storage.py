"""C15 extension — the result-storage layer vs `Model.Storage` (driver `Pipeline`, requests `st…`).

What is stored where, with which shape, and how it is reduced:
  `Observable.initialize`, `Observable.trajectories / results / times`, `AnalogSimParams.aggregate_trajectories`,
  `StrongSimParams.aggregate_trajectories`, `WeakSimParams.aggregate_measurements`, and the allocate -> fill -> reduce
  sequence of `_run_analog` / `_run_strong_sim` / `_run_weak_sim`.

value ties
  st-init    the real `Observable.initialize(sim_params)` on a real parameter object: shape and dtype of `trajectories`,
             `len(results)`, the `times` attribute (the grid object / a 0-d array / not assigned) for analog x
             sample_timesteps, strong x sample_layers x num_mid_measurements, weak x shots; every kind of observable (local,
             runtime_cost / max_bond / total_bond, entropy, schmidt_spectrum, pvm); num_traj = 0, 1, …; grids of one point
             (elapsed_time = 0), non-multiples of dt, reused observables (stale `times`)                       -> `stinit`
  st-agg     the real `aggregate_trajectories` (analog and strong) on random tables of small dyadic rationals written
             into the storage `initialize` allocated (float64 and complex128; 0, 1, … trajectories; 1 … 7 columns; a
             second observable in the list; schmidt_spectrum -> concatenation)                                  -> `stagg` / `staggc`
  st-cells   `aggregate_trajectories` for a schmidt_spectrum observable whose storage has a third axis          -> `stcells`
  st-weak    the real `aggregate_measurements` on hand-made slot lists: all dicts, dict + Nones, one dict (shots = 1),
             empty dicts, `None` first, no slots                                                                -> `stweak`
ties through the real `simulator.run` (child process, hard kill)
  st-run     analog (TJM order 1 / 2, MCWF, Lindblad) and strong runs on 2-3 sites, serial and through the process-pool
             branch (in-process pool): every back-end is wrapped — the REAL back-end runs, the wrapper keeps the shape of
             what it returned and hands back a sentinel array of that shape (small dyadics depending on trajectory, row,
             column).  `Observable.initialize` is wrapped to record `len(results)` as allocated.  Compared per observable
             object: storage shape / dtype, `times`, the stored table, `results`                                -> `strun`
  st-cols    the width of the array the real back-end returned in such a run                                    -> `stcols`
  st-runweak weak runs with a sentinel `digital_tjm` that returns `shots` (as read from the object) samples: slots,
             `None in measurements`, merged counts; shots = 1 … 5, noise-free / zero-strength / noisy          -> `strunweak`
oracles (model-independent, exact `Fraction` arithmetic): one row per trajectory, one column per grid point (one with sampling
  off), row i of object o is what trajectory i computed for o, `results[k]` is the exact mean of column k (the row itself for
  one trajectory), `times` is the grid resp. the total time, merged counts total the slots' totals / the shots asked.
"""
from __future__ import annotations

import random
import warnings
from fractions import Fraction

import numpy as np

import implbase as ib
import pipeline_common as pc

warnings.simplefilter("ignore")

from mqt.yaqs.core.data_structures.simulation_parameters import (  # noqa: E402
    AnalogSimParams,
    Observable,
    StrongSimParams,
    WeakSimParams,
)
from mqt.yaqs.core.libraries.gate_library import GateLibrary, X, Y, Z  # noqa: E402

KINDS = ["loc", "diag", "entropy", "schmidt", "pvm"]
_MISSING = object()


# ------------------------------------------------------------------------------------------------ helpers
def make_obs(kind, rng, L=3):
    if kind == "loc":
        return Observable(rng.choice([X, Y, Z])(), rng.randrange(L))
    if kind == "diag":
        return Observable(rng.choice(["runtime_cost", "max_bond", "total_bond"]))
    if kind == "entropy":
        i = rng.randrange(L - 1)
        return Observable("entropy", [i, i + 1])
    if kind == "schmidt":
        i = rng.randrange(L - 1)
        return Observable("schmidt_spectrum", [i, i + 1])
    if kind == "pvm":
        return Observable(GateLibrary.pvm("".join(rng.choice("01") for _ in range(L))))
    raise ValueError(kind)


def dyadic(rng, lo=-64, hi=64, den=16):
    return rng.randrange(lo, hi + 1) / den


def times_tokens(obs, before):
    """the `times` attribute as left by `initialize`: `unset` when it is absent or still the object it was before"""
    now = getattr(obs, "times", _MISSING)
    if now is _MISSING or now is before:
        return ["unset"]
    arr = np.asarray(now)
    if arr.ndim == 0:
        return ["scalar", ib.frac(float(arr))]
    return ["grid"] + [ib.frac(float(t)) for t in arr]


def alloc_tokens(obs, before, results_len=None):
    tr = obs.trajectories
    dt = {"float64": "f64", "complex128": "c128"}.get(str(tr.dtype), str(tr.dtype))
    rl = len(obs.results) if results_len is None else results_len
    return [str(tr.shape[0]), str(tr.shape[1]) if tr.ndim == 2 else f"ndim{tr.ndim}", dt, str(rl)] + times_tokens(obs, before)


def agg_tokens(res, complex_parts=False):
    """tokens of a delivered `results` array: `values …`, or `nan <len>` when every entry is nan"""
    arr = np.asarray(res)
    if arr.ndim != 1:
        return [f"shape{arr.shape}"]
    if arr.size and np.all(np.isnan(arr.real)):
        return ["nan", str(arr.size)] + (["I", "nan", str(arr.size)] if complex_parts else [])
    out = ["values"] + [ib.frac(float(x)) for x in arr.real]
    if complex_parts:
        out += ["I", "values"] + [ib.frac(float(x)) for x in arr.imag]
    return out


def fr(x):
    return Fraction(float(x))


def exact_mean_cols(table):
    """column means of a list of rows of floats/complex, exactly"""
    T = len(table)
    cols = len(table[0])
    re = [sum(fr(complex(r[k]).real) for r in table) / T for k in range(cols)]
    im = [sum(fr(complex(r[k]).imag) for r in table) / T for k in range(cols)]
    return re, im


def close(a, b, tol=1e-12):
    return abs(float(a) - float(b)) <= tol * max(1.0, abs(float(b)))


# ------------------------------------------------------------------------------------------------ st-init
def draw_settings(rng):
    mode = rng.choice(["analog", "analog", "strong", "weak"])
    s = {"mode": mode, "num_traj": rng.choice([0, 1, 1, 2, 3, 7]), "shots": rng.choice([0, 1, 2, 5, 9]),
         "samp": rng.random() < 0.5, "nmid": rng.choice([0, 0, 1, 2, 4]), "kind": rng.choice(KINDS), "T": 0.0, "dt": 0.1, "k": None,
         "reuse": rng.random() < 0.3}
    if mode == "analog":
        style = rng.choice(["mult", "mult", "mult", "zero", "half", "lit"])
        dt = rng.choice([0.1, 0.05, 0.2, 0.125, 0.3, 0.07])
        k = rng.choice([1, 1, 2, 3, 5, 8, 12, 40])
        if style == "zero":
            k, T = 0, 0.0
        elif style == "half":
            T, k = float((k + 0.5) * dt), None
        elif style == "lit":
            T = float(f"{k * dt:.12g}")
        else:
            T = float(k * dt)
        s.update(T=T, dt=dt, k=k)
    return s


def build_params(s, obs):
    if s["mode"] == "analog":
        return AnalogSimParams([obs], elapsed_time=s["T"], dt=s["dt"], num_traj=s["num_traj"], sample_timesteps=s["samp"],
                               show_progress=False)
    if s["mode"] == "strong":
        return StrongSimParams([obs], num_traj=s["num_traj"], sample_layers=s["samp"], num_mid_measurements=s["nmid"],
                               show_progress=False)
    return WeakSimParams(shots=s["shots"], show_progress=False)


def run_init(inp):
    rng = random.Random(inp["sub"])
    s = inp.get("settings") or draw_settings(rng)
    obs = make_obs(s["kind"], rng)
    if s.get("reuse"):
        obs.initialize(AnalogSimParams([obs], elapsed_time=0.4, dt=0.2, num_traj=2, show_progress=False))
    before = getattr(obs, "times", _MISSING)
    sp = build_params(s, obs)
    obs.initialize(sp)
    impl = " ".join(alloc_tokens(obs, before))
    times = [ib.frac(float(t)) for t in sp.times] if s["mode"] == "analog" else []
    req = (f"stinit {s['mode']} {s['num_traj']} {s['shots']} {int(s['samp'])} {s['nmid']} {s['kind']} {ib.frac(s['T'])} | "
           + " ".join(times))
    # direct: the shape the property asks for
    probs = []
    rows_want = s["shots"] if s["mode"] == "weak" else s["num_traj"]
    if s["mode"] == "analog":
        npts = (s["k"] + 1) if s["k"] is not None else len(sp.times)
        cols_want = npts if s["samp"] else 1
    elif s["mode"] == "strong":
        cols_want = s["nmid"] + 2 if s["samp"] else 1
    else:
        cols_want = 1
    if obs.trajectories.shape != (rows_want, cols_want):
        probs.append(f"trajectories allocated with shape {obs.trajectories.shape}, expected ({rows_want}, {cols_want})")
    if s["mode"] == "analog":
        t = np.asarray(getattr(obs, "times", np.nan), dtype=float)
        if s["samp"]:
            want = np.arange(cols_want) * s["dt"]
            if t.shape != (cols_want,) or np.any(np.abs(t - want) > 1e-12 * np.maximum(want, 1)):
                probs.append(f"Observable.times is {t!r}, expected the grid of {cols_want} points")
        elif t.shape != () or abs(float(t) - s["T"]) > 1e-12 * max(1.0, s["T"]):
            probs.append(f"Observable.times is {t!r} with sample_timesteps=False, expected the total time {s['T']!r}")
    label = {k: v for k, v in s.items() if k != "reuse"}
    return {"req": req, "impl": impl, "kind": "st-init",
            "oracle": {"ok": not probs, "detail": ("; ".join(probs) + f" [{label}]") if probs else f"shape ({rows_want}, {cols_want})"},
            "sig": f"st-init:{s['mode']}:{rows_want}:{cols_want}:{int(s['samp'])}:{s['kind']}:{int(bool(s.get('reuse')))}",
            "nontrivial": rows_want > 1 or cols_want > 1}


# ------------------------------------------------------------------------------------------------ st-agg
def run_agg(inp):
    rng = random.Random(inp["sub"])
    T = inp.get("T", rng.choice([0, 1, 1, 2, 3, 5, 8]))
    cols = inp.get("cols", rng.choice([1, 1, 2, 3, 4, 7]))
    kind = inp.get("okind", rng.choice(["loc", "loc", "diag", "entropy", "schmidt", "pvm"]))
    front = inp.get("front", rng.choice(["analog", "strong"]))
    cplx = inp.get("cplx", rng.random() < 0.5)
    obs = make_obs(kind, rng)
    extra = [] if kind == "pvm" or rng.random() < 0.5 else [make_obs("loc", rng)]
    if front == "analog":
        samp = cols > 1 or rng.random() < 0.5
        sp = AnalogSimParams([obs] + extra, elapsed_time=(cols - 1) * 0.5 if samp else 1.5, dt=0.5, num_traj=T, sample_timesteps=samp,
                             show_progress=False)
    else:
        samp = cols > 1
        sp = StrongSimParams([obs] + extra, num_traj=T, sample_layers=samp, num_mid_measurements=max(cols - 2, 0), show_progress=False)
    for o in sp.sorted_observables:
        o.initialize(sp)
    if obs.trajectories.shape != (T, cols):          # e.g. strong, cols = 2 needs num_mid = 0 with sampling on: fine; anything else is news
        return {"req": None, "impl": None, "kind": "st-agg", "sig": f"st-agg-shape:{front}:{T}:{cols}",
                "oracle": {"ok": False, "detail": f"initialize allocated {obs.trajectories.shape}, expected ({T}, {cols}) [{front}, sampling {samp}]"}}
    is_c = obs.trajectories.dtype == np.complex128
    cplx = cplx and is_c
    table = [[(dyadic(rng) + (1j * dyadic(rng) if cplx else 0)) for _ in range(cols)] for _ in range(T)]
    if rng.random() < 0.15 and T > 1:
        table = [list(table[0]) for _ in range(T)]            # equal trajectories
    for i, row in enumerate(table):
        obs.trajectories[i] = np.array(row)
    for o in extra:
        o.trajectories[...] = 0.25
    exc = None
    try:
        sp.aggregate_trajectories()
    except Exception as e:  # noqa: BLE001
        exc = type(e).__name__
    rows_txt = " | ".join(" ".join((f"{ib.frac(z.real)} {ib.frac(z.imag)}" if cplx else ib.frac(complex(z).real)) for z in row) for row in table)
    req = f"{'staggc' if cplx else 'stagg'} {kind} {cols}" + (" | " + rows_txt if T else "")
    probs = []
    if exc:
        impl = "valueError" if exc == "ValueError" else f"raised-{exc}"
        if cplx:
            impl = impl + " I " + impl
        if not (kind == "schmidt" and T == 0):
            probs.append(f"aggregate_trajectories raised {exc}")
    else:
        impl = " ".join(agg_tokens(obs.results, complex_parts=cplx))
        res = np.asarray(obs.results)
        if kind == "schmidt":
            want = [z for row in table for z in row]
            if res.shape != (T * cols,) or any(not (close(a.real, complex(b).real) and close(complex(a).imag, complex(b).imag)) for a, b in zip(res, want)):
                probs.append(f"schmidt results {res!r} are not the concatenation of the trajectories")
        elif T >= 1:
            if res.shape != (cols,):
                probs.append(f"results has shape {res.shape}, expected one entry per column ({cols},)")
            else:
                re, im = exact_mean_cols(table)
                bad = [k for k in range(cols) if not (close(complex(res[k]).real, re[k]) and close(complex(res[k]).imag, im[k]))]
                if bad:
                    probs.append(f"results[{bad[0]}] = {res[bad[0]]!r}, the mean over the {T} trajectories of column {bad[0]} is {float(re[bad[0]])!r}"
                                 f"{'+' + repr(float(im[bad[0]])) + 'j' if cplx else ''}")
                if T == 1 and any(complex(res[k]) != complex(table[0][k]) for k in range(cols)):
                    probs.append("with one trajectory results is not that trajectory")
    return {"req": req, "impl": impl, "kind": "st-agg",
            "oracle": {"ok": not probs, "detail": ("; ".join(probs) + f" [{front}, {kind}, table {table}]") if probs else f"{T}x{cols} {front}"},
            "sig": f"st-agg:{front}:{kind}:{T}:{cols}:{int(cplx)}:{inp['sub'] % 997}", "nontrivial": T > 1 and cols >= 1}


def run_cells(inp):
    rng = random.Random(inp["sub"])
    T, cols, chi = rng.choice([1, 2, 3]), rng.choice([1, 2, 3]), rng.choice([1, 2, 4])
    obs = make_obs("schmidt", rng)
    front = rng.choice(["analog", "strong"])
    sp = (AnalogSimParams([obs], elapsed_time=0.5, dt=0.5, num_traj=T, show_progress=False) if front == "analog"
          else StrongSimParams([obs], num_traj=T, show_progress=False))
    cube = [[[dyadic(rng, 0, 16) for _ in range(chi)] for _ in range(cols)] for _ in range(T)]
    obs.trajectories = np.array(cube, dtype=float)
    sp.aggregate_trajectories()
    req = "stcells | " + " | ".join(" ; ".join(" ".join(ib.frac(x) for x in cell) for cell in row) for row in cube)
    res = np.asarray(obs.results)
    want = [x for row in cube for cell in row for x in cell]
    ok = res.shape == (len(want),) and all(float(a) == float(b) for a, b in zip(res, want))
    return {"req": req, "impl": " ".join(agg_tokens(res)), "kind": "st-cells",
            "oracle": {"ok": bool(ok), "detail": "concatenation in trajectory order" if ok else f"results {res!r}, expected {want}"},
            "sig": f"st-cells:{front}:{T}:{cols}:{chi}:{inp['sub'] % 997}", "nontrivial": T > 1}


# ------------------------------------------------------------------------------------------------ st-weak
def draw_dict(rng, total=None, nkeys=None):
    nkeys = nkeys if nkeys is not None else rng.choice([1, 1, 2, 3])
    keys = rng.sample(range(8), nkeys)
    return {k: rng.randrange(1, 6) for k in keys}


def slot_txt(d):
    if d is None:
        return "none"
    if not d:
        return "empty"
    return " ".join(f"{k}:{v}" for k, v in d.items())


def counts_txt(d):
    return " ".join(f"{k}:{v}" for k, v in d.items())


def run_weak(inp):
    rng = random.Random(inp["sub"])
    pat = inp.get("pat", rng.choice(["all", "all", "head", "head", "single", "empties", "nonefirst", "noslots", "holes", "overlap"]))
    n = rng.choice([1, 2, 3, 5, 8])
    if pat == "all":
        ms = [draw_dict(rng) for _ in range(n)]
    elif pat == "overlap":
        ms = [{rng.randrange(3): 1} for _ in range(max(n, 2))]
    elif pat == "head":
        ms = [draw_dict(rng, nkeys=3)] + [None] * max(n - 1, 1)
    elif pat == "single":
        ms = [draw_dict(rng, nkeys=rng.choice([1, 3]))]
    elif pat == "empties":
        ms = [draw_dict(rng) if rng.random() < 0.5 else {} for _ in range(max(n, 2))]
    elif pat == "nonefirst":
        ms = [None] + [draw_dict(rng) if rng.random() < 0.6 else None for _ in range(n)]
    elif pat == "holes":
        ms = [draw_dict(rng)] + [draw_dict(rng) if rng.random() < 0.5 else None for _ in range(max(n, 2))]
    else:
        ms = []
    sp = WeakSimParams(shots=len(ms), show_progress=False)
    sp.measurements = [None if d is None else dict(d) for d in ms]
    exc = None
    try:
        sp.aggregate_measurements()
    except Exception as e:  # noqa: BLE001
        exc = type(e).__name__
    impl = ("ok " + counts_txt(sp.results)).strip() if exc is None else ("err assertFirstNone" if exc == "AssertionError" else f"raised-{exc}")
    req = "stweak" + "".join(" | " + slot_txt(d) for d in ms)
    probs = []
    if exc is None:
        got = dict(sp.results)
        if list(got) != sorted(got):
            probs.append(f"results keys not sorted: {list(got)}")
        if all(d is not None for d in ms):
            want = {}
            for d in ms:
                for k, v in d.items():
                    want[k] = want.get(k, 0) + v
            if got != want:
                probs.append(f"merged counts {got}, the slots add up to {dict(sorted(want.items()))}")
            if sum(got.values()) != sum(sum(d.values()) for d in ms):
                probs.append(f"merged counts total {sum(got.values())}, the slots total {sum(sum(d.values()) for d in ms)}")
        elif ms and ms[0] is not None and got != ms[0]:
            probs.append(f"a None slot is present, results {got} are not slot 0 {ms[0]}")
    elif not (ms and ms[0] is None and exc == "AssertionError"):
        probs.append(f"aggregate_measurements raised {exc}")
    return {"req": req, "impl": impl, "kind": "st-weak",
            "oracle": {"ok": not probs, "detail": ("; ".join(probs) + f" [measurements {ms}]") if probs else pat},
            "sig": f"st-weak:{pat}:{len(ms)}:{inp['sub'] % 997}", "nontrivial": len(ms) > 1}


# ------------------------------------------------------------------------------------------------ runs through simulator.run
def sentinel(shape, j):
    """small dyadics, not affine in the trajectory index j (so a mean is neither a row nor a mid-point by accident)"""
    r, c = shape
    return np.array([[(3 * j * j + 5 * k + (j + 1) * col + (7 if (j + k + col) % 3 == 0 else 0)) / 8.0 for col in range(c)] for k in range(r)])


class _InProcessPool:
    def __init__(self, max_workers=None, mp_context=None, initializer=None, initargs=()):  # noqa: ARG002
        if initializer is not None:
            initializer(*initargs)

    def __enter__(self):
        return self

    def __exit__(self, *exc):
        return False

    def submit(self, fn, *a, **k):
        import concurrent.futures as cf

        f = cf.Future()
        try:
            f.set_result(fn(*a, **k))
        except BaseException as e:  # noqa: BLE001
            f.set_exception(e)
        return f

    def shutdown(self, *a, **k):
        pass


def _noise(nm_kind, L):
    if nm_kind == "none":
        return None
    g = 0.0 if nm_kind == "zero" else 0.1
    return pc.NoiseModel([{"name": "lowering", "sites": [0], "strength": g}, {"name": "pauli_z", "sites": [L - 1], "strength": g}])


def _run_child(cfg):
    import os

    os.environ["YAQS_MAX_WORKERS"] = "1"
    from mqt.yaqs import simulator

    rng = random.Random(cfg["sub"])
    L = cfg["L"]
    obs = [make_obs(k, rng, L) for k in cfg["kinds"]]
    rec = {"rows": {}, "shapes": [], "dtypes": [], "init_len": {}}
    orig_init = Observable.initialize

    def spy_init(self, sim_params):
        orig_init(self, sim_params)
        rec["init_len"][id(self)] = len(self.results)

    Observable.initialize = spy_init

    def wrap(real):
        def fake(args):
            r = real(args)
            j = args[0]
            rec["shapes"].append(tuple(np.shape(r)))
            rec["dtypes"].append(str(np.asarray(r).dtype))
            out = sentinel(np.shape(r), j)
            rec["rows"][j] = out.tolist()
            return out
        return fake

    par = cfg["par"]
    if par:
        simulator.ProcessPoolExecutor = _InProcessPool
        simulator.available_cpus = lambda: 3
    nm = _noise(cfg["noise"], L)
    before = [getattr(o, "times", _MISSING) for o in obs]
    if cfg["mode"] == "analog":
        for name in ("analog_tjm_1", "analog_tjm_2", "mcwf", "lindblad"):
            setattr(simulator, name, wrap(getattr(simulator, name)))
        sp = AnalogSimParams(obs, elapsed_time=cfg["T"], dt=cfg["dt"], num_traj=cfg["num_traj"], order=cfg["order"],
                             sample_timesteps=cfg["samp"], solver=cfg["solver"], show_progress=False, max_bond_dim=8)
        mps, _ = pc.product_state(pc.site_vecs(rng, L))
        simulator.run(mps, pc.MPO.ising(L, 1.0, 0.7), sp, nm, parallel=par)
        times = [float(t) for t in sp.times]
    else:
        from qiskit import QuantumCircuit

        simulator.digital_tjm = wrap(simulator.digital_tjm)
        qc = QuantumCircuit(L)
        qc.h(0)
        for b in range(cfg["nbar"]):
            qc.cx(b % (L - 1), b % (L - 1) + 1)
            qc.barrier(label="SAMPLE_OBSERVABLES")
        qc.rx(0.3, L - 1)
        qc.cx(0, 1)
        sp = StrongSimParams(obs, num_traj=cfg["num_traj"], sample_layers=cfg["samp"], show_progress=False, max_bond_dim=8)
        simulator.run(pc.MPS(L, state="zeros"), qc, sp, nm, parallel=par)
        times = []
    pos = [next(k for k, so in enumerate(sp.sorted_observables) if so is o) for o in obs]
    out = []
    for o, b in zip(obs, before):
        tr = np.asarray(o.trajectories)
        out.append({"alloc": alloc_tokens(o, b, results_len=rec["init_len"].get(id(o), -1)),
                    "table": [[complex(z) for z in row] for row in tr.tolist()] if tr.ndim == 2 else None,
                    "results": [complex(z) for z in np.asarray(o.results).ravel()], "res_shape": tuple(np.shape(o.results)),
                    "times": None if getattr(o, "times", _MISSING) is _MISSING else np.asarray(o.times, dtype=float).reshape(-1).tolist()})
    return {"obs": out, "pos": pos, "rows": rec["rows"], "shapes": rec["shapes"], "times": times, "num_traj_after": sp.num_traj}


def draw_run(rng):
    mode = rng.choice(["analog", "analog", "strong"])
    cfg = {"mode": mode, "sub": rng.randrange(1 << 30), "L": rng.choice([2, 3]), "num_traj": rng.choice([1, 2, 3, 4]),
           "noise": rng.choice(["none", "zero", "real", "real", "real"]), "samp": rng.random() < 0.6, "par": False}
    nk = rng.choice([1, 2, 3])
    cfg["kinds"] = [rng.choice(["loc", "loc", "diag", "entropy"]) for _ in range(nk)]
    if mode == "analog":
        solver, order = rng.choice([("TJM", 1), ("TJM", 2), ("MCWF", 1), ("Lindblad", 1)])
        k = rng.choice([1, 2, 3, 4])
        dt = rng.choice([0.1, 0.05, 0.2])
        cfg.update(solver=solver, order=order, k=k, dt=dt, T=float(k * dt))
        if solver != "TJM":
            cfg["kinds"] = ["loc" if kk in ("diag", "entropy") else kk for kk in cfg["kinds"]]   # dense solvers: plain operators only
    else:
        cfg.update(nbar=rng.choice([0, 1, 2, 3]))
    single = cfg["noise"] in ("none", "zero") or cfg.get("solver") == "Lindblad"
    cfg["par"] = (not single) and cfg["num_traj"] > 1 and rng.random() < 0.4
    return cfg


def run_run(inp):
    cfg = inp.get("cfg") or draw_run(random.Random(inp["sub"]))
    got = pc.guarded(_run_child, (cfg,), timeout=120)
    label = {k: v for k, v in cfg.items() if k != "sub"}
    if got[0] != "ok":
        return {"req": None, "impl": None, "kind": "st-run", "sig": f"st-run-crash:{cfg['mode']}:{cfg.get('solver')}",
                "oracle": {"ok": False, "detail": f"simulator.run {got[0]}: {got[1] if len(got) > 1 else ''} [{label}]"}}
    r = got[1]
    single = cfg["noise"] in ("none", "zero") or cfg.get("solver") == "Lindblad"
    eff = 1 if single else cfg["num_traj"]
    nmid = cfg.get("nbar", 0)
    npts = cfg["k"] + 1 if cfg["mode"] == "analog" else nmid + 2
    cols_want = npts if cfg["samp"] else 1
    out = []
    widths = sorted({s[1] for s in r["shapes"]})
    out.append({"req": f"stcols {cfg['mode']} {int(cfg['samp'])} {nmid} {len(r['times'])}", "impl": " ".join(str(w) for w in widths),
                "kind": "st-cols", "oracle": {"ok": widths == [cols_want], "detail": f"back-end returned {r['shapes'][:3]}, expected {cols_want} columns [{label}]"},
                "sig": f"st-cols:{cfg['mode']}:{cfg.get('solver')}:{cfg.get('order')}:{int(cfg['samp'])}:{cols_want}", "nontrivial": cols_want > 1})
    for oi, (o, pos, kind) in enumerate(zip(r["obs"], r["pos"], cfg["kinds"])):
        rows = [r["rows"][j][pos] for j in sorted(r["rows"])]
        times_txt = " ".join(ib.frac(t) for t in r["times"])
        req = (f"strun {cfg['mode']} {cfg['num_traj']} {int(single)} 0 {int(cfg['samp'])} {nmid} {kind} {ib.frac(cfg.get('T', 0.0))} | {times_txt}"
               + "".join(" | " + " ".join(ib.frac(x) for x in row) for row in rows))
        probs = []
        if o["table"] is None:
            impl = "ndim"
            probs.append("trajectories is not a 2-D array")
        else:
            flat = [z for row in o["table"] for z in row]
            if any(abs(z.imag) > 0 for z in flat + o["results"]):
                probs.append("imaginary parts appeared in storage fed with real rows")
            impl = " ".join(o["alloc"] + ["T"] + [ib.frac(z.real) for z in flat] + ["R"] + agg_tokens(np.array([z.real for z in o["results"]])))
            # direct checks
            shape = (len(o["table"]), len(o["table"][0]) if o["table"] else 0)
            if shape != (eff, cols_want):
                probs.append(f"object #{oi}: trajectories has shape {shape}, expected ({eff} trajectories, {cols_want} columns)")
            if sorted(r["rows"]) != list(range(eff)):
                probs.append(f"back-end ran for trajectories {sorted(r['rows'])}, expected {list(range(eff))}")
            if any(s[1] != cols_want for s in r["shapes"]):
                probs.append(f"a back-end returned shape {r['shapes'][0]}, expected {cols_want} columns")
            if shape == (eff, cols_want) and len(rows) == eff:
                for j in range(eff):
                    if [z.real for z in o["table"][j]] != [float(x) for x in rows[j]]:
                        probs.append(f"object #{oi} (row {pos} of the back-end result): trajectories[{j}] = {[z.real for z in o['table'][j]]}, "
                                     f"trajectory {j} computed {rows[j]} for it")
                        break
                if o["res_shape"] != (cols_want,):
                    probs.append(f"object #{oi}: results has shape {o['res_shape']}, expected one entry per {'grid point' if cfg['samp'] else 'run'} ({cols_want},)")
                else:
                    re, _ = exact_mean_cols(rows)
                    bad = [k for k in range(cols_want) if not close(o["results"][k].real, re[k])]
                    if bad:
                        probs.append(f"object #{oi}: results[{bad[0]}] = {o['results'][bad[0]].real!r}, the mean over {eff} trajectories of column {bad[0]} is {float(re[bad[0]])!r}")
            if cfg["mode"] == "analog":
                t = o["times"]
                if cfg["samp"]:
                    if t is None or len(t) != npts or any(abs(a - j * cfg["dt"]) > 1e-12 for j, a in enumerate(t)):
                        probs.append(f"object #{oi}: times = {t}, expected the grid of {npts} points")
                elif t is None or len(t) != 1 or abs(t[0] - cfg["T"]) > 1e-12:
                    probs.append(f"object #{oi}: times = {t} with sample_timesteps=False, expected the total time {cfg['T']}")
            if r["num_traj_after"] != cfg["num_traj"]:
                probs.append(f"num_traj left at {r['num_traj_after']}, the caller set {cfg['num_traj']}")
        out.append({"req": req, "impl": impl, "kind": "st-run",
                    "oracle": {"ok": not probs, "detail": ("; ".join(probs[:3]) + f" [{label}]") if probs else f"{eff}x{cols_want} {cfg['mode']}"},
                    "sig": f"st-run:{cfg['mode']}:{cfg.get('solver')}:{cfg.get('order')}:{int(cfg['samp'])}:{eff}:{cols_want}:{kind}:{pos}:{int(cfg['par'])}:{cfg['noise']}",
                    "nontrivial": eff > 1 or cols_want > 1})
    return out


def _runweak_child(cfg):
    import os

    os.environ["YAQS_MAX_WORKERS"] = "1"
    from qiskit import QuantumCircuit

    from mqt.yaqs import simulator

    L = 2
    seen = {}

    def fake(args):
        j, sp = args[0], args[3]
        n = sp.shots
        if n == 1:
            d = {(3 * j + 1) % 4: 1}
        else:
            a = max(n // 3, 1)
            d = {2: a, 1: n - a} if n - a > 0 else {2: a}
        seen[j] = (n, dict(d))
        return d

    simulator.digital_tjm = fake
    if cfg["par"]:
        simulator.ProcessPoolExecutor = _InProcessPool
        simulator.available_cpus = lambda: 3
    qc = QuantumCircuit(L)
    qc.h(0)
    qc.cx(0, 1)
    qc.measure_all()
    sp = WeakSimParams(shots=cfg["shots"], show_progress=False)
    simulator.run(pc.MPS(L, state="zeros"), qc, sp, _noise(cfg["noise"], L), parallel=cfg["par"])
    return {"slots": [None if d is None else dict(d) for d in sp.measurements], "results": dict(sp.results), "shots_after": sp.shots,
            "seen": seen}


def run_runweak(inp):
    rng = random.Random(inp["sub"])
    cfg = inp.get("cfg") or {"shots": rng.choice([1, 1, 2, 3, 5]), "noise": rng.choice(["none", "zero", "real", "real"]), "par": False}
    nf = cfg["noise"] in ("none", "zero")
    if "cfg" not in inp:
        cfg["par"] = (not nf) and cfg["shots"] > 1 and rng.random() < 0.4
    got = pc.guarded(_runweak_child, (cfg,), timeout=60)
    if got[0] != "ok":
        return {"req": None, "impl": None, "kind": "st-runweak", "sig": f"st-runweak-crash:{cfg}",
                "oracle": {"ok": False, "detail": f"weak simulator.run {got[0]}: {got[1] if len(got) > 1 else ''} [{cfg}]"}}
    r = got[1]
    dicts = [r["seen"][j][1] for j in sorted(r["seen"])]
    req = f"strunweak {cfg['shots']} {int(nf)}" + "".join(" | " + slot_txt(d) for d in dicts)
    saw_none = any(d is None for d in r["slots"])
    impl = " ".join([str(int(saw_none)), "S"] + [("none" if d is None else "empty" if not d else ",".join(f"{k}:{v}" for k, v in d.items())) for d in r["slots"]]
                    + ["R", "ok"] + [f"{k}:{v}" for k, v in r["results"].items()])
    probs = []
    if sum(r["results"].values()) != cfg["shots"]:
        probs.append(f"counts total {sum(r['results'].values())}, {cfg['shots']} shots were asked for")
    if r["shots_after"] != cfg["shots"]:
        probs.append(f"shots left at {r['shots_after']}")
    if sorted(r["seen"]) != list(range(1 if nf else cfg["shots"])):
        probs.append(f"trajectories run: {sorted(r['seen'])}")
    want = {}
    for d in dicts:
        for k, v in d.items():
            want[k] = want.get(k, 0) + v
    if r["results"] != want or list(r["results"]) != sorted(r["results"]):
        probs.append(f"results {r['results']}, the trajectories returned {dicts}")
    return {"req": req, "impl": impl, "kind": "st-runweak",
            "oracle": {"ok": not probs, "detail": ("; ".join(probs) + f" [{cfg}]") if probs else f"{cfg}"},
            "sig": f"st-runweak:{cfg['shots']}:{cfg['noise']}:{int(cfg['par'])}", "nontrivial": cfg["shots"] > 1}


# ------------------------------------------------------------------------------------------------ off-grid total time (not generated)
def _offgrid_child(solver, order, T, dt):
    import os

    os.environ["YAQS_MAX_WORKERS"] = "1"
    mps, psi0 = pc.product_state([[0.6, 0.8], [1.0, 0.0]])
    obs = [Observable(Z(), 0)]
    sp = AnalogSimParams(obs, elapsed_time=T, dt=dt, num_traj=1, order=order, sample_timesteps=False, show_progress=False, solver=solver,
                         threshold=1e-12)
    pc.simulator.run(mps, pc.MPO.ising(2, 1.0, 0.7), sp, None, parallel=False)
    return float(np.real(np.asarray(obs[0].results).ravel()[0])), float(np.asarray(obs[0].times)), [float(t) for t in sp.times], psi0


def run_offgrid(inp):
    """`elapsed_time` that is not a multiple of `dt`, sampling off: the single entry must be the value at the total time the
    observable's `times` names.  NOT generated by default: on the tree as it stands every solver evolves to
    round(elapsed_time/dt)*dt and labels the value with `elapsed_time` (reported to the integrator; enable by a corpus file
    `{"kind": "st-offgrid"}` together with a known-findings entry for key `C15:offgrid-total-time`)."""
    import scipy.linalg as sla

    T, dt = float(inp.get("T", 0.25)), float(inp.get("dt", 0.1))
    Hd = pc.ising_dense(2, 1.0, 0.7)
    z0 = np.kron(np.diag([1.0, -1.0]), np.eye(2))
    probs = []
    for solver, order in (("TJM", 1), ("TJM", 2), ("MCWF", 1), ("Lindblad", 1)):
        got = pc.guarded(_offgrid_child, (solver, order, T, dt), timeout=60)
        if got[0] != "ok":
            probs.append(f"{solver} order {order}: {got[0]}")
            continue
        val, label, times, psi0 = got[1]
        psi = sla.expm(-1j * Hd * label) @ psi0
        want = float(np.real(psi.conj() @ z0 @ psi))
        if abs(val - want) > 1e-5:
            probs.append(f"{solver} order {order}: Observable.times = {label!r}, results = {val!r}, the value at that time is {want!r} "
                         f"(the run stopped at t = {times[-1]!r})")
    return {"req": None, "impl": None, "kind": "st-offgrid", "key": "C15:offgrid-total-time", "sig": f"st-offgrid:{T!r}:{dt!r}",
            "oracle": {"ok": not probs, "detail": f"elapsed_time={T!r}, dt={dt!r}, sample_timesteps=False: " + ("; ".join(probs) or "value at the total time")}}


# ------------------------------------------------------------------------------------------------ generation / dispatch
def gen_storage(rng, tier, part="all"):
    """part "head": systematic corner cases and the cheap seeded kinds; part "tail": seeded runs through simulator.run"""
    n_init, n_agg, n_weak, n_cells, n_run, n_rw = {"quick": (120, 150, 80, 15, 26, 10), "thorough": (1500, 2000, 800, 100, 300, 80),
                                                   "search": (60, 80, 40, 8, 14, 6)}.get(tier, (120, 150, 80, 15, 26, 10))
    if part == "tail":
        plan = ["st-run"] * n_run + ["st-runweak"] * n_rw
        rng.shuffle(plan)
        for k in plan:
            yield {"kind": k, "sub": rng.randrange(1 << 30)}
        return
    base = {"num_traj": 3, "shots": 4, "nmid": 2, "T": 0.3, "dt": 0.1, "k": 3, "reuse": False}
    for mode in ("analog", "strong", "weak"):
        for samp in (True, False):
            for kind in ("loc", "schmidt", "diag"):
                yield {"kind": "st-init", "sub": rng.randrange(1 << 30), "settings": dict(base, mode=mode, samp=samp, kind=kind)}
    yield {"kind": "st-init", "sub": 1, "settings": dict(base, mode="analog", samp=False, kind="loc", T=0.25, k=None)}       # total time off the grid
    yield {"kind": "st-init", "sub": 2, "settings": dict(base, mode="analog", samp=True, kind="loc", T=0.0, k=0, num_traj=1)}  # one grid point
    yield {"kind": "st-init", "sub": 3, "settings": dict(base, mode="strong", samp=False, kind="loc", reuse=True)}           # stale times
    for T, cols, cplx in ((1, 1, False), (1, 4, False), (3, 1, True), (3, 4, False), (2, 3, True), (0, 3, False), (5, 2, True)):
        for okind in ("loc", "schmidt"):
            for front in ("analog", "strong"):
                yield {"kind": "st-agg", "sub": rng.randrange(1 << 30), "T": T, "cols": cols, "cplx": cplx, "okind": okind, "front": front}
    for pat in ("all", "head", "single", "empties", "nonefirst", "noslots", "holes", "overlap"):
        yield {"kind": "st-weak", "sub": rng.randrange(1 << 30), "pat": pat}
    for shots in (1, 2, 3):
        for noise in ("none", "zero", "real"):
            yield {"kind": "st-runweak", "sub": rng.randrange(1 << 30), "cfg": {"shots": shots, "noise": noise, "par": False}}
    yield {"kind": "st-runweak", "sub": rng.randrange(1 << 30), "cfg": {"shots": 4, "noise": "real", "par": True}}
    sys_runs = []
    for solver, order in (("TJM", 1), ("TJM", 2), ("MCWF", 1), ("Lindblad", 1)):
        for samp in (True, False):
            sys_runs.append({"mode": "analog", "L": 2, "num_traj": 3, "noise": "real", "samp": samp, "par": False, "kinds": ["loc", "loc"],
                             "solver": solver, "order": order, "k": 2, "dt": 0.1, "T": 0.2})
    for samp in (True, False):
        sys_runs.append({"mode": "strong", "L": 3, "num_traj": 3, "noise": "real", "samp": samp, "par": False, "kinds": ["loc", "diag", "loc"], "nbar": 2})
        sys_runs.append({"mode": "strong", "L": 2, "num_traj": 2, "noise": "none", "samp": samp, "par": False, "kinds": ["loc"], "nbar": 1})
    sys_runs.append({"mode": "analog", "L": 2, "num_traj": 3, "noise": "real", "samp": True, "par": True, "kinds": ["loc", "entropy"],
                     "solver": "TJM", "order": 2, "k": 3, "dt": 0.1, "T": float(3 * 0.1)})
    sys_runs.append({"mode": "strong", "L": 2, "num_traj": 3, "noise": "real", "samp": True, "par": True, "kinds": ["loc", "loc"], "nbar": 1})
    for cfg in sys_runs:
        yield {"kind": "st-run", "sub": 0, "cfg": dict(cfg, sub=rng.randrange(1 << 30))}
    plan = ["st-init"] * n_init + ["st-agg"] * n_agg + ["st-weak"] * n_weak + ["st-cells"] * n_cells
    if part == "all":
        plan += ["st-run"] * n_run + ["st-runweak"] * n_rw
    rng.shuffle(plan)
    for k in plan:
        yield {"kind": k, "sub": rng.randrange(1 << 30)}


RUNNERS = {"st-offgrid": run_offgrid, "st-init": run_init, "st-agg": run_agg, "st-cells": run_cells, "st-weak": run_weak, "st-run": run_run,
           "st-runweak": run_runweak}


def run_storage(inp):
    return RUNNERS[inp["kind"]](inp)
