"""C19 — implementation side: the Krylov exponentials of the real code vs Model.Krylov, plus dense oracles.

value tie : exit logic of `expm_krylov` / `expm_arnoldi` — the real function runs with the operator, the small
            eigen-solver (`scipy.linalg.eigh_tridiagonal` resp. `scipy.linalg.expm`) and `_compute_*_result`
            wrapped; the β_j (read from the function's own `beta` array through the view it hands to the eigen-solver;
            for Arnoldi the norm of the vector it orthogonalised in place) and the |φ_j| (recomputed from the
            eigen-solver's own output with the code's formula) go to the model as exact rationals; the model's
            (kind, k, fresh, #solves) must equal what was observed (k = number of operator applications).
            exact recurrence: alpha_j, beta_j² of the real run on small dyadic symmetric matrices vs `lanczosRat` over ℚ.
spec tie  : eigh_tridiagonal (Q orthogonal, Q diag(w) Qᵀ = T) and the Lanczos basis (VᴴV = 1, VᴴAV = T) on what was seen
            — the hypotheses of `krylov_isometry`.
oracle    : norm preserved (Hermitian A, ±dt); accuracy vs scipy.linalg.expm for moderate spectral width·|dt|;
            exactness on invariant subspaces; Arnoldi accuracy for non-Hermitian A; numba vs pure-Python path;
            dense vs matrix-free effective Hamiltonian in `update_site` / `update_bond`; dense builders
            (einsum and numba) vs `project_site` / `project_bond`.
x19 extension (Model/Heff.lean, kinds heff-*):
value tie : real `build_dense_heff_site/bond` (einsum and numba kernels), `project_site/bond`, `update_left/right_environment`,
            `initialize_right_environments` and the closure `_evolve_local_tensor_krylov` hands to `expm_krylov` (both sides of the
            size switch, explicit thresholds next to n_loc and the module's DENSE_THRESHOLD through `update_site/bond`) vs the model
            entries, on small dyadic-rational tensors (dims 1..3, non-square bonds, physical dims 2 and 3; binary64 is exact on
            them, every entry of the real result is read by explicit index); numpy's reshape convention via one-hot kets.
spec tie  : bond gauges of the library MPOs (hypothesis OpHermG of heff_hermitian_chain) and conjugate symmetry of the real blocks.
            exact recurrence for complex Hermitian dyadic matrices: alpha_j, beta_j^2 of the real run vs `lanczosC` over Q(i)
            (kind ratc; the recurrence `lanczos_projection` is about).
oracle    : dense vs free on the rational tensors; numba vs einsum; dense H_eff Hermitian at every site / bond of ising,
            heisenberg and bose_hubbard chains with environments built by the real update functions; <left_blocks[k],
            right_blocks[k-1]> equal for every cut k and equal to an independent transfer-matrix contraction (env_update_assoc).
"""
from __future__ import annotations

import random
import warnings
from fractions import Fraction

import numpy as np
import scipy.linalg

import implbase as ib
from mqt.yaqs.core.data_structures.networks import MPO, MPS
from mqt.yaqs.core.methods import matrix_exponential as mexp
from mqt.yaqs.core.methods import tdvp as tdvp_mod

warnings.simplefilter("ignore")
EXPM = scipy.linalg.expm
EIGH_TRI = scipy.linalg.eigh_tridiagonal
EPS = float(np.finfo(np.float64).eps)
SPEC = {"eigh": {"n": 0, "bad": 0, "worst": 0.0, "detail": ""}, "basis": {"n": 0, "bad": 0, "worst": 0.0, "detail": ""}}


def spec_note(which, resid, tol, detail):
    s = SPEC[which]
    s["n"] += 1
    s["worst"] = max(s["worst"], float(resid))
    if not resid <= tol:
        s["bad"] += 1
        s["detail"] = detail


# ----------------------------------------------------------------------------------------------- operators
def random_unitary(nprng, n):
    z = nprng.normal(size=(n, n)) + 1j * nprng.normal(size=(n, n))
    q, r = np.linalg.qr(z)
    return q * (np.diag(r) / np.abs(np.diag(r)))


def hermitian_with_spectrum(nprng, lam):
    u = random_unitary(nprng, len(lam))
    a = (u * lam) @ u.conj().T
    return (a + a.conj().T) / 2, u


class KronOp:
    """A = B1 (x) 1 + 1 (x) B2 on vectors of size n1*n2: cheap to apply and to exponentiate exactly"""

    def __init__(self, b1, b2):
        self.b1, self.b2 = b1, b2
        self.n1, self.n2 = b1.shape[0], b2.shape[0]
        self.size = self.n1 * self.n2

    def __call__(self, x):
        m = x.reshape(self.n1, self.n2)
        return (self.b1 @ m + m @ self.b2.T).reshape(-1)

    def exact(self, v, dt):
        e1, e2 = EXPM(-1j * dt * self.b1), EXPM(-1j * dt * self.b2)
        return (e1 @ v.reshape(self.n1, self.n2) @ e2.T).reshape(-1)

    def width(self):
        w1, w2 = np.linalg.eigvalsh(self.b1), np.linalg.eigvalsh(self.b2)
        return float(w1[-1] - w1[0] + w2[-1] - w2[0])


# ----------------------------------------------------------------------------------------------- tracing
def trace_lanczos(op, vec, dt, m_max, tol, force_pure=False):
    """run the real expm_krylov with its collaborators wrapped; returns (result | exception name, record)"""
    rec = {"matvec": 0, "loop": [], "fresh": 0, "fresh_k": None, "beta_arr": None, "ws": [], "vbase": None, "last": None}
    state = {"in_fresh": False}

    def wop(x):
        rec["matvec"] += 1
        if rec["vbase"] is None and getattr(x, "base", None) is not None:
            rec["vbase"] = x.base
        w = op(x)
        rec["ws"].append(w)
        return w

    def eigh(alpha, beta, **kw):
        w, u = EIGH_TRI(alpha, beta, **kw)
        base = getattr(beta, "base", None)
        if base is not None:
            rec["beta_arr"] = base
        t = np.diag(np.asarray(alpha, dtype=float)) + np.diag(np.asarray(beta, dtype=float), 1) + np.diag(np.asarray(beta, dtype=float), -1)
        scale = max(1.0, float(np.max(np.abs(t))) if t.size else 1.0)
        r1 = float(np.linalg.norm(u.T @ u - np.eye(len(w))))
        r2 = float(np.linalg.norm((u * w) @ u.T - t)) / scale
        spec_note("eigh", max(r1, r2), 1e-9, f"QtQ-1 {r1:.2e} recon {r2:.2e} k={len(w)}")
        item = {"k": len(alpha), "alpha": np.array(alpha, dtype=float), "beta": np.array(beta, dtype=float), "w": w, "u": u}
        if state["in_fresh"]:
            rec["last"] = item
        else:
            k = len(alpha)
            coeffs = np.exp(-1j * dt * w) * u[0, :]
            phi_last = np.dot(u[k - 1, :], coeffs)
            item["phi"] = float(abs(phi_last))
            rec["loop"].append(item)
            rec["last"] = item
        return w, u

    orig_comp = mexp._compute_krylov_result  # noqa: SLF001

    def comp(alpha, beta, lanczos_mat, nrm, dt_):
        rec["fresh"] += 1
        rec["fresh_k"] = len(alpha)
        base = getattr(beta, "base", None)
        if base is not None:
            rec["beta_arr"] = base
        state["in_fresh"] = True
        try:
            return orig_comp(alpha, beta, lanczos_mat, nrm, dt_)
        finally:
            state["in_fresh"] = False

    thr0 = mexp.NUMBA_THRESHOLD
    scipy.linalg.eigh_tridiagonal = eigh
    mexp._compute_krylov_result = comp  # noqa: SLF001
    if force_pure:
        mexp.NUMBA_THRESHOLD = 10**12
    try:
        try:
            out = mexp.expm_krylov(wop, vec, dt, m_max, tol)
        except Exception as e:  # noqa: BLE001
            out = type(e).__name__
    finally:
        scipy.linalg.eigh_tridiagonal = EIGH_TRI
        mexp._compute_krylov_result = orig_comp  # noqa: SLF001
        mexp.NUMBA_THRESHOLD = thr0
    return out, rec


def lanczos_case(op, vec, dt, m_max, tol, tag, force_pure=False):
    """tie of one real expm_krylov call; returns (case dict, result, record)"""
    nrm = float(np.linalg.norm(vec))
    out, rec = trace_lanczos(op, vec.copy(), dt, m_max, tol, force_pure)
    eps_cut = 100.0 * vec.size * EPS
    k = rec["matvec"]
    if isinstance(out, str):
        impl = "err"
        betas, phis = [], []
    elif nrm == 0:
        impl = "zero 0 0 0"
        betas, phis = [], []
    else:
        fresh = rec["fresh"] > 0
        kind = ("exhausted" if k == m_max else "breakdown") if fresh else ("converged" if k < m_max else "exhausted")
        nsolve = len(rec["loop"]) + rec["fresh"]
        impl = f"{kind} {k} {1 if fresh else 0} {nsolve}"
        arr = rec["beta_arr"]
        nb = min(k, m_max - 1)
        betas = [float(x) for x in arr[:nb]] if arr is not None and nb > 0 else []
        phis = [it["phi"] for it in rec["loop"]]
    req = f"lanczos {1 if nrm == 0 else 0} {m_max} {ib.frac(eps_cut)} {ib.frac(tol)} | {ib.fracs(betas)} | {ib.fracs(phis)}"
    edge = False
    for j, b in enumerate(betas):
        if j >= 1 and j - 1 < len(phis):
            p = phis[j - 1]
            if (Fraction(b) * Fraction(p) < Fraction(tol)) != (b * p < tol):
                edge = True
    case = {"req": req, "impl": impl, "oracle": None, "edge": edge, "kind": tag,
            "sig": f"{tag}:{impl}:{m_max}:{'numba' if vec.size >= mexp.NUMBA_THRESHOLD and not force_pure else 'pure'}",
            "nontrivial": impl.split()[0] in ("breakdown", "converged") or (impl.startswith("exhausted") and m_max > 1)}
    arr = rec["beta_arr"]
    if not isinstance(out, str) and nrm != 0 and arr is not None and len(arr) == m_max - 1 and len(betas) == min(k, m_max - 1):
        # which entries of the real `beta` array (zeros at the start) the loop wrote: tied to the model's write list
        # (the model gets every written value it needs: `betas` covers the indices < min(k, m_max - 1))
        written = [j for j in range(len(arr)) if float(arr[j]) != 0.0]
        WRITES.append({"tag": tag, "req": "lanczosw" + req[len("lanczos"):], "impl": impl + " w " + " ".join(map(str, written)),
                       "edge": edge, "m_max": m_max, "k": k})
    return case, out, rec


WRITES = []


def drain_writes():
    """the `lanczosw` cases collected by `lanczos_case` since the last call"""
    out = [{"req": w["req"], "impl": w["impl"].rstrip(), "oracle": None, "edge": w["edge"], "kind": w["tag"] + "-writes",
            "sig": f"{w['tag']}-writes:{w['m_max']}:{w['k']}", "nontrivial": w["k"] > 1} for w in WRITES]
    WRITES.clear()
    return out


def basis_spec(op_dense, rec, k, vec):
    """the Lanczos basis the code built: VhV = 1, Vh A V = T on the k columns used (hypotheses of krylov_isometry)"""
    vb = rec["vbase"]
    it = rec["last"]
    if vb is None or it is None or it["k"] != k or vb.ndim != 2 or vb.shape[1] < k:
        return
    v = np.asarray(vb)[:, :k]
    t = np.diag(it["alpha"]) + np.diag(it["beta"], 1) + np.diag(it["beta"], -1)
    scale = max(1.0, float(np.linalg.norm(op_dense, 2)))
    if k > len(vec) or (len(it["beta"]) and float(np.min(it["beta"])) < 1e-7 * scale):
        return  # next to a breakdown the new direction is rounding noise (harmless: it enters with weight beta); not a basis
    r1 = float(np.linalg.norm(v.conj().T @ v - np.eye(k)))
    r2 = float(np.linalg.norm(v.conj().T @ op_dense @ v - t)) / scale
    spec_note("basis", max(r1, r2), 1e-3, f"VhV-1 {r1:.2e} VhAV-T {r2:.2e} k={k} n={len(vec)}")


# ----------------------------------------------------------------------------------------------- kinds
def run_hermitian(inp):
    rng = random.Random(inp["sub"])
    nprng = np.random.default_rng(inp["sub"])
    n = inp.get("n") or rng.choice([2, 3, 5, 8, 13, 24, 40, 64, 100, 160])
    sign = rng.choice([1, -1])
    dt = sign * rng.choice([0.01, 0.05, 0.1, 0.5, 1.0])
    wdt = inp.get("wdt") or rng.choice([0.1, 0.5, 1.0, 2.0, 4.0, 5.0, 8.0, 20.0])   # spectral width * |dt|
    width = wdt / abs(dt)
    shape = rng.choice(["uniform", "clustered", "two", "shifted"])
    if shape == "uniform":
        lam = nprng.uniform(-0.5, 0.5, size=n)
    elif shape == "clustered":
        lam = np.concatenate([nprng.normal(-0.5, 0.01, size=n // 2), nprng.normal(0.5, 0.01, size=n - n // 2)])
    elif shape == "two":
        lam = np.where(nprng.random(n) < 0.5, -0.5, 0.5)
    else:
        lam = nprng.uniform(-0.5, 0.5, size=n) + 30.0
    lam = np.sort(lam)
    if n > 1 and lam[-1] > lam[0]:
        lam = (lam - lam[0]) / (lam[-1] - lam[0]) * width + (30.0 * width if shape == "shifted" else -width / 2)
    a, u = hermitian_with_spectrum(nprng, lam)
    start = rng.choice(["random", "random", "invariant", "eigen", "zero"])
    if start == "random":
        vec = nprng.normal(size=n) + 1j * nprng.normal(size=n)
    elif start == "invariant":
        r = rng.randint(1, max(1, min(n, 8)))
        idx = nprng.choice(n, size=r, replace=False)
        vec = u[:, idx] @ (nprng.normal(size=r) + 1j * nprng.normal(size=r))
    elif start == "eigen":
        vec = u[:, rng.randrange(n)] * (2.5 + 0j)
    else:
        vec = np.zeros(n, dtype=complex)
    vec = vec * rng.choice([1.0, 1e-3, 37.0, 1e-10, 1e-13])   # the convergence test is relative to the norm of the start vector
    if start == "random" and rng.random() < 0.2:
        # a start vector stored as float64 (a real-valued MPS tensor) with a genuinely complex Hermitian operator: the Krylov basis
        # must still be complex
        vec = np.ascontiguousarray(vec.real, dtype=np.float64)
    m_max = rng.choice([1, 2, 3, 5, 8, 12, 25, 25, 25, 40])
    tol = rng.choice([1e-12, 1e-12, 1e-10, 1e-6, 1e-3])
    case, out, rec = lanczos_case(lambda x: a @ x, vec, dt, m_max, tol, "lanczos-" + start)
    probs = []
    nrm = float(np.linalg.norm(vec))
    detail = ""
    if isinstance(out, str):
        probs.append(f"expm_krylov raised {out} (n={n}, m_max={m_max})")
    elif nrm > 0:
        k = rec["matvec"]
        basis_spec(a, rec, k, vec)
        dn = abs(float(np.linalg.norm(out)) / nrm - 1)
        if dn > 1e-10:
            probs.append(f"norm changed by {dn:.2e} (relative) for Hermitian A, dt={dt}")
        exact = (u * np.exp(-1j * dt * lam)) @ (u.conj().T @ vec)
        err = float(np.linalg.norm(out - exact)) / nrm
        # accuracy is promised for moderate width*|dt| with the default subspace size and tolerance; an invariant
        # start of dimension r <= m_max is exact whatever the width
        rdim = k if case["impl"].startswith("breakdown") else None
        judged = (wdt <= 5.0 and m_max >= 25 and tol <= 1e-10) or (rdim is not None)
        if judged and err > 1e-8:
            probs.append(f"error {err:.2e} vs exact exponential (width*|dt|={wdt}, m_max={m_max}, tol={tol}, exit {case['impl']})")
        detail = f"norm dev {dn:.1e} err {err:.1e} {'judged' if judged else 'not judged'} exit {case['impl']} wdt {wdt}"
        case["meta"] = {"dn": dn, "err": err, "judged": judged, "wdt": wdt, "m_max": m_max, "tol": tol, "n": n, "start": start}
    else:
        if not (isinstance(out, np.ndarray) and out.shape == vec.shape and not np.any(out)):
            probs.append("zero vector not returned unchanged")
    case["oracle"] = {"ok": not probs, "detail": "; ".join(probs) or detail or "zero start returned as is"}
    return case


def run_big(inp):
    """vector sizes straddling NUMBA_THRESHOLD: compiled vs pure-Python path on identical input"""
    rng = random.Random(inp["sub"])
    nprng = np.random.default_rng(inp["sub"])
    thr = mexp.NUMBA_THRESHOLD
    n1 = rng.choice([32, 64])
    n2 = {"below": thr // n1 - 1, "at": thr // n1, "above": thr // n1 + rng.choice([1, 3])}[inp["where"]]
    wdt = rng.choice([0.5, 2.0, 5.0])
    dt = rng.choice([1, -1]) * rng.choice([0.05, 0.2])
    lam1 = nprng.uniform(-0.5, 0.5, size=n1) * (wdt / abs(dt)) / 2
    lam2 = nprng.uniform(-0.5, 0.5, size=n2) * (wdt / abs(dt)) / 2
    b1, _ = hermitian_with_spectrum(nprng, lam1)
    b2, _ = hermitian_with_spectrum(nprng, lam2)
    op = KronOp(b1, b2)
    vec = nprng.normal(size=op.size) + 1j * nprng.normal(size=op.size)
    if rng.random() < 0.3:  # start inside an invariant subspace of small dimension
        w1, u1 = np.linalg.eigh(b1)
        w2, u2 = np.linalg.eigh(b2)
        r = rng.randint(1, 4)
        vec = sum((nprng.normal() + 1j * nprng.normal()) * np.kron(u1[:, rng.randrange(n1)], u2[:, rng.randrange(n2)]) for _ in range(r))
    m_max = rng.choice([25, 25, 10, 4])
    tol = rng.choice([1e-12, 1e-8])
    case, out, rec = lanczos_case(op, vec, dt, m_max, tol, "lanczos-big-" + inp["where"])
    case2, out2, rec2 = lanczos_case(op, vec, dt, m_max, tol, "lanczos-big-pure-" + inp["where"], force_pure=True)
    probs = []
    nrm = float(np.linalg.norm(vec))
    if isinstance(out, str) or isinstance(out2, str):
        probs.append(f"expm_krylov raised {out if isinstance(out, str) else out2} at size {op.size}")
        detail = ""
    else:
        exact = op.exact(vec, dt)
        err = float(np.linalg.norm(out - exact)) / nrm
        dn = abs(float(np.linalg.norm(out)) / nrm - 1)
        dpath = float(np.linalg.norm(out - out2)) / nrm
        if dn > 1e-10:
            probs.append(f"norm changed by {dn:.2e} at size {op.size}")
        if dpath > 1e-10:
            probs.append(f"compiled and pure-Python paths differ by {dpath:.2e} at size {op.size} (exits {case['impl']} / {case2['impl']})")
        judged = (m_max >= 25 and tol <= 1e-10) or case["impl"].startswith("breakdown")
        if judged and err > 1e-8:
            probs.append(f"error {err:.2e} at size {op.size} (width*|dt| about {wdt}, exit {case['impl']})")
        detail = f"size {op.size} norm dev {dn:.1e} err {err:.1e} paths differ {dpath:.1e} exit {case['impl']}"
        case["meta"] = {"dn": dn, "err": err, "dpath": dpath, "judged": judged, "size": op.size}
    case["oracle"] = {"ok": not probs, "detail": "; ".join(probs) or detail}
    return [case, case2]


def run_kernel(inp):
    """lanczos_numba kernels vs the pure-Python statements they replace, on identical input"""
    from mqt.yaqs.core.methods import lanczos_numba as ln

    rng = random.Random(inp["sub"])
    nprng = np.random.default_rng(inp["sub"])
    n, m = rng.choice([5, 64, 4096, 5000]), rng.choice([2, 4, 25])
    j = rng.randrange(m)
    v = np.asfortranarray(nprng.normal(size=(n, m)) + 1j * nprng.normal(size=(n, m)))
    w = nprng.normal(size=n) + 1j * nprng.normal(size=n)
    alpha, beta = np.zeros(m), np.abs(nprng.normal(size=m - 1))
    a2, b2, w2 = alpha.copy(), beta.copy(), w.copy()
    bj = ln.orthogonalize_step(v, w, j, alpha, beta)
    aj = np.vdot(v[:, j], w2).real
    a2[j] = aj
    w2 -= aj * v[:, j]
    if j > 0:
        w2 -= b2[j - 1] * v[:, j - 1]
    bref = float(np.linalg.norm(w2))
    if j < m - 1:
        b2[j] = bref
    sc = 1 + float(np.linalg.norm(w2))
    d = max(float(np.linalg.norm(w - w2)) / sc, abs(bj - bref) / sc, float(np.max(np.abs(alpha - a2))) / sc,
            float(np.max(np.abs(beta - b2))) / sc if m > 1 else 0.0)
    probs = []
    if d > 1e-10:
        probs.append(f"orthogonalize_step differs from the pure statements by {d:.2e} (n={n}, m={m}, j={j})")
    if j < m - 1 and bj > 0:
        vv = v.copy()
        ln.normalize_and_store(vv, w, j, bj)
        d2 = float(np.linalg.norm(vv[:, j + 1] - w / bj))
        if d2 > 1e-10:
            probs.append(f"normalize_and_store differs by {d2:.2e}")
    return {"req": None, "impl": None, "kind": "numba-kernel", "oracle": {"ok": not probs, "detail": "; ".join(probs) or f"dev {d:.1e}"},
            "sig": f"kernel:{n}:{m}:{j == m - 1}"}


def trace_arnoldi(op, vec, dt, m_max, tol):
    rec = {"matvec": 0, "ws": [], "phis": [], "fresh": 0, "nexpm": 0}
    state = {"in_fresh": False}

    def wop(x):
        rec["matvec"] += 1
        w = op(x)
        rec["ws"].append(w)
        return w

    def expm(a):
        rec["nexpm"] += 1
        u = EXPM(a)
        if not state["in_fresh"]:
            k = u.shape[0]
            rec["phis"].append(float(abs(u[k - 1, 0])))
        return u

    orig_comp = mexp._compute_arnoldi_result  # noqa: SLF001

    def comp(h_mat, v_mat, nrm, dt_):
        rec["fresh"] += 1
        state["in_fresh"] = True
        try:
            return orig_comp(h_mat, v_mat, nrm, dt_)
        finally:
            state["in_fresh"] = False

    scipy.linalg.expm = expm
    mexp._compute_arnoldi_result = comp  # noqa: SLF001
    try:
        try:
            out = mexp.expm_arnoldi(wop, vec, dt, m_max, tol)
        except Exception as e:  # noqa: BLE001
            out = type(e).__name__
    finally:
        scipy.linalg.expm = EXPM
        mexp._compute_arnoldi_result = orig_comp  # noqa: SLF001
    return out, rec


def run_arnoldi(inp):
    rng = random.Random(inp["sub"])
    nprng = np.random.default_rng(inp["sub"])
    n = rng.choice([2, 3, 6, 12, 30, 64, 128])
    dt = rng.choice([1, -1]) * rng.choice([0.01, 0.1, 0.5])
    wdt = rng.choice([0.1, 0.5, 1.0, 2.0, 4.0, 5.0, 10.0])
    kind = rng.choice(["heff", "heff", "general", "normal", "hermitian"])
    scale = wdt / abs(dt)
    if kind == "heff":      # H - i/2 sum L^dag L  (what MCWF hands to expm_arnoldi)
        h, _ = hermitian_with_spectrum(nprng, nprng.uniform(-0.5, 0.5, size=n))
        g = nprng.normal(size=(n, n)) + 1j * nprng.normal(size=(n, n))
        g = g.conj().T @ g
        a = h - 0.5j * rng.choice([0.05, 0.3]) * g / np.linalg.norm(g, 2)
    elif kind == "general":
        a = (nprng.normal(size=(n, n)) + 1j * nprng.normal(size=(n, n))) / np.sqrt(2 * n)
    elif kind == "normal":
        q = random_unitary(nprng, n)
        a = (q * (nprng.uniform(-0.5, 0.5, size=n) + 1j * nprng.uniform(-0.2, 0.0, size=n))) @ q.conj().T
    else:
        a, _ = hermitian_with_spectrum(nprng, nprng.uniform(-0.5, 0.5, size=n))
    a = a / max(np.linalg.norm(a, 2), 1e-300) * scale / 2
    start = rng.choice(["random", "random", "invariant", "zero"])
    if start == "random":
        vec = nprng.normal(size=n) + 1j * nprng.normal(size=n)
    elif start == "invariant":
        w, vr = np.linalg.eig(a)
        r = rng.randint(1, max(1, min(n, 6)))
        idx = nprng.choice(n, size=r, replace=False)
        vec = vr[:, idx] @ (nprng.normal(size=r) + 1j * nprng.normal(size=r))
    else:
        vec = np.zeros(n, dtype=complex)
    m_max = rng.choice([1, 2, 4, 8, 25, 25, 25])
    tol = rng.choice([1e-12, 1e-12, 1e-8, 1e-4])
    nrm = float(np.linalg.norm(vec))
    out, rec = trace_arnoldi(lambda x: a @ x, vec.copy(), dt, m_max, tol)
    k = rec["matvec"]
    etas = [float(np.linalg.norm(w)) for w in rec["ws"]]
    if isinstance(out, str):
        impl = "err"
    elif nrm == 0:
        impl = "zero 0 0 0"
    else:
        fresh = rec["fresh"] > 0
        if fresh:
            kind_x = "breakdown" if etas[k - 1] < 1e-12 else "exhausted"
        else:
            kind_x = "converged"
        impl = f"{kind_x} {k} {1 if fresh else 0} {rec['nexpm']}"
    req = f"arnoldi {1 if nrm == 0 else 0} {m_max} {ib.frac(1e-12)} {ib.frac(tol)} | {ib.fracs(etas)} | {ib.fracs(rec['phis'])}"
    edge = False
    for j, e in enumerate(etas):
        if j >= 1 and j - 1 < len(rec["phis"]):
            p = rec["phis"][j - 1]
            if (Fraction(e) * Fraction(p) < Fraction(tol)) != (e * p < tol):
                edge = True
    probs = []
    detail = "zero start returned as is"
    if isinstance(out, str):
        probs.append(f"expm_arnoldi raised {out} (n={n}, m_max={m_max})")
    elif nrm > 0:
        exact = EXPM(-1j * dt * a) @ vec
        err = float(np.linalg.norm(out - exact)) / max(nrm, float(np.linalg.norm(exact)))
        judged = (wdt <= 5.0 and m_max >= 25 and tol <= 1e-10) or impl.startswith("breakdown")
        if judged and err > 1e-8:
            probs.append(f"error {err:.2e} vs scipy expm ({kind}, |A|*|dt|={wdt / 2}, m_max={m_max}, tol={tol}, exit {impl})")
        dn = None
        if kind == "hermitian":
            dn = abs(float(np.linalg.norm(out)) / nrm - 1)
            if dn > 1e-10:
                probs.append(f"norm changed by {dn:.2e} for Hermitian A through expm_arnoldi")
        detail = f"{kind} err {err:.1e} {'judged' if judged else 'not judged'} exit {impl}"
    return {"req": req, "impl": impl, "oracle": {"ok": not probs, "detail": "; ".join(probs) or detail}, "edge": edge,
            "kind": "arnoldi-" + start, "sig": f"arnoldi:{kind}:{impl}:{m_max}",
            "nontrivial": impl.split()[0] in ("breakdown", "converged") or (impl.startswith("exhausted") and m_max > 1)}


def run_rat(inp):
    """exact recurrence: alpha_j and beta_j^2 of the real run vs lanczosRat over Q (small dyadic symmetric matrices)"""
    rng = random.Random(inp["sub"])
    n = rng.choice([3, 4, 5, 6])
    a = [[0] * n for _ in range(n)]
    for i in range(n):
        for j in range(i, n):
            a[i][j] = a[j][i] = rng.randint(-8, 8) / 4
    v = [float(rng.randint(-4, 4)) for _ in range(n)]
    if not any(v):
        v[0] = 1.0
    m_max = rng.randint(2, n - 1) if n > 3 else 2
    amat = np.array(a, dtype=complex)
    case, out, rec = lanczos_case(lambda x: amat @ x, np.array(v, dtype=complex), rng.choice([0.1, -0.3]), m_max, 1e-14, "lanczos-rat")
    k = rec["matvec"]
    it = rec["last"]
    if isinstance(out, str) or it is None or it["k"] != k:
        return case
    alphas, betas = it["alpha"], it["beta"]
    req = f"lanczosrat {n} {k} | {ib.fracs([x for row in a for x in row])} | {ib.fracs(v)}"
    impl = " ".join(ib.fmt(x) for x in alphas) + " | " + " ".join(ib.fmt(b * b) for b in betas)
    scale = float(np.max(np.abs(amat))) or 1.0
    edge = bool(len(betas) and min(betas) < 1e-2 * scale) or bool(np.max(np.abs(alphas)) > 0 and np.min(np.abs(alphas)) < 1e-6 * scale)
    return [case, {"req": req, "impl": impl, "oracle": None, "edge": edge, "kind": "lanczos-rat-values", "sig": f"rat:{n}:{k}",
                   "nontrivial": k >= 2}]


# ---------------------------------------------------------- effective Hamiltonians of update_site / update_bond
def local_problem(rng, nprng, want):
    """environments of a real MPS / MPO pair at a random site, bond dimensions chosen so that the flattened tensor
    has `want` entries relative to DENSE_THRESHOLD"""
    L = rng.choice([4, 5, 6])
    d_l, d_r = {"below": rng.choice([(2, 4), (4, 4), (8, 4), (3, 5)]), "at": rng.choice([(8, 8), (4, 16)]),
                "above": rng.choice([(8, 9), (9, 9), (12, 12), (16, 10)])}[want]
    site = rng.randrange(1, L - 1)
    dims = [1] + [min(2 ** min(i, L - i), 64) for i in range(1, L)] + [1]
    # bond dimensions are free here (random tensors, not bounded by the Schmidt rank): the effective Hamiltonian
    # is Hermitian as soon as the neighbours are orthonormalised, which set_canonical_form does
    dims[site], dims[site + 1] = d_l, d_r
    for i in range(site - 1, 0, -1):
        dims[i] = max(dims[i], -(-dims[i + 1] // 2))
    for i in range(site + 2, L):
        dims[i] = max(dims[i], -(-dims[i - 1] // 2))
    tensors = [nprng.normal(size=(2, dims[i], dims[i + 1])) + 1j * nprng.normal(size=(2, dims[i], dims[i + 1])) for i in range(L)]
    mps = MPS(L, tensors=tensors, physical_dimensions=[2] * L)
    mps.set_canonical_form(site)
    kind = rng.choice(["ising", "heis"])
    ham = MPO.ising(L, rng.uniform(0.5, 1.5), rng.uniform(0.3, 1.2)) if kind == "ising" else \
        MPO.heisenberg(L, rng.uniform(0.4, 1.2), rng.uniform(0.4, 1.2), rng.uniform(0.4, 1.2), rng.uniform(0.1, 0.8))
    right = tdvp_mod.initialize_right_environments(mps, ham)
    chi0, mpo0 = mps.tensors[0].shape[1], ham.tensors[0].shape[2]
    left = np.zeros((chi0, mpo0, chi0), dtype=complex)
    for i in range(chi0):
        left[i, :, i] = 1
    lefts = [left]
    for i in range(L - 1):
        lefts.append(tdvp_mod.update_left_environment(mps.tensors[i], mps.tensors[i], ham.tensors[i], lefts[i]))
    return mps, ham, lefts, right, site


def run_local(inp):
    rng = random.Random(inp["sub"])
    nprng = np.random.default_rng(inp["sub"])
    mps, ham, lefts, rights, site = local_problem(rng, nprng, inp["where"])
    which = inp["which"]
    dt = rng.choice([1, -1]) * rng.choice([0.01, 0.1, 0.5, 2.0])
    probs = []
    if which == "site":
        ket = mps.tensors[site]
        args = (lefts[site], rights[site], ham.tensors[site])
        proj = tdvp_mod.project_site
        dense = tdvp_mod.build_dense_heff_site(*args)
        real = lambda: tdvp_mod.update_site(lefts[site], rights[site], ham.tensors[site], ket.copy(), dt)  # noqa: E731
    else:
        # bond tensor between site and site+1: QR of the centre tensor, as the sweep does
        t = mps.tensors[site]
        q, r = np.linalg.qr(t.reshape(t.shape[0] * t.shape[1], t.shape[2]))
        a_left = q.reshape(t.shape[0], t.shape[1], q.shape[1])
        lnext = tdvp_mod.update_left_environment(a_left, a_left, ham.tensors[site], lefts[site])
        ket = r
        args = (lnext, rights[site])
        proj = tdvp_mod.project_bond
        dense = tdvp_mod.build_dense_heff_bond(*args)
        real = lambda: tdvp_mod.update_bond(lnext, rights[site], ket.copy(), dt)  # noqa: E731
    n_loc = ket.size
    scale = max(1.0, float(np.linalg.norm(dense, 2)))
    # dense builder represents the same linear map as the projector
    x = nprng.normal(size=ket.shape) + 1j * nprng.normal(size=ket.shape)
    d_map = float(np.linalg.norm(dense @ x.reshape(-1) - proj(*args, x).reshape(-1))) / (scale * float(np.linalg.norm(x)))
    if d_map > 1e-12:
        probs.append(f"dense effective Hamiltonian differs from project_{which} by {d_map:.2e}")
    herm = float(np.linalg.norm(dense - dense.conj().T)) / scale
    # compiled builders
    d_numba = None
    try:
        from mqt.yaqs.core.methods import tdvp_numba as tn

        dn_ = tn.build_dense_heff_site_numba(np.ascontiguousarray(args[0]), np.ascontiguousarray(args[1]), np.ascontiguousarray(args[2])) \
            if which == "site" else tn.build_dense_heff_bond_numba(np.ascontiguousarray(args[0]), np.ascontiguousarray(args[1]))
        d_numba = float(np.linalg.norm(dn_ - dense)) / scale
        if d_numba > 1e-12:
            probs.append(f"numba dense builder differs from the einsum builder by {d_numba:.2e}")
    except ImportError:
        pass
    out = real()
    nrm = float(np.linalg.norm(ket))
    w = np.linalg.eigvalsh((dense + dense.conj().T) / 2)
    wdt = float(w[-1] - w[0]) * abs(dt)
    exact = (EXPM(-1j * dt * dense) @ ket.reshape(-1)).reshape(ket.shape)
    err = float(np.linalg.norm(out - exact)) / nrm
    dnorm = abs(float(np.linalg.norm(out)) / nrm - 1)
    if herm < 1e-10 and dnorm > 1e-10:
        probs.append(f"update_{which} changed the norm by {dnorm:.2e} (Hermitian effective Hamiltonian, size {n_loc})")
    if wdt <= 5.0 and err > 1e-8:
        probs.append(f"update_{which} error {err:.2e} vs dense expm (size {n_loc}, width*|dt|={wdt:.2f})")
    # dense and matrix-free paths on identical input
    o_dense = tdvp_mod._evolve_local_tensor_krylov(proj, ket.copy(), dt, args, dense_threshold=10**9)  # noqa: SLF001
    o_free = tdvp_mod._evolve_local_tensor_krylov(proj, ket.copy(), dt, args, dense_threshold=0)  # noqa: SLF001
    d_paths = float(np.linalg.norm(o_dense - o_free)) / nrm
    d_def = min(float(np.linalg.norm(out - o_dense)), float(np.linalg.norm(out - o_free))) / nrm
    if d_paths > 1e-10:
        probs.append(f"dense and matrix-free paths of update_{which} differ by {d_paths:.2e} (size {n_loc})")
    side = "dense" if n_loc <= tdvp_mod.DENSE_THRESHOLD else "free"
    if d_def > 0:
        probs.append(f"update_{which} is neither of the two paths of _evolve_local_tensor_krylov (diff {d_def:.2e})")
    return {"req": None, "impl": None, "kind": f"local-{which}-{inp['where']}",
            "oracle": {"ok": not probs, "detail": "; ".join(probs) or f"size {n_loc} ({side}) map dev {d_map:.1e} numba dev {d_numba} herm {herm:.1e} "
                                                                       f"norm dev {dnorm:.1e} err {err:.1e} wdt {wdt:.2f} paths {d_paths:.1e}"},
            "sig": f"local:{which}:{n_loc}:{side}", "meta": {"d_map": d_map, "d_numba": d_numba, "dnorm": dnorm, "err": err, "wdt": wdt, "d_paths": d_paths}}


def run_fixed(inp):
    """corpus: explicit small inputs"""
    a = np.array(inp["a"], dtype=complex)
    vec = np.array(inp["v"], dtype=complex)
    case, out, rec = lanczos_case(lambda x: a @ x, vec, float(inp["dt"]), int(inp["m_max"]), float(inp.get("tol", 1e-12)), "fixed")
    probs = []
    want = inp.get("expect")
    if want == "error":
        if not isinstance(out, str):
            probs.append("expected an exception")
    elif isinstance(out, str):
        probs.append(f"raised {out}")
    else:
        nrm = float(np.linalg.norm(vec))
        exact = EXPM(-1j * float(inp["dt"]) * a) @ vec
        if nrm > 0 and abs(float(np.linalg.norm(out)) / nrm - 1) > 1e-10:
            probs.append("norm not preserved")
        if inp.get("accurate", True) and float(np.linalg.norm(out - exact)) > 1e-8 * max(nrm, 1e-300):
            probs.append(f"error {float(np.linalg.norm(out - exact)):.2e}")
    case["oracle"] = {"ok": not probs, "detail": "; ".join(probs) or "ok"}
    case["sig"] = "fixed:" + str(inp.get("name"))
    return case



# =====================================================================================================================
# x19 extension — index-level tie of Model/Heff.lean: the real `build_dense_heff_site/bond` (einsum and numba),
# `project_site/bond`, `update_left/right_environment`, `initialize_right_environments` and the size switch of
# `_evolve_local_tensor_krylov` against the model entries, on small exact-rational tensors (binary64 is exact on them).
# =====================================================================================================================
HEFF_SPEC = {"ophem": {"n": 0, "bad": 0, "worst": 0.0, "detail": ""}, "envherm": {"n": 0, "bad": 0, "worst": 0.0, "detail": ""}}


def heff_spec_note(which, resid, tol, detail):
    s = HEFF_SPEC[which]
    s["n"] += 1
    s["worst"] = max(s["worst"], float(resid))
    if not resid <= tol:
        s["bad"] += 1
        s["detail"] = detail


def rat_tensor(rng, shape, den=4, span=4, zero_p=0.15):
    """complex tensor with entries (k + i m)/den, |k|,|m| <= span — dyadic, so every contraction below is exact in binary64"""
    a = np.zeros(shape, dtype=np.complex128)
    for idx in np.ndindex(*shape):
        if rng.random() < zero_p:
            continue
        a[idx] = complex(rng.randint(-span, span) / den, rng.randint(-span, span) / den)
    return a


def centries(arr):
    """entries of the array the real code returned, read one by one by explicit index (last index fastest), as exact rationals"""
    arr = np.asarray(arr)
    return " ".join(ib.cfrac(arr[idx]) for idx in np.ndindex(*arr.shape))


def shape_str(arr):
    return " ".join(str(int(x)) for x in np.asarray(arr).shape)


def numba_builders():
    try:
        from mqt.yaqs.core.methods import tdvp_numba as tn
        return tn
    except ImportError:
        return None


def capture_effective_operator(call):
    """run `call()` (an `update_site` / `update_bond` / `_evolve_local_tensor_krylov` invocation) with `expm_krylov` replaced by a
    recorder: returns (path, y) where path says whether `_build_dense_effective_hamiltonian` was used and y is what the closure
    handed to `expm_krylov` returns on the flattened start tensor"""
    rec = {"dense": 0, "y": None}
    orig_build = tdvp_mod._build_dense_effective_hamiltonian  # noqa: SLF001
    orig_expm = tdvp_mod.expm_krylov

    def build(projector, proj_args, tensor_shape):
        rec["dense"] += 1
        return orig_build(projector, proj_args, tensor_shape)

    def fake_expm(op, vec, dt, *a, **k):
        rec["y"] = np.array(op(np.array(vec, dtype=np.complex128)))
        return vec

    tdvp_mod._build_dense_effective_hamiltonian = build  # noqa: SLF001
    tdvp_mod.expm_krylov = fake_expm
    try:
        call()
    finally:
        tdvp_mod._build_dense_effective_hamiltonian = orig_build  # noqa: SLF001
        tdvp_mod.expm_krylov = orig_expm
    return ("dense" if rec["dense"] else "free"), rec["y"]


def site_dims(rng, big=False):
    o = rng.choice([2, 2, 3])
    p = o if rng.random() < 0.7 else rng.choice([2, 3])
    a, b = rng.randint(1, 3), rng.randint(1, 3)
    if rng.random() < 0.5:
        aa, bb = a, b
    else:
        aa, bb = rng.randint(1, 3), rng.randint(1, 3)
    return {"o": o, "p": p, "a": a, "aa": aa, "b": b, "bb": bb, "l": rng.randint(1, 3), "r": rng.randint(1, 3)}


def site_req(what, d, parts):
    return f"heffsite {what} {d['o']} {d['p']} {d['a']} {d['aa']} {d['b']} {d['bb']} {d['l']} {d['r']} | " + " | ".join(parts)


def run_heff_site(inp):
    rng = random.Random(inp["sub"])
    d = inp.get("dims") or site_dims(rng)
    L = rat_tensor(rng, (d["a"], d["l"], d["aa"]))
    R = rat_tensor(rng, (d["b"], d["r"], d["bb"]))
    W = rat_tensor(rng, (d["o"], d["p"], d["l"], d["r"]))
    X = rat_tensor(rng, (d["p"], d["a"], d["b"]))
    base = [centries(L), centries(R), centries(W)]
    tag = f"{d['o']}{d['p']}{d['a']}{d['aa']}{d['b']}{d['bb']}{d['l']}{d['r']}"
    square = d["a"] == d["aa"] and d["b"] == d["bb"] and d["o"] == d["p"]
    out = []
    # 1. einsum builder, whole matrix
    H = tdvp_mod.build_dense_heff_site(L.copy(), R.copy(), W.copy())
    Y = tdvp_mod.project_site(L.copy(), R.copy(), W.copy(), X.copy())
    dev = float(np.max(np.abs(H @ X.reshape(-1) - np.asarray(Y).reshape(-1)))) if H.shape[1] == X.size and H.shape[0] == np.asarray(Y).size else float("inf")
    orc = {"ok": dev <= 1e-12, "detail": f"max |build_dense_heff_site @ vec(X) - vec(project_site(X))| = {dev:.2e} (dims o p a A b B l r = {tag})"}
    out.append({"req": site_req("dense", d, base), "impl": shape_str(H) + " " + centries(H), "oracle": orc, "kind": "heff-site-dense",
                "sig": f"heff-site-dense:{tag}", "nontrivial": bool(np.any(H))})
    # 2. numba builder, whole matrix
    tn = numba_builders()
    if tn is not None:
        Hn = tn.build_dense_heff_site_numba(np.ascontiguousarray(L), np.ascontiguousarray(R), np.ascontiguousarray(W))
        devn = float(np.max(np.abs(Hn - H))) if Hn.shape == H.shape else float("inf")
        out.append({"req": site_req("numba", d, base), "impl": shape_str(Hn) + " " + centries(Hn),
                    "oracle": {"ok": devn <= 1e-12, "detail": f"max |numba builder - einsum builder| = {devn:.2e} (dims {tag})"},
                    "kind": "heff-site-numba", "sig": f"heff-site-numba:{tag}", "nontrivial": bool(np.any(Hn))})
    # 3. matrix-free projector on a random ket
    out.append({"req": site_req("apply", d, base + [centries(X)]), "impl": shape_str(Y) + " " + centries(Y), "oracle": None,
                "kind": "heff-site-apply", "sig": f"heff-site-apply:{tag}", "nontrivial": bool(np.any(Y))})
    # 4. flattening convention: numpy's reshape of a one-hot vector, through the projector and through the dense column
    ncols = d["p"] * d["a"] * d["b"]
    col = rng.randrange(ncols)
    e = np.zeros(ncols, dtype=np.complex128)
    e[col] = 1.0
    y1 = np.asarray(tdvp_mod.project_site(L.copy(), R.copy(), W.copy(), e.reshape(d["p"], d["a"], d["b"]))).reshape(-1)
    out.append({"req": site_req(f"onehot:{col}", d, base), "impl": f"{y1.size} " + centries(y1), "oracle": None,
                "kind": "heff-site-onehot", "sig": f"heff-site-onehot:{tag}:{col}", "nontrivial": bool(np.any(y1))})
    hc = H[:, col] if H.ndim == 2 and H.shape[1] > col else np.zeros(0)
    out.append({"req": site_req(f"onehot:{col}", d, base), "impl": f"{hc.size} " + centries(hc), "oracle": None,
                "kind": "heff-site-onehot-dense", "sig": f"heff-site-onehotd:{tag}:{col}", "nontrivial": bool(np.any(hc))})
    # 5. the size switch with an explicit threshold next to n_loc (the operator handed to expm_krylov)
    thr = ncols + rng.choice([-1, 0, 1])
    path, y = capture_effective_operator(
        lambda: tdvp_mod._evolve_local_tensor_krylov(tdvp_mod.project_site, X.copy(), 0.1, (L.copy(), R.copy(), W.copy()), dense_threshold=thr))  # noqa: SLF001
    out.append({"req": site_req(f"switch:{thr}", d, base + [centries(X)]), "impl": path + " " + centries(y), "oracle": None,
                "kind": "heff-site-switch", "sig": f"heff-site-switch:{tag}:{thr - ncols}", "nontrivial": True})
    if square and ncols <= tdvp_mod.DENSE_THRESHOLD + 64:
        # the public entry point with the module's own threshold
        path2, y2 = capture_effective_operator(lambda: tdvp_mod.update_site(L.copy(), R.copy(), W.copy(), X.copy(), 0.1))
        out.append({"req": site_req(f"switch:{int(tdvp_mod.DENSE_THRESHOLD)}", d, base + [centries(X)]), "impl": path2 + " " + centries(y2), "oracle": None,
                    "kind": "heff-site-switchdef", "sig": f"heff-site-switchdef:{tag}", "nontrivial": True})
    return out


def bond_dims(rng):
    u, v = rng.randint(1, 3), rng.randint(1, 3)
    if rng.random() < 0.5:
        pp, w = u, v
    else:
        pp, w = rng.randint(1, 3), rng.randint(1, 3)
    return {"u": u, "v": v, "m": rng.randint(1, 3), "pp": pp, "w": w}


def bond_req(what, d, parts):
    return f"heffbond {what} {d['u']} {d['v']} {d['m']} {d['pp']} {d['w']} | " + " | ".join(parts)


def run_heff_bond(inp):
    rng = random.Random(inp["sub"])
    d = inp.get("dims") or bond_dims(rng)
    L = rat_tensor(rng, (d["u"], d["m"], d["pp"]))
    R = rat_tensor(rng, (d["v"], d["m"], d["w"]))
    C = rat_tensor(rng, (d["u"], d["v"]))
    base = [centries(L), centries(R)]
    tag = f"{d['u']}{d['v']}{d['m']}{d['pp']}{d['w']}"
    square = d["u"] == d["pp"] and d["v"] == d["w"]
    out = []
    H = tdvp_mod.build_dense_heff_bond(L.copy(), R.copy())
    Y = tdvp_mod.project_bond(L.copy(), R.copy(), C.copy())
    dev = float(np.max(np.abs(H @ C.reshape(-1) - np.asarray(Y).reshape(-1)))) if H.shape[1] == C.size and H.shape[0] == np.asarray(Y).size else float("inf")
    orc = {"ok": dev <= 1e-12, "detail": f"max |build_dense_heff_bond @ vec(C) - vec(project_bond(C))| = {dev:.2e} (dims u v m p w = {tag})"}
    out.append({"req": bond_req("dense", d, base), "impl": shape_str(H) + " " + centries(H), "oracle": orc, "kind": "heff-bond-dense",
                "sig": f"heff-bond-dense:{tag}", "nontrivial": bool(np.any(H))})
    tn = numba_builders()
    if tn is not None:
        Hn = tn.build_dense_heff_bond_numba(np.ascontiguousarray(L), np.ascontiguousarray(R))
        devn = float(np.max(np.abs(Hn - H))) if Hn.shape == H.shape else float("inf")
        out.append({"req": bond_req("numba", d, base), "impl": shape_str(Hn) + " " + centries(Hn),
                    "oracle": {"ok": devn <= 1e-12, "detail": f"max |numba bond builder - einsum builder| = {devn:.2e} (dims {tag})"},
                    "kind": "heff-bond-numba", "sig": f"heff-bond-numba:{tag}", "nontrivial": bool(np.any(Hn))})
    out.append({"req": bond_req("apply", d, base + [centries(C)]), "impl": shape_str(Y) + " " + centries(Y), "oracle": None,
                "kind": "heff-bond-apply", "sig": f"heff-bond-apply:{tag}", "nontrivial": bool(np.any(Y))})
    ncols = d["u"] * d["v"]
    col = rng.randrange(ncols)
    e = np.zeros(ncols, dtype=np.complex128)
    e[col] = 1.0
    y1 = np.asarray(tdvp_mod.project_bond(L.copy(), R.copy(), e.reshape(d["u"], d["v"]))).reshape(-1)
    out.append({"req": bond_req(f"onehot:{col}", d, base), "impl": f"{y1.size} " + centries(y1), "oracle": None,
                "kind": "heff-bond-onehot", "sig": f"heff-bond-onehot:{tag}:{col}", "nontrivial": bool(np.any(y1))})
    hc = H[:, col] if H.ndim == 2 and H.shape[1] > col else np.zeros(0)
    out.append({"req": bond_req(f"onehot:{col}", d, base), "impl": f"{hc.size} " + centries(hc), "oracle": None,
                "kind": "heff-bond-onehot-dense", "sig": f"heff-bond-onehotd:{tag}:{col}", "nontrivial": bool(np.any(hc))})
    thr = ncols + rng.choice([-1, 0, 1])
    path, y = capture_effective_operator(
        lambda: tdvp_mod._evolve_local_tensor_krylov(tdvp_mod.project_bond, C.copy(), 0.1, (L.copy(), R.copy()), dense_threshold=thr))  # noqa: SLF001
    out.append({"req": bond_req(f"switch:{thr}", d, base + [centries(C)]), "impl": path + " " + centries(y), "oracle": None,
                "kind": "heff-bond-switch", "sig": f"heff-bond-switch:{tag}:{thr - ncols}", "nontrivial": True})
    if square:
        path2, y2 = capture_effective_operator(lambda: tdvp_mod.update_bond(L.copy(), R.copy(), C.copy(), 0.1))
        out.append({"req": bond_req(f"switch:{int(tdvp_mod.DENSE_THRESHOLD)}", d, base + [centries(C)]), "impl": path2 + " " + centries(y2), "oracle": None,
                    "kind": "heff-bond-switchdef", "sig": f"heff-bond-switchdef:{tag}", "nontrivial": True})
    return out


def shapes_with_product(n, firsts):
    """(p, a, b) with p in `firsts`, a, b >= 2 (when possible) and p*a*b == n"""
    out = []
    for p in firsts:
        if n % p:
            continue
        m = n // p
        for a in range(2, m):
            if m % a == 0 and m // a >= 2:
                out.append((p, a, m // a))
        if not out:
            out.append((p, 1, m))
    return out


def run_heff_threshold(inp):
    """local problems whose size is DENSE_THRESHOLD + {-2..2} (and a few further away) through the public `update_site` / `update_bond`:
    which side of the switch the real code takes, and the operator it hands to expm_krylov, vs the model's `applyEffSite/Bond` at the
    module's own constant (so `<=` vs `<` is decided exactly at n_loc == DENSE_THRESHOLD)"""
    rng = random.Random(inp["sub"])
    thr = int(tdvp_mod.DENSE_THRESHOLD)
    delta = inp.get("delta", 0)
    target = max(2, thr + delta)
    if inp["which"] == "site":
        cands = shapes_with_product(target, [2, 3, 4]) or [(1, 1, target)]
        p, a, b = rng.choice(cands)
        d = {"o": p, "p": p, "a": a, "aa": a, "b": b, "bb": b, "l": rng.randint(1, 2), "r": rng.randint(1, 2)}
        L = rat_tensor(rng, (a, d["l"], a), den=2, span=2, zero_p=0.5)
        R = rat_tensor(rng, (b, d["r"], b), den=2, span=2, zero_p=0.5)
        W = rat_tensor(rng, (p, p, d["l"], d["r"]), den=2, span=2, zero_p=0.2)
        X = rat_tensor(rng, (p, a, b), den=2, span=2, zero_p=0.3)
        path, y = capture_effective_operator(lambda: tdvp_mod.update_site(L.copy(), R.copy(), W.copy(), X.copy(), -0.05))
        req = site_req(f"switch:{thr}", d, [centries(L), centries(R), centries(W), centries(X)])
        n_loc = p * a * b
    else:
        cands = [(u, target // u) for u in range(2, target) if target % u == 0] or [(1, target)]
        u, v = rng.choice(cands)
        d = {"u": u, "v": v, "m": rng.randint(1, 2), "pp": u, "w": v}
        L = rat_tensor(rng, (u, d["m"], u), den=2, span=2, zero_p=0.5)
        R = rat_tensor(rng, (v, d["m"], v), den=2, span=2, zero_p=0.5)
        X = rat_tensor(rng, (u, v), den=2, span=2, zero_p=0.3)
        path, y = capture_effective_operator(lambda: tdvp_mod.update_bond(L.copy(), R.copy(), X.copy(), -0.05))
        req = bond_req(f"switch:{thr}", d, [centries(L), centries(R), centries(X)])
        n_loc = u * v
    return {"req": req, "impl": path + " " + centries(y), "oracle": None, "kind": f"heff-threshold-{inp['which']}",
            "sig": f"heff-threshold:{inp['which']}:{n_loc - thr}:{path}", "nontrivial": True}


def run_heff_env(inp):
    """one step of update_left_environment / update_right_environment with independent ket and bra"""
    rng = random.Random(inp["sub"])
    d = site_dims(rng)
    ket = rat_tensor(rng, (d["p"], d["a"], d["b"]))
    bra = rat_tensor(rng, (d["o"], d["aa"], d["bb"]))
    W = rat_tensor(rng, (d["o"], d["p"], d["l"], d["r"]))
    dims = f"{d['o']} {d['p']} {d['a']} {d['aa']} {d['b']} {d['bb']} {d['l']} {d['r']}"
    tag = dims.replace(" ", "")
    if inp["side"] == "left":
        E = rat_tensor(rng, (d["a"], d["l"], d["aa"]))
        out = tdvp_mod.update_left_environment(ket.copy(), bra.copy(), W.copy(), E.copy())
        req = f"envleft {dims} | {centries(E)} | {centries(W)} | {centries(ket)} | {centries(bra)}"
    else:
        E = rat_tensor(rng, (d["b"], d["r"], d["bb"]))
        out = tdvp_mod.update_right_environment(ket.copy(), bra.copy(), W.copy(), E.copy())
        req = f"envright {dims} | {centries(E)} | {centries(W)} | {centries(ket)} | {centries(bra)}"
    return {"req": req, "impl": shape_str(out) + " " + centries(out), "oracle": None, "kind": f"heff-env-{inp['side']}",
            "sig": f"heff-env:{inp['side']}:{tag}", "nontrivial": bool(np.any(out))}


def run_heff_chain(inp):
    """`initialize_right_environments` of a whole small chain (loop indices, identity boundary) vs the model's `rightEnvChain`"""
    rng = random.Random(inp["sub"])
    n = rng.randint(2, 4)
    phys = [rng.choice([2, 2, 3]) for _ in range(n)]
    chi = [rng.choice([1, 1, 2])] + [rng.randint(1, 3) for _ in range(n - 1)] + [rng.choice([1, 1, 2])]
    mb = [rng.choice([1, 1, 2])] + [rng.randint(1, 3) for _ in range(n - 1)] + [rng.choice([1, 1, 2])]
    kets = [rat_tensor(rng, (phys[i], chi[i], chi[i + 1]), den=2, span=2) for i in range(n)]
    ws = [rat_tensor(rng, (phys[i], phys[i], mb[i], mb[i + 1]), den=2, span=2) for i in range(n)]
    psi = MPS(n, tensors=[k.copy() for k in kets], physical_dimensions=list(phys))
    op = MPO()
    op.custom([w.copy() for w in ws], transpose=False)
    blocks = tdvp_mod.initialize_right_environments(psi, op)
    parts = []
    for i in range(n):
        parts += [f"{phys[i]} {phys[i]} {chi[i]} {chi[i + 1]} {mb[i]} {mb[i + 1]}", centries(kets[i]), centries(ws[i])]
    req = f"rightchain {n} | " + " | ".join(parts)
    impl = " | ".join(centries(b) for b in blocks)
    orc = cut_independence_oracle(kets, ws, blocks, f"chain phys {phys} bonds {chi} MPO bonds {mb}")
    return {"req": req, "impl": impl, "oracle": orc, "kind": "heff-right-chain", "sig": f"heff-chain:{n}:{phys}:{chi}:{mb}",
            "nontrivial": n >= 2 and bool(np.any(blocks[0]))}


def cut_independence_oracle(kets, ws, rights, what, rtol=1e-9):
    """conclusion of `env_update_assoc` on the real code: with left blocks built by the real `update_left_environment` and right blocks
    by the real `initialize_right_environments`, the number <left_blocks[k], right_blocks[k-1]> is the same for every cut k and equals an
    independent transfer-matrix contraction of <psi| MPO |psi> (own einsum, identity boundaries)"""
    n = len(kets)
    chi0, m0 = kets[0].shape[1], ws[0].shape[2]
    left = np.zeros((chi0, m0, chi0), dtype=complex)
    for i in range(chi0):
        left[i, :, i] = 1
    lefts = [left]
    for i in range(n - 1):
        lefts.append(tdvp_mod.update_left_environment(kets[i], kets[i], ws[i], lefts[i]))
    vals = [complex(np.sum(lefts[k] * rights[k - 1])) for k in range(1, n)]
    # cut 0: the boundary block against the chain contracted completely from the right
    vals.append(complex(np.sum(lefts[0] * tdvp_mod.update_right_environment(kets[0], kets[0], ws[0], rights[0]))))
    e = left.copy()
    for i in range(n):   # E'[b,r,B] = sum ket[p,a,b] W[o,p,l,r] conj(ket[o,A,B]) E[a,l,A]
        e = np.einsum("pab,oplr,oAB,alA->brB", kets[i], ws[i], kets[i].conj(), e)
    chin, mn = kets[-1].shape[2], ws[-1].shape[3]
    ref = complex(sum(e[i, a, i] for i in range(chin) for a in range(mn)))
    scale = max(1.0, abs(ref))
    dev = max(abs(v - ref) for v in vals) / scale
    return {"ok": dev <= rtol, "detail": f"{what}: <L_k, R_k> over the {len(vals)} cuts deviates from the independent contraction {ref:.6g} by {dev:.2e} (relative)"}


def find_gauges(ws):
    """bond gauges of a Hermitian MPO: matrices G_k (and inverses Gi_k) on every bond with
    W_k[o,p,l,r]* = sum_{l',r'} G_k[l,l'] W_k[p,o,l',r'] Gi_{k+1}[r',r]  (hypothesis OpHermG of heff_hermitian_chain),
    G_0 = 1; solved bond by bond by least squares.  Returns (Gs, Gis, worst residual)"""
    n = len(ws)
    gs, gis = [np.eye(ws[0].shape[2], dtype=complex)], [np.eye(ws[0].shape[2], dtype=complex)]
    worst = 0.0
    for k in range(n):
        w = ws[k]
        do, dp, dl, dr = w.shape
        t = np.einsum("lm,pomr->oplr", gs[k], w).reshape(do * dp * dl, dr)      # T[(o,p,l), r'] = sum_l' G[l,l'] W[p,o,l',r']
        target = w.conj().reshape(do * dp * dl, dr)                               # W[o,p,l,r]*
        gi_next, *_ = np.linalg.lstsq(t, target, rcond=None)
        resid = float(np.max(np.abs(t @ gi_next - target))) / max(1.0, float(np.max(np.abs(w))))
        worst = max(worst, resid)
        if abs(np.linalg.det(gi_next)) < 1e-12:
            return None, None, float("inf")
        gis.append(gi_next)
        gs.append(np.linalg.inv(gi_next))
    return gs, gis, worst


def run_heff_herm(inp):
    """hypotheses and conclusion of `heff_hermitian_chain` / `heff_bond_hermitian_chain` on the real code: Hermitian MPOs of the
    library, a random complex MPS, environments built by the real update functions with the state's own tensors ->
    bond gauges exist, blocks conjugate-symmetric up to them, dense effective Hamiltonians Hermitian at every site and bond"""
    rng = random.Random(inp["sub"])
    nprng = np.random.default_rng(inp["sub"])
    n = rng.randint(2, 5)
    model = rng.choice(["ising", "heisenberg", "bose"])
    if model == "ising":
        ham, dloc = MPO.ising(n, rng.uniform(0.5, 1.5), rng.uniform(0.3, 1.2)), 2
    elif model == "heisenberg":
        ham, dloc = MPO.heisenberg(n, rng.uniform(0.4, 1.2), rng.uniform(0.4, 1.2), rng.uniform(0.4, 1.2), rng.uniform(0.1, 0.8)), 2
    else:
        dloc = rng.choice([2, 3])
        ham = MPO.bose_hubbard(n, dloc, rng.uniform(0.5, 1.5), rng.uniform(0.3, 1.2), rng.uniform(0.2, 1.0))
    chi = [1] + [rng.randint(1, 4) for _ in range(n - 1)] + [1]
    tensors = [nprng.normal(size=(dloc, chi[i], chi[i + 1])) + 1j * nprng.normal(size=(dloc, chi[i], chi[i + 1])) for i in range(n)]
    psi = MPS(n, tensors=tensors, physical_dimensions=[dloc] * n)
    ws = [np.asarray(t) for t in ham.tensors]
    gs, gis, gres = find_gauges(ws)
    bdy = float("inf") if gs is None else max(float(np.max(np.abs(gis[0].sum(axis=0) - 1))), float(np.max(np.abs(gs[n].sum(axis=1) - 1))))
    heff_spec_note("ophem", max(gres, bdy), 1e-8,
                   f"MPO.{model} (length {n}): no bond gauges with W* = G W^T G^-1 (residual {gres:.2e}, boundary {bdy:.2e})")
    probs = []
    rights = tdvp_mod.initialize_right_environments(psi, ham)
    left = np.zeros((chi[0], ws[0].shape[2], chi[0]), dtype=complex)
    for i in range(chi[0]):
        left[i, :, i] = 1
    lefts = [left]
    for i in range(n - 1):
        lefts.append(tdvp_mod.update_left_environment(psi.tensors[i], psi.tensors[i], ws[i], lefts[i]))
    worst_env, worst_h = 0.0, 0.0
    for i in range(n):
        if gs is not None and max(gres, bdy) <= 1e-8:
            el, er = lefts[i], rights[i]
            # LeftHermG on bond i:  E[A,l,a]* = sum_l' E[a,l',A] Gi_i[l',l];  RightHermG on bond i+1:  E[B,r,b]* = sum_r' G_{i+1}[r,r'] E[b,r',B]
            dl_ = float(np.max(np.abs(el.conj().transpose(2, 1, 0) - np.einsum("amA,ml->alA", el, gis[i])))) / max(1.0, float(np.max(np.abs(el))))
            dr_ = float(np.max(np.abs(er.conj().transpose(2, 1, 0) - np.einsum("rm,bmB->brB", gs[i + 1], er)))) / max(1.0, float(np.max(np.abs(er))))
            worst_env = max(worst_env, dl_, dr_)
            heff_spec_note("envherm", max(dl_, dr_), 1e-8, f"blocks of site {i} of MPO.{model} (length {n}): left {dl_:.2e} right {dr_:.2e}")
        h = tdvp_mod.build_dense_heff_site(lefts[i], rights[i], ws[i])
        dev = float(np.max(np.abs(h - h.conj().T))) / max(1.0, float(np.max(np.abs(h))))
        worst_h = max(worst_h, dev)
        if dev > 1e-10:
            probs.append(f"dense single-site effective Hamiltonian at site {i} of MPO.{model} (length {n}, bonds {chi}) is not Hermitian: {dev:.2e}")
        if i < n - 1:
            hb = tdvp_mod.build_dense_heff_bond(lefts[i + 1], rights[i])
            dev = float(np.max(np.abs(hb - hb.conj().T))) / max(1.0, float(np.max(np.abs(hb))))
            worst_h = max(worst_h, dev)
            if dev > 1e-10:
                probs.append(f"dense bond effective Hamiltonian at bond {i} of MPO.{model} (length {n}, bonds {chi}) is not Hermitian: {dev:.2e}")
    cut = cut_independence_oracle([np.asarray(t) for t in psi.tensors], ws, rights, f"MPO.{model} length {n} bonds {chi}")
    if not cut["ok"]:
        probs.append(cut["detail"])
    trivial_gauge = gs is not None and all(float(np.max(np.abs(g - np.eye(len(g))))) < 1e-9 for g in gs)
    return {"req": None, "impl": None, "kind": "heff-herm", "sig": f"heff-herm:{model}:{n}:{'id' if trivial_gauge else 'gauge'}",
            "oracle": {"ok": not probs, "detail": "; ".join(probs[:3]) or f"MPO.{model} length {n} ({'identity' if trivial_gauge else 'non-trivial'} gauge, residual "
                                                                           f"{gres:.1e}): blocks conj-symmetric to {worst_env:.1e}, dense H_eff Hermitian to {worst_h:.1e}"},
            "meta": {"worst_env": worst_env, "worst_h": worst_h, "gauge_residual": gres, "trivial_gauge": trivial_gauge}}


def run_ratc(inp):
    """exact recurrence for a complex Hermitian operator: alpha_j and beta_j^2 of the real run vs lanczosC over Q(i)
    (small dyadic Hermitian matrices, complex start vectors) — the recurrence `lanczos_projection` is about"""
    rng = random.Random(inp["sub"])
    n = rng.choice([3, 4, 5, 6])
    a = np.zeros((n, n), dtype=complex)
    for i in range(n):
        a[i, i] = rng.randint(-8, 8) / 4
        for j in range(i + 1, n):
            a[i, j] = complex(rng.randint(-8, 8) / 4, rng.randint(-8, 8) / 4)
            a[j, i] = a[i, j].conjugate()
    v = np.array([complex(rng.randint(-4, 4), rng.randint(-4, 4)) for _ in range(n)])
    if not np.any(v):
        v[0] = 1.0
    m_max = rng.randint(2, n - 1) if n > 3 else 2
    case, out, rec = lanczos_case(lambda x: a @ x, v.copy(), rng.choice([0.1, -0.3]), m_max, 1e-14, "lanczos-ratc")
    k = rec["matvec"]
    it = rec["last"]
    if isinstance(out, str) or it is None or it["k"] != k:
        return case
    alphas, betas = it["alpha"], it["beta"]
    req = f"lanczosc {n} {k} | {' '.join(ib.cfrac(x) for row in a for x in row)} | {' '.join(ib.cfrac(x) for x in v)}"
    impl = " ".join(ib.fmt(x) for x in alphas) + " | " + " ".join(ib.fmt(b * b) for b in betas)
    scale = float(np.max(np.abs(a))) or 1.0
    edge = bool(len(betas) and min(betas) < 1e-2 * scale) or bool(np.max(np.abs(alphas)) > 0 and np.min(np.abs(alphas)) < 1e-6 * scale)
    return [case, {"req": req, "impl": impl, "oracle": None, "edge": edge, "kind": "lanczos-ratc-values", "sig": f"ratc:{n}:{k}",
                   "nontrivial": k >= 2}]


def heff_spec():
    return [{"name": "hypothesis OpHermG of heff_hermitian(_chain): invertible bond gauges G_k with W_k[o,p,l,r]* = sum G_k[l,l'] W_k[p,o,l',r'] "
                     "G_{k+1}^-1[r',r], G_0 = G_n = [[1]], exist for the library MPOs used (ising, heisenberg: SVD-compressed, general G; "
                     "bose_hubbard: G swaps the adag / a channels)",
             "ok": HEFF_SPEC["ophem"]["bad"] == 0, "n": HEFF_SPEC["ophem"]["n"], "worst_residual": HEFF_SPEC["ophem"]["worst"],
             "detail": HEFF_SPEC["ophem"]["detail"]},
            {"name": "conclusion of env_update_hermitian on the real blocks: L[A,l,a]* = sum L[a,l',A] G^-1[l',l] and R[B,r,b]* = sum G[r,r'] R[b,r',B] "
                     "for every left / right block built by the real update functions from the state's own tensors", "ok": HEFF_SPEC["envherm"]["bad"] == 0, "n": HEFF_SPEC["envherm"]["n"],
             "worst_residual": HEFF_SPEC["envherm"]["worst"], "detail": HEFF_SPEC["envherm"]["detail"]}]


def gen_heff(rng, tier):
    n = {"quick": 1.0, "thorough": 6.0, "search": 1.5}.get(tier, 1.0)
    for _ in range(int(14 * n)):
        yield {"kind": "heff-site", "sub": rng.randrange(1 << 30)}
    for _ in range(int(10 * n)):
        yield {"kind": "heff-bond", "sub": rng.randrange(1 << 30)}
    for side in ("left", "right"):
        for _ in range(int(10 * n)):
            yield {"kind": "heff-env", "side": side, "sub": rng.randrange(1 << 30)}
    for _ in range(int(10 * n)):
        yield {"kind": "heff-chain", "sub": rng.randrange(1 << 30)}
    for which in ("site", "bond"):
        for delta in (0, 1, -1, 2, -2, 16)[: max(3, int(4 * n))]:
            yield {"kind": "heff-threshold", "which": which, "delta": delta, "sub": rng.randrange(1 << 30)}
    for _ in range(int(12 * n)):
        yield {"kind": "heff-herm", "sub": rng.randrange(1 << 30)}
    for _ in range(int(30 * n)):
        yield {"kind": "ratc", "sub": rng.randrange(1 << 30)}


HEFF_KINDS = {"heff-site": run_heff_site, "heff-bond": run_heff_bond, "heff-env": run_heff_env, "heff-chain": run_heff_chain,
              "heff-threshold": run_heff_threshold, "heff-herm": run_heff_herm, "ratc": run_ratc}



# =====================================================================================================================
# xp19 extension — polynomial exactness of the Krylov basis and the a-priori accuracy bound
#   (Lemmas/KrylovPoly.lean, Lemmas/ExpTail.lean, Lemmas/KrylovBound.lean; theorems krylov_poly_exact, arnoldi_poly_exact,
#    krylov_error_bound(_code), krylov_error_default of Props/C19.lean section 8)
# kind polyexact : the REAL expm_krylov / expm_arnoldi run with the scalar function `exp` of their module replaced by a random
#                  polynomial q (module attribute `np` resp. `scipy.linalg.expm` wrapped; the convergence exit forced at a chosen
#                  iteration through the module-level `abs`): every return path of the code (converged / cached-exhausted / fresh /
#                  breakdown) must reproduce q(-i dt A) vec for deg q < number of vectors used.  Oracle 1e-9 relative.
#                  Also from the captured alpha / beta / V of the same run: the recurrence A V = V T on all columns but the last
#                  (hypothesis of krylov_poly_exact; spec tie) and q(A) vec = nrm V q(T) e_1 by Horner on the dense T.
# kind apriori   : measured error of the real expm_krylov (true exponential) vs scipy.linalg.expm is at most the proved bounds
#                  2 ||vec|| tail_k(|dt| ||A - c||_2) (c = midpoint of the spectrum: half the spectral width; krylov_error_bound_shift) and
#                  2 ||vec|| tail_k(|dt| ||A||_2) (krylov_error_bound), k = number of Lanczos vectors the run used; ||T - c||_2 <= ||A - c||_2.
# =====================================================================================================================
XP_SPEC = {"recurrence": {"n": 0, "bad": 0, "worst": 0.0, "detail": ""}, "tnorm": {"n": 0, "bad": 0, "worst": 0.0, "detail": ""},
           "arnoldi-recurrence": {"n": 0, "bad": 0, "worst": 0.0, "detail": ""}}


def xp_spec_note(which, resid, tol, detail):
    s = XP_SPEC[which]
    s["n"] += 1
    s["worst"] = max(s["worst"], float(resid))
    if not resid <= tol:
        s["bad"] += 1
        s["detail"] = detail


class _NpShim:
    """stands in for the name `np` inside matrix_exponential: everything is numpy's, except `exp`"""

    def __init__(self, fexp):
        self.exp = fexp

    def __getattr__(self, name):
        return getattr(np, name)


def poly_eval(coef, z):
    """Horner, elementwise on an array of scalars"""
    z = np.asarray(z, dtype=complex)
    out = np.zeros_like(z) + coef[-1]
    for c in coef[-2::-1]:
        out = out * z + c
    return out


def poly_mat(coef, mat):
    """Horner on a square matrix"""
    n = mat.shape[0]
    out = coef[-1] * np.eye(n, dtype=complex)
    for c in coef[-2::-1]:
        out = out @ mat + c * np.eye(n, dtype=complex)
    return out


def poly_apply(coef, amat, vec):
    """q(amat) vec by Horner on the vector (the reference: dense matrix, no Krylov space involved)"""
    out = coef[-1] * vec
    for c in coef[-2::-1]:
        out = amat @ out + c * vec
    return out


def run_with_poly(which, op, vec, dt, m_max, coef, stop_at):
    """the real expm_krylov (which='lanczos') / expm_arnoldi (which='arnoldi') with exp := q and, if stop_at is not None, the
    convergence test forced to succeed in iteration j = stop_at (tol = 0 and the module's `abs` returns -1 there, so `err < tol`)"""
    state = {"j": -1}

    def wop(x):
        state["j"] += 1
        return op(x)

    def fake_abs(x):
        return -1.0 if stop_at is not None and state["j"] == stop_at else abs(x)

    mexp.abs = fake_abs
    try:
        if which == "lanczos":
            shim = _NpShim(lambda z: poly_eval(coef, z))
            np0 = mexp.np
            mexp.np = shim
            try:
                out, rec = trace_lanczos(wop, vec.copy(), dt, m_max, 0.0)
            finally:
                mexp.np = np0
        else:
            scipy.linalg.expm = lambda mat: poly_mat(coef, np.asarray(mat, dtype=complex))
            rec = {"h": None}
            orig_comp = mexp._compute_arnoldi_result  # noqa: SLF001

            def comp(h_mat, v_mat, nrm, dt_):
                rec["fresh"] = True
                rec["h"], rec["v"] = np.array(h_mat), np.array(v_mat)
                return orig_comp(h_mat, v_mat, nrm, dt_)

            mexp._compute_arnoldi_result = comp  # noqa: SLF001
            try:
                try:
                    out = mexp.expm_arnoldi(wop, vec.copy(), dt, m_max, 0.0)
                except Exception as e:  # noqa: BLE001
                    out = type(e).__name__
            finally:
                scipy.linalg.expm = EXPM
                mexp._compute_arnoldi_result = orig_comp  # noqa: SLF001
    finally:
        del mexp.abs
    rec["matvec"] = state["j"] + 1
    return out, rec


def run_polyexact(inp):
    rng = random.Random(inp["sub"])
    nprng = np.random.default_rng(inp["sub"])
    which = inp.get("which", "lanczos")
    n = rng.randint(6, 40)
    x = rng.choice([0.3, 1.0, 2.0, 3.0])                      # |dt| * ||A||_2
    dt = rng.choice([1, -1]) * rng.choice([0.05, 0.2, 1.0])
    if which == "lanczos":
        lam = nprng.uniform(-1.0, 1.0, size=n)
        lam[rng.randrange(n)] = rng.choice([-1.0, 1.0])
        if rng.random() < 0.3:
            lam = np.abs(lam)                                  # one-sided spectrum
        a, u = hermitian_with_spectrum(nprng, lam * x / abs(dt))
    else:
        a = nprng.normal(size=(n, n)) + 1j * nprng.normal(size=(n, n))
        a = a / np.linalg.norm(a, 2) * x / abs(dt)
    path = inp["path"]
    vec = (nprng.normal(size=n) + 1j * nprng.normal(size=n)) * rng.choice([1.0, 1e-3, 37.0])
    stop_at = None
    if path == "exhausted":                                    # cached eigendecomposition of the last error check (m_max >= 2)
        m_max = rng.randint(2, min(n, 12))
        k_want = m_max
    elif path == "fresh":                                      # m_max = 1: _compute_krylov_result / _compute_arnoldi_result
        m_max, k_want = 1, 1
    elif path == "converged":                                  # `err < tol` branch, forced in iteration j = k - 1
        m_max = rng.randint(3, min(n, 14))
        k_want = rng.randint(2, m_max - 1) if which == "lanczos" else rng.randint(2, m_max)
        stop_at = k_want - 1
    else:                                                      # breakdown: start in an invariant subspace of dimension r
        r = rng.randint(1, min(5, n - 2))
        if which == "lanczos":
            idx = nprng.choice(n, size=r, replace=False)
            vec = u[:, idx] @ (nprng.normal(size=r) + 1j * nprng.normal(size=r) + 0.5)
        else:
            w_, vr = np.linalg.eig(a)
            idx = nprng.choice(n, size=r, replace=False)
            vec = vr[:, idx] @ (nprng.normal(size=r) + 1j * nprng.normal(size=r) + 0.5)
        m_max = rng.randint(r + 2, min(n, r + 8))
        k_want = r
    nrm = float(np.linalg.norm(vec))
    # degree: the largest the theorem covers (k - 1); after a breakdown the space is invariant and any degree is exact
    deg = k_want - 1 if path != "breakdown" else rng.randint(k_want, 2 * k_want + 2)
    coef = [(nprng.normal() + 1j * nprng.normal()) / float(np.prod(np.arange(1, j + 1))) for j in range(deg + 1)]   # c_j ~ 1/j!
    if abs(coef[-1]) < 0.2 / float(np.prod(np.arange(1, deg + 1))):
        coef[-1] = (1.0 + 0.5j) / float(np.prod(np.arange(1, deg + 1)))
    op = (lambda y: a @ y)
    out, rec = run_with_poly(which, op, vec, dt, m_max, coef, stop_at)
    probs = []
    tag = f"{which} {path} n={n} m_max={m_max} k_want={k_want} deg={deg} |dt|*norm={x}"
    if isinstance(out, str):
        return {"req": None, "impl": None, "kind": f"polyexact-{which}-{path}", "sig": f"polyexact:{which}:{path}:raised",
                "oracle": {"ok": False, "detail": f"raised {out} ({tag})"}}
    k = rec["matvec"]
    z = -1j * dt
    zc = [c * z ** j for j, c in enumerate(coef)]              # q(z X) = sum (c_j z^j) X^j
    ref = poly_apply(zc, a, vec)
    scale = nrm * sum(abs(c) * x ** j for j, c in enumerate(coef))
    err = float(np.linalg.norm(out - ref)) / scale
    if k != k_want and path != "breakdown":
        probs.append(f"the run used {k} vectors, the forced exit asks for {k_want}")
    # a breakdown is detected against an absolute threshold (eps_cut = 100 n eps resp. 1e-12): for ||A|| >> 1 the residual of an invariant
    # start may stay above it and the loop goes on — then only deg < k is covered by the theorem
    broke = path == "breakdown" and k < m_max and (bool(rec.get("fresh")) if which == "arnoldi" else rec.get("fresh", 0) > 0)
    covered = deg < k or broke
    if covered and not err <= 1e-9:
        probs.append(f"q(-i dt A) vec not reproduced: relative error {err:.2e} for deg q = {deg} < k = {k}")
    # sharpness probe (not judged): one degree more is in general not exact
    sharp = None
    if path in ("exhausted", "converged") and k == k_want:
        coef2 = coef + [(0.7 - 0.4j) / float(np.prod(np.arange(1, deg + 2)))]
        out2, _ = run_with_poly(which, op, vec, dt, m_max, coef2, stop_at)
        if not isinstance(out2, str):
            zc2 = [c * z ** j for j, c in enumerate(coef2)]
            sharp = float(np.linalg.norm(out2 - poly_apply(zc2, a, vec))) / (nrm * sum(abs(c) * x ** j for j, c in enumerate(coef2)))
    # the captured basis and small matrix of the same run: recurrence (hypothesis of the theorem) and Horner on the dense T
    err_vt = None
    if which == "lanczos":
        it, vb = rec.get("last"), rec.get("vbase")
        if it is not None and vb is not None and it["k"] == k and np.asarray(vb).ndim == 2:
            v = np.asarray(vb)[:, :k]
            t = np.diag(it["alpha"]).astype(complex) + np.diag(it["beta"], 1) + np.diag(it["beta"], -1)
            if k >= 2:
                res = float(np.linalg.norm(a @ v[:, : k - 1] - v @ t[:, : k - 1])) / max(1e-300, float(np.linalg.norm(a, 2)))
                xp_spec_note("recurrence", res, 1e-10, f"|A V - V T| on the first k-1 columns = {res:.2e} ({tag})")
            e0 = np.zeros(k, dtype=complex)
            e0[0] = 1.0
            err_vt = float(np.linalg.norm(nrm * (v @ poly_apply(zc, t, e0)) - ref)) / scale
            if covered and not err_vt <= 1e-9:
                probs.append(f"nrm V q(T) e_1 (captured alpha, beta, V; Horner) differs from q(A) vec by {err_vt:.2e} for deg {deg} < k = {k}")
    elif rec.get("h") is not None and path in ("fresh", "exhausted") and rec["h"].shape[0] == k:
        h_, v_ = rec["h"], rec["v"]
        if k >= 2:
            res = float(np.linalg.norm(a @ v_[:, : k - 1] - v_ @ h_[:, : k - 1])) / max(1e-300, float(np.linalg.norm(a, 2)))
            xp_spec_note("arnoldi-recurrence", res, 1e-10, f"|A V - V H| on the first k-1 columns = {res:.2e} ({tag})")
        e0 = np.zeros(k, dtype=complex)
        e0[0] = 1.0
        err_vt = float(np.linalg.norm(nrm * (v_ @ poly_apply(zc, h_, e0)) - ref)) / scale
        if covered and not err_vt <= 1e-9:
            probs.append(f"nrm V q(H) e_1 (captured h, V; Horner) differs from q(A) vec by {err_vt:.2e} for deg {deg} < k = {k}")
    detail = f"{tag}: k={k} rel err {err:.1e}" + (f", via captured V,T {err_vt:.1e}" if err_vt is not None else "") + \
        (f", one degree more: {sharp:.1e}" if sharp is not None else "")
    if not covered:
        detail += " (not judged: breakdown not detected and deg >= k)"
    return {"req": None, "impl": None, "kind": f"polyexact-{which}-{path}", "sig": f"polyexact:{which}:{path}:{k}:{deg}:{covered}",
            "oracle": {"ok": not probs, "detail": "; ".join(probs) or detail}, "nontrivial": bool(covered and (broke or (sharp is not None and sharp > 1e-6))),
            "meta": {"err": err, "err_vt": err_vt, "sharp": sharp, "k": k, "deg": deg}}


def exp_tail(m, x):
    """tail_m(x) = sum_{j >= m} x^j / j!  (x >= 0), summed directly: every term is positive, no cancellation"""
    term = 1.0
    for j in range(1, m + 1):
        term *= x / j
    tot, j = 0.0, m
    while term > 1e-320 and (term > 1e-18 * tot or x >= j + 1):
        tot += term
        j += 1
        term *= x / j
        if j > 5000:
            break
    return tot + term


def run_apriori(inp):
    rng = random.Random(inp["sub"])
    nprng = np.random.default_rng(inp["sub"])
    n = rng.choice([6, 10, 16, 24, 40, 64, 100])
    x = rng.choice([0.1, 0.3, 1.0, 2.0, 3.0, 5.0, 8.0])       # |dt| * (half the spectral width) = |dt| * ||A - c||_2, c the midpoint
    dt = rng.choice([1, -1]) * rng.choice([0.01, 0.1, 0.5, 2.0])
    shape = rng.choice(["uniform", "uniform", "clustered", "two"])
    if shape == "uniform":
        lam = nprng.uniform(-1.0, 1.0, size=n)
        lam[0], lam[1] = -1.0, 1.0
    elif shape == "clustered":
        lam = np.concatenate([nprng.normal(-0.9, 0.01, size=n // 2), nprng.normal(0.9, 0.01, size=n - n // 2)])
    else:
        lam = np.where(np.arange(n) % 2 == 0, -1.0, 1.0) * 1.0
    lam = lam - (float(np.max(lam)) + float(np.min(lam))) / 2
    lam = lam / float(np.max(np.abs(lam)))
    shift = rng.choice([0.0, 0.0, 0.5, -1.0, 3.0, 30.0])       # in units of the half width: the spectrum need not be centred
    lam = (lam + shift) * x / abs(dt)
    a, u = hermitian_with_spectrum(nprng, lam)
    vec = (nprng.normal(size=n) + 1j * nprng.normal(size=n)) * rng.choice([1.0, 1e-3, 37.0])
    if rng.random() < 0.15:
        r = rng.randint(1, min(n, 6))
        vec = u[:, nprng.choice(n, size=r, replace=False)] @ (nprng.normal(size=r) + 1j * nprng.normal(size=r))
    m_max = rng.choice([2, 3, 5, 8, 12, 25, 25, 40])
    tol = rng.choice([1e-12, 1e-12, 1e-8, 1e-4, 1e-2])
    nrm = float(np.linalg.norm(vec))
    out, rec = trace_lanczos(lambda y: a @ y, vec.copy(), dt, m_max, tol)
    if isinstance(out, str):
        return {"req": None, "impl": None, "kind": "apriori", "sig": "apriori:raised",
                "oracle": {"ok": False, "detail": f"expm_krylov raised {out} (n={n}, m_max={m_max})"}}
    k = rec["matvec"]
    ev = np.linalg.eigvalsh(a)
    mid = (float(ev[0]) + float(ev[-1])) / 2
    norm_a = float(np.linalg.norm(a, 2))
    norm_c = float(np.linalg.norm(a - mid * np.eye(n), 2))     # ||A - c 1||_2 for the real shift c = midpoint of the spectrum
    xx, xc = abs(dt) * norm_a, abs(dt) * norm_c
    exact = EXPM(-1j * dt * a) @ vec
    err = float(np.linalg.norm(out - exact)) / nrm
    bound_c = 2.0 * exp_tail(k, xc)                            # krylov_error_bound_shift
    bound = 2.0 * exp_tail(k, xx) if xx < 400 else float("inf")   # krylov_error_bound (c = 0)
    probs = []
    # rounding floor of the run itself: observed <= 2e-13 * (1 + |dt| ||A||) over 5 seeds (see the builder's report)
    slack = 1e-9 * (1.0 + xx)
    if not err <= bound_c * (1 + 1e-9) + slack:
        probs.append(f"error {err:.3e}*|vec| exceeds the proved bound 2*tail_{k}(|dt|*||A-c||) = 2*tail_{k}({xc:.3g}) = {bound_c:.3e} "
                     f"(n={n}, m_max={m_max}, tol={tol}, shape {shape}, shift {shift})")
    if not err <= bound * (1 + 1e-9) + slack:
        probs.append(f"error {err:.3e}*|vec| exceeds 2*tail_{k}(|dt|*||A||) = {bound:.3e}")
    bound2 = None
    it = rec.get("last")
    if it is not None and it["k"] == k:
        t = np.diag(it["alpha"]) + np.diag(it["beta"], 1) + np.diag(it["beta"], -1)
        norm_t = float(np.linalg.norm(t, 2)) if k > 1 else float(abs(t[0, 0]))
        norm_tc = float(np.linalg.norm(t - mid * np.eye(k), 2)) if k > 1 else float(abs(t[0, 0] - mid))
        rel = max(norm_t / norm_a - 1.0, (norm_tc - norm_c) / max(norm_a, 1e-300))
        xp_spec_note("tnorm", max(rel, 0.0), 1e-10, f"||T||_2 / ||A||_2 - 1 resp. (||T-c|| - ||A-c||)/||A|| = {rel:.2e} (k={k}, n={n})")
        if rel > 1e-10:
            probs.append(f"||T - c||_2 = {norm_tc:.6g} / ||T||_2 = {norm_t:.6g} exceeds ||A - c||_2 = {norm_c:.6g} / ||A||_2 = {norm_a:.6g}")
        bound2 = exp_tail(k, xc) + exp_tail(k, abs(dt) * norm_tc)
        if not err <= bound2 * (1 + 1e-9) + slack:
            probs.append(f"error {err:.3e}*|vec| exceeds the two-tail bound tail_{k}(|dt||A-c|) + tail_{k}(|dt||T-c|) = {bound2:.3e}")
    tight = err / bound_c if bound_c > 0 else 0.0
    return {"req": None, "impl": None, "kind": "apriori", "sig": f"apriori:{k}:{x}:{shape}:{shift}:{m_max}",
            "oracle": {"ok": not probs, "detail": "; ".join(probs) or f"n={n} |dt||A-c|={xc:.3g} |dt||A|={xx:.3g} k={k} (m_max {m_max}, tol {tol}): err {err:.2e} <= "
                                                                       f"bound {bound_c:.2e}" + (f" (two-tail {bound2:.2e})" if bound2 is not None else "")},
            "nontrivial": bound_c < 1e-2, "meta": {"err": err, "bound": bound_c, "bound0": bound, "bound2": bound2, "k": k, "x": xc, "xa": xx, "ratio": tight}}


def xp_spec():
    return [{"name": "hypothesis of krylov_poly_exact on the real run: A V = V T on all columns but the last for the captured alpha, beta, V "
                     "(relative to ||A||_2; holds to rounding whether or not orthogonality survives)", "ok": XP_SPEC["recurrence"]["bad"] == 0,
             "n": XP_SPEC["recurrence"]["n"], "worst_residual": XP_SPEC["recurrence"]["worst"], "detail": XP_SPEC["recurrence"]["detail"]},
            {"name": "hypothesis of arnoldi_poly_exact on the real run: A V = V H on all columns but the last for the captured h, V",
             "ok": XP_SPEC["arnoldi-recurrence"]["bad"] == 0, "n": XP_SPEC["arnoldi-recurrence"]["n"],
             "worst_residual": XP_SPEC["arnoldi-recurrence"]["worst"], "detail": XP_SPEC["arnoldi-recurrence"]["detail"]},
            {"name": "clause (2) of krylov_error_bound on the real run: ||T||_2 <= ||A||_2 and ||T - c||_2 <= ||A - c||_2 for the tridiagonal matrix the code diagonalises",
             "ok": XP_SPEC["tnorm"]["bad"] == 0, "n": XP_SPEC["tnorm"]["n"], "worst_residual": XP_SPEC["tnorm"]["worst"],
             "detail": XP_SPEC["tnorm"]["detail"]}]


def gen_xp19(rng, tier):
    n = {"quick": 1.0, "thorough": 8.0, "search": 2.0}.get(tier, 1.0)
    for path, cnt in (("exhausted", 40), ("converged", 40), ("fresh", 6), ("breakdown", 14)):
        for _ in range(int(cnt * n)):
            yield {"kind": "polyexact", "which": "lanczos", "path": path, "sub": rng.randrange(1 << 30)}
    for path, cnt in (("exhausted", 16), ("converged", 16), ("fresh", 4), ("breakdown", 8)):
        for _ in range(int(cnt * n)):
            yield {"kind": "polyexact", "which": "arnoldi", "path": path, "sub": rng.randrange(1 << 30)}
    for _ in range(int(120 * n)):
        yield {"kind": "apriori", "sub": rng.randrange(1 << 30)}


XP19_KINDS = {"polyexact": run_polyexact, "apriori": run_apriori}


def gen(rng, tier):
    n = {"quick": 1.0, "thorough": 10.0, "search": 1.5}.get(tier, 1.0)
    # xp19 extension: cheap (about 2 s for all of them), so they run first and are never cut by the wall budget; their inputs come from
    # a generator forked off a *copy* of `rng`, so the stream every other kind draws from is unchanged
    xr = random.Random()
    xr.setstate(rng.getstate())
    yield from gen_xp19(random.Random(f"xp19:{xr.getrandbits(64)}"), tier)
    for where in ("below", "at", "above"):
        yield {"kind": "big", "where": where, "sub": rng.randrange(1 << 30)}
    for where in ("below", "at", "above"):
        for which in ("site", "bond"):
            yield {"kind": "local", "where": where, "which": which, "sub": rng.randrange(1 << 30)}
    for _ in range(int(220 * n)):
        yield {"kind": "hermitian", "sub": rng.randrange(1 << 30)}
    for _ in range(int(120 * n)):
        yield {"kind": "arnoldi", "sub": rng.randrange(1 << 30)}
    for _ in range(int(40 * n)):
        yield {"kind": "rat", "sub": rng.randrange(1 << 30)}
    for _ in range(int(30 * n)):
        yield {"kind": "local", "where": rng.choice(["below", "at", "above"]), "which": rng.choice(["site", "bond"]), "sub": rng.randrange(1 << 30)}
    for _ in range(int(12 * n)):
        yield {"kind": "kernel", "sub": rng.randrange(1 << 30)}
    for _ in range(int(9 * n)):
        yield {"kind": "big", "where": rng.choice(["below", "at", "above"]), "sub": rng.randrange(1 << 30)}
    yield from gen_heff(rng, tier)   # x19 extension (drawn after everything else: the earlier stream is unchanged)



# ---- known finding D33: the breakdown thresholds are absolute (100*n*eps in expm_krylov, 1e-12 in expm_arnoldi), not relative to ||A||
KEY_D33 = "C19:absolute-breakdown-threshold"


def run_tinyscale(inp):
    """A = scale * sigma_x, v = e_0, dt = (pi/2)/scale: spectral width * |dt| = pi whatever the scale; exact result (0, -i)"""
    out = []
    for scale in inp.get("scales", [1.0, 1e-6, 1e-14]):
        a = scale * np.array([[0, 1], [1, 0]], dtype=complex)
        v = np.array([1, 0], dtype=complex)
        dt = (np.pi / 2) / scale
        exact = np.array([0, -1j])
        for name, fn in (("krylov", mexp.expm_krylov), ("arnoldi", mexp.expm_arnoldi)):
            y = fn(lambda x: a @ x, v, dt, 2)
            err = float(np.linalg.norm(np.asarray(y) - exact))
            ok = err <= 1e-9
            case = {"req": None, "impl": None, "kind": "tinyscale-" + name, "sig": f"tinyscale:{name}:{scale:g}",
                    "oracle": {"ok": ok, "detail": f"expm_{name}: A = {scale:g}*sigma_x, dt = (pi/2)/{scale:g} (width*|dt| = pi): error {err:.3e}"}}
            if not ok and scale <= 1e-12:
                case["key"] = KEY_D33
            out.append(case)
    return out

def run(inp):
    WRITES.clear()
    try:
        res = run_kind(inp)
        res = res if isinstance(res, list) else [res]
        return res + drain_writes()
    except Exception as e:  # noqa: BLE001  the real code raised on a legitimate input: that is a verdict, not a harness error
        import traceback

        tb = traceback.extract_tb(e.__traceback__)
        where = next((f"{f.filename.split('/')[-1]}:{f.lineno}" for f in reversed(tb) if "/mqt/yaqs/" in f.filename), None)
        if where is None:
            raise
        return {"req": None, "impl": None, "kind": str(inp["kind"]) + "-raised",
                "oracle": {"ok": False, "detail": f"{type(e).__name__}: {e} raised at {where}"}, "sig": f"raise:{type(e).__name__}:{where}"}


def run_kind(inp):
    k = inp["kind"]
    if k == "hermitian":
        return run_hermitian(inp)
    if k == "big":
        return run_big(inp)
    if k == "kernel":
        return run_kernel(inp)
    if k == "arnoldi":
        return run_arnoldi(inp)
    if k == "rat":
        return run_rat(inp)
    if k == "local":
        return run_local(inp)
    if k == "fixed":
        return run_fixed(inp)
    if k in HEFF_KINDS:
        return HEFF_KINDS[k](inp)
    if k in XP19_KINDS:
        return XP19_KINDS[k](inp)
    if k == "tinyscale":
        return run_tinyscale(inp)
    raise ValueError(k)


def spec():
    return [{"name": "eigh_tridiagonal on every tridiagonal matrix seen (Q^T Q = 1, Q diag(w) Q^T = T): unitary Q, real spectrum "
                     "— hypotheses hQ, hd of krylov_isometry", "ok": SPEC["eigh"]["bad"] == 0, "n": SPEC["eigh"]["n"],
             "worst_residual": SPEC["eigh"]["worst"], "detail": SPEC["eigh"]["detail"]},
            {"name": "Lanczos basis of the real run (V^H V = 1, V^H A V = T on the columns used, away from breakdowns; to 1e-3: orthogonality degrades as Ritz values converge) — hypothesis hV of "
                     "krylov_isometry / lanczos_tridiagonal in floating point", "ok": SPEC["basis"]["bad"] == 0, "n": SPEC["basis"]["n"],
             "worst_residual": SPEC["basis"]["worst"], "detail": SPEC["basis"]["detail"]}] + heff_spec() + xp_spec()


if __name__ == "__main__":
    ib.main("C19", gen, run, driver="Krylov",
            rule="Hermitian operators with prescribed spectra (uniform / clustered / two-valued / shifted), width*|dt| 0.1..20, "
                 "sizes 2..160 and Kronecker-sum operators of size 4064..4288 straddling NUMBA_THRESHOLD, random / invariant-"
                 "subspace / eigenvector / zero starts, m_max 1..40, tol 1e-12..1e-3, both signs of dt; non-Hermitian "
                 "(H - i/2 sum L^dag L, general, normal) for Arnoldi; local problems of real MPS/MPO pairs with 32..320 entries "
                 "straddling DENSE_THRESHOLD; distinct = distinct (kind, exit, m_max, path) signatures; non-trivial = "
                 "breakdown / converged / exhausted with m_max > 1; heff-* kinds: random dyadic-rational tensors with dims 1..3 "
                 "(independent in/out bond dims in half of the cases, physical dims 2 and 3, o != p in 30%), chains of 2..4 sites, "
                 "local sizes DENSE_THRESHOLD-2..+2, distinct = distinct dimension tuples per request kind; "
                 "polyexact: Hermitian (Lanczos) / general complex (Arnoldi) operators n = 6..40, |dt|*||A|| 0.3..3, the module's exp replaced by a random "
                 "polynomial of the largest degree the theorem covers (k - 1), every return path forced (converged at a chosen iteration, cached, fresh, "
                 "breakdown from an invariant start), distinct = (routine, path, k, degree); apriori: n = 6..100, |dt| * half spectral width 0.1..8, spectra "
                 "centred or shifted by up to 30 half widths, m_max 2..40, tol 1e-12..1e-2, non-trivial = proved bound below 1e-2",
            trusted_base=["scipy.linalg.expm / numpy eigh as reference in the oracles",
                          "cited, not formalised: Hochbruck-Lubich error bound of the Krylov approximation (SIAM J. Numer. Anal. 34, 1997)",
                          "modelled, not verified: scipy.linalg.eigh_tridiagonal, scipy.linalg.expm of the small problem (spec-tied each run)",
                          "proved (xp19): a-priori bound 2 |vec| tail_m(|dt| ||A - c||_2) of the Lanczos approximation in exact arithmetic (krylov_error_bound_shift); "
                          "the sharper Hochbruck-Lubich rate and the effect of rounding (loss of orthogonality) remain cited / measured"],
            assumptions=["beta_j handed to the model are the entries of the function's own `beta` array (binary64, exact rationals); "
                         "phi_j is recomputed from the eigen-solver's output with the code's formula",
                         "k is the number of operator applications; the exit kind is derived from (fresh call, k, m_max)",
                         "polyexact: the scalar function the real code applies to the Ritz values is replaced through the module attribute `np` (Lanczos) / "
                         "`scipy.linalg.expm` (Arnoldi); the convergence exit is forced through the module-level name `abs` with tol = 0; nothing else of the "
                         "routine is touched; the reference q(-i dt A) vec is Horner on the dense matrix",
                         "apriori: ||A - c||_2 and ||T - c||_2 are numpy 2-norms, c = midpoint of numpy's eigvalsh spectrum; tail_m(x) is summed term by term",
                         "heff-* kinds: tensors are sent to the model entry by entry in row-major order of their numpy shape; the answer of the real "
                         "code is read entry by entry from the array it returned (shape included)"],
            spec=spec)
