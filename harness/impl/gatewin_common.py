"""Used by impl/C02.py (xg02 extension) — one REAL `digital_tjm.apply_two_qubit_gate` call observed step by step.

The real function runs on a random entangled MPS in right-canonical form ("B", what `digital_tjm` maintains between gates)
with thresholds so small that no split truncates.  Wrapped (module attributes, nothing replaced): `tdvp.update_site`,
`tdvp.split_mps_tensor`, `tdvp.merge_mps_tensors`, `digital_tjm.two_site_tdvp`, `digital_tjm.apply_window`,
`digital_tjm.construct_generator_mpo`.  Recorded per call:

* the generator placement, the window and the centre shifts `apply_window` performs
  (`gplan` head: first last fgen sgen lo hi n p sh:<sites shifted through>);
* the step trace of the sweep: merges, forward pair steps, splits, backward site steps, each with its site index and `dt`,
  and for every `update_site` call the *measured role*: are the blocks handed to it identities, is the (merged) MPO tensor
  `1 ⊗ A`, `A ⊗ B`, `B ⊗ 1` resp. `A`, `B` for the gate's generator factors — the hypotheses of the theorems
  `heff_pair_identity_left/right`, `heff_gate_pair` of Props/C02.lean, checked on the arguments actually seen;
* the dense state of the window at the entry of every `update_site` call and at the end (for the cancellation oracles);
* the dense state of the whole chain before and after (for the per-gate oracle `new = G·old`).

All jobs of one check run in ONE forked child with a hard kill (nothing here can loop, but a changed tree might).
"""
from __future__ import annotations

import multiprocessing as mp
import os
import time
import traceback
import warnings

import numpy as np

warnings.simplefilter("ignore")
os.environ.setdefault("YAQS_MAX_WORKERS", "1")

import layers_common as lc  # noqa: E402  (imports mqt.yaqs in the parent)

BATCH_TIMEOUT = float(os.environ.get("VERIF_GATE_TIMEOUT", "120"))
THRESHOLD = 1e-30


def dense(tensors):
    """contract `(phys, left, right)` tensors → array with axes `(left bond, s_0, …, s_{n-1}, right bond)`"""
    t = np.transpose(np.asarray(tensors[0]), (1, 0, 2))
    for x in tensors[1:]:
        t = np.tensordot(t, np.asarray(x), axes=([t.ndim - 1], [1]))
    return t


def apply_two_site(mat_le, a, b, arr, offset=1):
    """qiskit's little-endian 4×4 matrix of a gate on qargs `(a, b)` (index = 2·bit_b + bit_a) applied to the axes
    `a + offset`, `b + offset` of `arr` — written with explicit axes, independent of yaqs"""
    t = np.asarray(mat_le).reshape(2, 2, 2, 2)          # [b_out, a_out, b_in, a_in]
    t = t.transpose(1, 0, 3, 2)                          # [a_out, b_out, a_in, b_in]
    x = np.moveaxis(arr, [a + offset, b + offset], [0, 1])
    y = np.tensordot(t, x, axes=([2, 3], [0, 1]))
    return np.moveaxis(y, [0, 1], [a + offset, b + offset])


def random_b_mps(L, chi, seed):
    from mqt.yaqs.core.data_structures.networks import MPS

    rng = np.random.default_rng(seed)
    dims = [1] + [int(min(chi, 2 ** min(i, L - i), rng.integers(1, chi + 1) if chi > 1 else 1)) for i in range(1, L)] + [1]
    ts = [rng.normal(size=(2, dims[i], dims[i + 1])) + 1j * rng.normal(size=(2, dims[i], dims[i + 1])) for i in range(L)]
    st = MPS(L, tensors=ts)
    st.normalize("B")
    return st, dims


def _is_id_env(env):
    env = np.asarray(env)
    return bool(env.ndim == 3 and env.shape[1] == 1 and env.shape[0] == env.shape[2]
                and np.allclose(env[:, 0, :], np.eye(env.shape[0]), atol=1e-10))


def _close(x, y):
    x, y = np.asarray(x), np.asarray(y)
    return bool(x.shape == y.shape and np.allclose(x, y, atol=1e-12))


def observe_gate(job):
    """runs in the child"""
    from qiskit import QuantumCircuit
    from qiskit.converters import circuit_to_dag

    from mqt.yaqs.core.data_structures.simulation_parameters import Observable, StrongSimParams
    from mqt.yaqs.core.libraries.gate_library import GateLibrary
    from mqt.yaqs.core.methods import tdvp
    from mqt.yaqs.digital import digital_tjm as dt_mod

    L, a, b, name, params = job["L"], job["a"], job["b"], job["name"], job["params"]
    cls = lc.G2[name][0]
    qc = QuantumCircuit(L)
    qc.append(cls(*params), [a, b])
    node = circuit_to_dag(qc).op_nodes()[0]
    state, dims = random_b_mps(L, job["chi"], job["seed"])
    before = dense(state.tensors)
    sp = StrongSimParams([Observable(GateLibrary.z(), 0)], num_traj=1, max_bond_dim=4096, threshold=THRESHOLD,
                         show_progress=False)
    ev, cap = [], {"last_merge": None}
    o_us, o_sp, o_mg = tdvp.update_site, tdvp.split_mps_tensor, tdvp.merge_mps_tensors
    o_ts, o_win, o_gen = dt_mod.two_site_tdvp, dt_mod.apply_window, dt_mod.construct_generator_mpo

    def find(t):
        st = cap.get("state")
        if st is None:
            return -1
        for i, x in enumerate(st.tensors):
            if x is t:
                return i
        return -1

    def snap():
        st = cap.get("state")
        return None if st is None else dense(st.tensors)

    def w_gen(gate, length):
        out = o_gen(gate, length)
        cap["gate"] = gate
        cap["gen"] = (int(out[1]), int(out[2]))
        return out

    def w_win(st, mpo, first, last, wsize):
        # the centre shifts of `apply_window` (class attribute wrapped only while apply_window runs)
        from mqt.yaqs.core.data_structures.networks import MPS

        o_shift = MPS.shift_orthogonality_center_right
        shifts = []

        def w_shift(self, current_orthogonality_center, *a_, **k_):
            shifts.append(int(current_orthogonality_center))
            return o_shift(self, current_orthogonality_center, *a_, **k_)

        MPS.shift_orthogonality_center_right = w_shift
        try:
            out = o_win(st, mpo, first, last, wsize)
        finally:
            MPS.shift_orthogonality_center_right = o_shift
        cap["shifts"] = shifts
        cap["win"] = (int(out[2][0]), int(out[2][1]), int(out[0].length), int(wsize))
        return out

    def w_ts(st, ham, spp, **kw):
        cap["state"] = st
        cap["dt_in"] = getattr(spp, "dt", None)
        r = o_ts(st, ham, spp, **kw)
        ev.append({"k": "end", "snap": snap()})
        return r

    def w_mg(left, right):
        i = find(left)
        cap["last_merge"] = i
        ev.append({"k": "m", "i": i, "ok": find(right) == i + 1})
        return o_mg(left, right)

    def w_us(le, re, op, ket, dt):
        op_a = np.asarray(op)
        pair = op_a.shape[0] != 2
        idx = cap["last_merge"] if pair else find(ket)
        ev.append({"k": "P" if pair else "s", "i": idx, "dt": dt, "snap": snap(), "lid": _is_id_env(le),
                   "rid": _is_id_env(re), "op": op_a.copy()})
        return o_us(le, re, op, ket, dt)

    def w_sp(t, dist, spp, pd, *, dynamic):
        out = o_sp(t, dist, spp, pd, dynamic=dynamic)
        full = min(t.shape[1] * pd[0], t.shape[2] * pd[1])
        ev.append({"k": "x", "i": cap["last_merge"], "dist": str(dist), "kept": int(out[0].shape[2]), "full": int(full)})
        return out

    tdvp.update_site, tdvp.split_mps_tensor, tdvp.merge_mps_tensors = w_us, w_sp, w_mg
    dt_mod.two_site_tdvp, dt_mod.apply_window, dt_mod.construct_generator_mpo = w_ts, w_win, w_gen
    exc = None
    try:
        ret = dt_mod.apply_two_qubit_gate(state, node, sp)
    except BaseException as e:  # noqa: BLE001
        exc = f"{type(e).__name__}: {e}"[:300]
        ret = None
    finally:
        tdvp.update_site, tdvp.split_mps_tensor, tdvp.merge_mps_tensors = o_us, o_sp, o_mg
        dt_mod.two_site_tdvp, dt_mod.apply_window, dt_mod.construct_generator_mpo = o_ts, o_win, o_gen
    out = {"exc": exc, "dims": dims}
    if exc is not None or "gate" not in cap or "win" not in cap:
        out["incomplete"] = True
        return out
    gate = cap["gate"]
    sites = [int(s) for s in gate.sites]
    first, last = cap["gen"]
    lo, hi, n, wsize = cap["win"]
    kf = sites.index(first) if first in sites else -1
    kl = sites.index(last) if last in sites else -1
    ga = np.asarray(gate.generator[kf]) if kf >= 0 else np.zeros((2, 2))
    gb = np.asarray(gate.generator[kl]) if kl >= 0 else np.zeros((2, 2))
    eye = np.eye(2)
    toks, snaps, roles = [], [], []
    for e in ev:
        if e["k"] == "m":
            toks.append(f"m:{e['i']}" + ("" if e["ok"] else ":nonadjacent"))
        elif e["k"] == "x":
            toks.append(f"x:{e['i']}:{'R' if e['dist'] == 'right' else 'L' if e['dist'] == 'left' else e['dist']}")
        elif e["k"] in ("P", "s"):
            op = e["op"]
            m = op[:, :, 0, 0] if op.ndim == 4 and op.shape[2] == 1 and op.shape[3] == 1 else None
            role = "other"
            if m is not None and e["k"] == "P":
                if e["lid"] and e["rid"] and _close(m, np.kron(ga, gb)):
                    role = "gate"
                elif e["lid"] and _close(m, np.kron(eye, ga)):
                    role = "idL"
                elif e["rid"] and _close(m, np.kron(gb, eye)):
                    role = "idR"
            elif m is not None:
                if e["lid"] and _close(m, ga):
                    role = "idL"
                elif e["rid"] and _close(m, gb):
                    role = "idR"
            toks.append((e["k"], e["i"], e["dt"], role))
            roles.append((e["k"], role))
            snaps.append(e["snap"])
        elif e["k"] == "end":
            snaps.append(e["snap"])
    after = dense(state.tensors)
    out.update({
        "head": [first, last, kf, kl, lo, hi, n, first - lo,
                 "sh:" + (",".join(str(i) for i in cap.get("shifts", [])) or "-")],
        "toks": toks, "roles": roles, "ret": [int(ret[0]), int(ret[1])] if ret is not None else None,
        "wsize": wsize, "sites": sites,
        "splits": [[e["kept"], e["full"]] for e in ev if e["k"] == "x"],
        "dt_after": getattr(sp, "dt", None),
    })
    # --- oracles' raw numbers (dense references written here, decisions taken in the parent)
    gmat = np.asarray(cls(*params).to_matrix())
    ref = apply_two_site(gmat, a, b, before)
    out["apply_dev"] = float(np.max(np.abs(after - ref)))
    out["apply_scale"] = float(np.max(np.abs(ref)))
    out["changed"] = float(np.max(np.abs(after - before)))
    # window-level: snapshot k is the dense window state at the entry of the k-th update_site call; the last one is the end
    cancel, gate_step = [], None
    calls = [t for t in toks if isinstance(t, tuple)]
    if len(snaps) == len(calls) + 1 and all(s is not None for s in snaps):
        for k, (kind, idx, dt, role) in enumerate(calls):
            if kind == "s" and role == "idL" and k >= 1:
                cancel.append(["L", int(idx), float(np.max(np.abs(snaps[k + 1] - snaps[k - 1]))),
                               float(np.max(np.abs(snaps[k] - snaps[k - 1])))])
            if kind == "s" and role == "idR" and k + 2 < len(snaps):
                cancel.append(["R", int(idx), float(np.max(np.abs(snaps[k + 2] - snaps[k]))),
                               float(np.max(np.abs(snaps[k + 1] - snaps[k])))])
            if kind == "P" and role == "gate":
                wa, wb = a - lo, b - lo
                refw = apply_two_site(gmat, wa, wb, snaps[k])
                gate_step = [int(idx), float(np.max(np.abs(snaps[k + 1] - refw))), float(np.max(np.abs(snaps[k + 1] - snaps[k])))]
    out["cancel"], out["gate_step"] = cancel, gate_step
    out["n_calls"] = len(calls)
    return out


def _child(conn, jobs):
    try:
        for j in jobs:
            try:
                res = observe_gate(j)
            except BaseException:  # noqa: BLE001
                res = {"crash": traceback.format_exc()[-1500:]}
            conn.send(res)
    finally:
        conn.close()
        os._exit(0)


def run_gate_jobs(jobs, timeout=None):
    """results in job order; a job the child did not answer in time is {"hang": True}"""
    if not jobs:
        return []
    timeout = max(BATCH_TIMEOUT, 1.0 * len(jobs)) if timeout is None else timeout   # one job takes ~0.1 s
    ctx = mp.get_context("fork")
    parent, child = ctx.Pipe(duplex=False)
    p = ctx.Process(target=_child, args=(child, jobs), daemon=True)
    p.start()
    child.close()
    t0 = time.time()
    res = []
    while len(res) < len(jobs):
        left = timeout - (time.time() - t0)
        if left <= 0:
            break
        try:
            if parent.poll(min(left, 0.5)):
                res.append(parent.recv())
            elif not p.is_alive() and not parent.poll(0.05):
                break
        except (EOFError, OSError):
            break
    if p.is_alive():
        p.kill()
    p.join(2)
    parent.close()
    hang = time.time() - t0 >= timeout
    while len(res) < len(jobs):
        res.append({"hang": True, "timeout": round(time.time() - t0, 1)} if hang else {"crash": "child died without an answer"})
    return res
