"""C06 — implementation side: site indexing of the analog solvers vs Model.Index, plus dense master-equation oracles.

value tie  : * nonzero position of the REAL `MPS(state="basis", …).to_vec()` (mixed local dimensions, L <= 8)      -> tovec
             * the vector the REAL `lindblad` hands to `solve_ivp` (module attribute wrapped) and the REAL
               `preprocess_mcwf(...).psi_initial`, both reached through `simulator.run`                          -> solver
             * entries of the REAL `_embed_operator_dense/_sparse`, `_embed_observable_dense/_sparse` for one-site,
               adjacent two-site (both site orders, non-adjacent -> error) and factor-pair processes           -> embed1/2/f
             * entries of the REAL `MPO.to_matrix` / `MPO.to_sparse_matrix` on product operators (mixed dims) and of
               `_kron_all_dense/_sparse` on non-square factors                                                 -> kronall
oracle     : the same asymmetric problem (basis strings, Neel, wall; Ising / Heisenberg / site-dependent Pauli sums;
             optionally a lowering process on one site) through TJM (order 1 and 2), MCWF and Lindblad via the REAL
             `simulator.run`, against a dense reference built here with explicit Kronecker products (site 0 leftmost):
             exact diagonalisation (noise-free) or the vectorised Liouvillian exponential (noisy).
extension  : kind `mastereq` (module C06_mastereq.py, cases `me-*`): the CONTENT of the two dense solvers against
             Model.MasterEq — the captured `lindblad_rhs` closure on random rational rho, `l_dag_l_sum`, `jump_ops`,
             `solve_ivp` kwargs, `Tr(O rho)` on a known rho, `preprocess_mcwf(...).heff`, one forced pass of `mcwf`;
             oracle: independent dense Lindbladian / expm reference (see the docstring of that module).
extension 2: kind `mastereq-step` (same module, cases `me2-*`, driver requests `mcwfstep2` / `purerho`): one pass of the REAL
             `mcwf` with every collaborator observed (propagated state optionally forced to a dyadic vector so that the draw
             sits exactly ON / just below / just above `p_jump`; recording wrappers around `ctx.jump_ops`; `get_state`) against
             `Model.MasterEqExec` (`opCalls`, `postRho`, `oneStepCols`), and the `y0` of the REAL `lindblad` against `pureRho`.
"""
from __future__ import annotations

import importlib
import multiprocessing
import os
import random
import signal
import warnings

import numpy as np
import scipy.linalg as sla

import implbase as ib

warnings.simplefilter("ignore")

from mqt.yaqs import simulator  # noqa: E402
from mqt.yaqs.analog import utils as autils  # noqa: E402
from mqt.yaqs.core.data_structures.networks import MPO, MPS  # noqa: E402
from mqt.yaqs.core.data_structures.noise_model import NoiseModel  # noqa: E402
from mqt.yaqs.core.data_structures.simulation_parameters import AnalogSimParams, Observable  # noqa: E402
from mqt.yaqs.core.libraries.gate_library import Z  # noqa: E402

lind_mod = importlib.import_module("mqt.yaqs.analog.lindblad")

import C06_mastereq as me  # noqa: E402  (extension: content of the Lindblad / MCWF solvers vs Model.MasterEq)

I2 = np.eye(2, dtype=complex)
PAULI = {"I": I2, "X": np.array([[0, 1], [1, 0]], complex), "Y": np.array([[0, -1j], [1j, 0]]),
         "Z": np.diag([1.0, -1.0]).astype(complex)}
LOWER = np.array([[0, 1], [0, 0]], complex)
NOISE_OPS = {"lowering": LOWER, "raising": LOWER.T.copy(), "pauli_z": PAULI["Z"], "pauli_x": PAULI["X"]}


# --------------------------------------------------------------------------------------------------------------
# child process with a hard kill (simulator._call_backend swallows exceptions and re-runs the back-end)
# --------------------------------------------------------------------------------------------------------------
def in_child(fn, arg, timeout=240):
    ctx = multiprocessing.get_context("fork")
    rd, wr = ctx.Pipe(duplex=False)

    def target():
        os.setsid()
        try:
            wr.send(("ok", fn(arg)))
        except BaseException as e:  # noqa: BLE001
            wr.send(("exc", f"{type(e).__name__}: {e}"))

    p = ctx.Process(target=target)
    p.start()
    wr.close()
    out = None
    if rd.poll(timeout):
        try:
            out = rd.recv()
        except EOFError:
            out = ("exc", "child died")
    else:
        out = ("timeout", f"no answer after {timeout}s")
    try:
        os.killpg(p.pid, signal.SIGKILL)
    except (ProcessLookupError, PermissionError):
        pass
    p.join(5)
    return out


# --------------------------------------------------------------------------------------------------------------
# dense reference (independent of yaqs): explicit Kronecker products, site 0 leftmost
# --------------------------------------------------------------------------------------------------------------
def kron_at(length, ops):
    m = np.eye(1, dtype=complex)
    for i in range(length):
        m = np.kron(m, ops.get(i, I2))
    return m


def dense_h(length, terms):
    h = np.zeros((2**length, 2**length), complex)
    for c, spec in terms:
        ops = {}
        for tok in spec.split():
            ops[int(tok[1:])] = PAULI[tok[0]]
        h += c * kron_at(length, ops)
    return h


def reference(length, basis, terms, procs, times):
    h = dense_h(length, terms)
    d = 2**length
    psi = np.zeros(d, complex)
    psi[int(basis, 2)] = 1  # int(basis, 2): first character = most significant = leftmost Kronecker factor = site 0
    zs = [np.real(np.diag(kron_at(length, {i: PAULI["Z"]}))) for i in range(length)]
    out = np.zeros((length, len(times)))
    if not procs:
        w, v = np.linalg.eigh(h)
        c = v.conj().T @ psi
        for k, t in enumerate(times):
            pr = np.abs(v @ (np.exp(-1j * w * t) * c)) ** 2
            for i in range(length):
                out[i, k] = float(zs[i] @ pr)
        return out
    ident = np.eye(d)
    lv = -1j * (np.kron(h, ident) - np.kron(ident, h.T))
    for name, site, g in procs:
        l_op = np.sqrt(g) * kron_at(length, {site: NOISE_OPS[name]})
        ll = l_op.conj().T @ l_op
        lv += np.kron(l_op, l_op.conj()) - 0.5 * (np.kron(ll, ident) + np.kron(ident, ll.T))
    rho0 = np.outer(psi, psi.conj()).reshape(-1)
    for k, t in enumerate(times):
        r = (sla.expm(lv * t) @ rho0).reshape(d, d)
        pr = np.real(np.diag(r))
        for i in range(length):
            out[i, k] = float(zs[i] @ pr)
    return out


# --------------------------------------------------------------------------------------------------------------
# problems
# --------------------------------------------------------------------------------------------------------------
def make_terms(ham, length):
    kind = ham["kind"]
    if kind == "ising":
        return ([(-ham["J"], f"Z{i} Z{i + 1}") for i in range(length - 1)] + [(-ham["g"], f"X{i}") for i in range(length)])
    if kind == "heis":
        t = []
        for i in range(length - 1):
            t += [(-ham["Jx"], f"X{i} X{i + 1}"), (-ham["Jy"], f"Y{i} Y{i + 1}"), (-ham["Jz"], f"Z{i} Z{i + 1}")]
        if ham["h"] != 0:
            t += [(-ham["h"], f"Z{i}") for i in range(length)]
        return t
    return [(float(c), str(s)) for c, s in ham["terms"]]


def make_mpo(ham, length):
    kind = ham["kind"]
    if kind == "ising":
        return MPO.ising(length, ham["J"], ham["g"])
    if kind == "heis":
        return MPO.heisenberg(length, ham["Jx"], ham["Jy"], ham["Jz"], ham["h"])
    m = MPO()
    # `sweeps = 0`: the uncompressed automaton, whose bond blocks are bare Pauli matrices (a block that is exactly Y is purely imaginary)
    m.from_pauli_sum(terms=[(float(c), str(s)) for c, s in ham["terms"]], length=length, n_sweeps=int(ham.get("sweeps", 2)))
    return m


def make_state(length, st):
    if st["kind"] == "basis":
        return MPS(length, state="basis", basis_string=st["string"]), st["string"]
    if st["kind"] == "Neel":
        return MPS(length, state="Neel"), "".join("1" if i % 2 == 0 else "0" for i in range(length))
    if st["kind"] == "wall":
        return MPS(length, state="wall"), "".join("0" if i < length // 2 else "1" for i in range(length))
    raise ValueError(st)


def run_solver(a):
    """one real simulator.run; executed in a child"""
    length, st, ham, procs, solver, order, t_total, dt, ntraj, parallel = a
    os.environ["YAQS_MAX_WORKERS"] = "16" if parallel else "1"
    warnings.simplefilter("ignore")
    state, _ = make_state(length, st)
    mpo = make_mpo(ham, length)
    obs = [Observable(Z(), i) for i in range(length)]
    sp = AnalogSimParams(observables=obs, elapsed_time=t_total, dt=dt, num_traj=ntraj, order=order, sample_timesteps=True,
                         show_progress=False, solver=solver, max_bond_dim=64)
    nm = NoiseModel([{"name": n, "sites": [s], "strength": g} for n, s, g in procs]) if procs else None
    simulator.run(state, mpo, sp, nm, parallel=parallel)
    return np.array([o.results for o in obs], dtype=float).tolist(), [float(t) for t in sp.times]


def rand_ham(rng, length):
    k = rng.choice(["ising", "ising", "heis", "asym", "asym"])
    if k == "ising":
        return {"kind": "ising", "J": round(rng.uniform(0.3, 1.2), 3), "g": round(rng.uniform(0.3, 1.2), 3)}
    if k == "heis":
        return {"kind": "heis", "Jx": round(rng.uniform(0.2, 1), 3), "Jy": round(rng.uniform(0.2, 1), 3),
                "Jz": round(rng.uniform(0.2, 1), 3), "h": round(rng.uniform(0.1, 1), 3)}
    terms = [[round(rng.uniform(-1, 1), 3), f"Z{i} Z{i + 1}"] for i in range(length - 1)]
    terms += [[round(rng.uniform(0.2, 1) * rng.choice([-1, 1]), 3), f"X{i}"] for i in range(length)]
    terms += [[round(rng.uniform(-1, 1), 3), f"Y{i} X{i + 1}"] for i in range(length - 1)]
    terms += [[round(rng.uniform(-1, 1), 3), f"Z{i}"] for i in range(length)]
    return {"kind": "asym", "terms": terms, "sweeps": rng.choice([0, 2])}


def rand_state(rng, length):
    r = rng.random()
    if r < 0.12:
        return {"kind": "Neel"}
    if r < 0.24:
        return {"kind": "wall"}
    while True:
        s = "".join(rng.choice("01") for _ in range(length))
        if s != s[::-1] or length == 1:
            return {"kind": "basis", "string": s}


def gen(rng, tier):
    n_idx = {"quick": 150, "thorough": 1500, "search": 120}.get(tier, 150)
    n_dyn = {"quick": 10, "thorough": 80, "search": 24}.get(tier, 10)
    # the solver hand-over and a first batch of dynamics come first (they are what D6 was about)
    xr = random.Random(f"C06x:{rng.getstate()[1][:3]}")  # own stream: the draws of the existing kinds are unchanged
    for _ in range(6 if tier != "thorough" else 30):
        yield {"kind": "solvervec", "sub": rng.randrange(1 << 30)}
    # extension: lindblad_rhs / l_dag_l_sum / jump_ops / heff / one forced MCWF pass vs Model.MasterEq (fast, ~11 cases each)
    for _ in range({"quick": 30, "thorough": 200, "search": 40}.get(tier, 30)):
        yield {"kind": "mastereq", "sub": xr.randrange(1 << 30)}
    # extension 2: one fully observed MCWF pass (boundary draws, exact zeros in the choice vector, 1e-15 scale) vs Model.MasterEqExec
    xr2 = random.Random(f"C06x2:{rng.getstate()[1][:3]}")  # own stream again
    for _ in range({"quick": 40, "thorough": 300, "search": 60}.get(tier, 40)):
        yield {"kind": "mastereq-step", "sub": xr2.randrange(1 << 30)}
    for j in range(n_dyn):
        sub = rng.randrange(1 << 30)
        yield {"kind": "dyn-free" if j % 5 != 4 else "dyn-lind", "sub": sub}
    yield {"kind": "dyn-stat", "sub": rng.randrange(1 << 30), "solver": "TJM"}
    yield {"kind": "dyn-stat", "sub": rng.randrange(1 << 30), "solver": "MCWF"}
    for _ in range(n_idx):
        r = rng.random()
        sub = rng.randrange(1 << 30)
        if r < 0.25:
            yield {"kind": "tovec", "sub": sub}
        elif r < 0.45:
            yield {"kind": "embed1", "sub": sub}
        elif r < 0.62:
            yield {"kind": "embed2", "sub": sub}
        elif r < 0.78:
            yield {"kind": "embedf", "sub": sub}
        elif r < 0.92:
            yield {"kind": "mpo", "sub": sub}
        else:
            yield {"kind": "kronall", "sub": sub}
    if tier == "thorough":
        for _ in range(6):
            yield {"kind": "dyn-stat", "sub": rng.randrange(1 << 30), "solver": rng.choice(["TJM", "MCWF"])}


# --------------------------------------------------------------------------------------------------------------
# value ties
# --------------------------------------------------------------------------------------------------------------
def single_nonzero(v):
    nz = np.flatnonzero(np.abs(v) > 1e-12)
    if len(nz) != 1 or abs(abs(v[nz[0]]) - 1) > 1e-9:
        return None
    return int(nz[0])


def run_tovec(inp):
    rng = random.Random(inp["sub"])
    if "dims" in inp:
        dims, digits = list(inp["dims"]), list(inp["digits"])
    else:
        length = rng.randrange(1, 9)
        mixed = rng.random() < 0.5
        dims = [rng.choice([2, 3, 4]) if mixed else 2 for _ in range(length)]
        while int(np.prod(dims)) > 5000:
            dims[rng.randrange(length)] = 2
        digits = [rng.randrange(d) for d in dims]
    length = len(dims)
    mps = MPS(length, state="basis", basis_string="".join(str(x) for x in digits), physical_dimensions=list(dims))
    v = mps.to_vec()
    pos = single_nonzero(v)
    # independent statement of the documented convention: site 0 is the least significant position
    ref = np.ones(1)
    for d, b in zip(reversed(dims), reversed(digits)):
        e = np.zeros(d)
        e[b] = 1
        ref = np.kron(ref, e)
    ok = pos is not None and len(v) == len(ref) and int(np.argmax(ref)) == pos
    d_s, b_s = " ".join(map(str, dims)), " ".join(map(str, digits))
    pal = digits == digits[::-1] and dims == dims[::-1]
    out = [{"req": f"tovec {d_s} | {b_s}", "impl": "err" if pos is None else str(pos),
            "oracle": {"ok": bool(ok), "detail": f"to_vec nonzero at {pos}, site-0-least-significant convention says {int(np.argmax(ref))}"},
            "sig": f"tovec:{length}:{len(set(dims))}:{pal}", "nontrivial": not pal, "kind": "tovec"},
           {"req": f"toveccode {d_s} | {b_s}", "impl": "err" if pos is None else str(pos), "oracle": None,
            "sig": f"toveccode:{length}:{len(set(dims))}:{pal}", "nontrivial": not pal, "kind": "toveccode"}]
    return out


def solver_vectors(a):
    """REAL simulator.run for Lindblad and MCWF with the hand-over points observed; executed in a child"""
    length, basis = a
    os.environ["YAQS_MAX_WORKERS"] = "1"
    warnings.simplefilter("ignore")
    res = {}
    mpo = MPO.ising(length, 1.0, 0.5)
    # --- Lindblad: wrap solve_ivp in the lindblad module
    seen = []
    orig = lind_mod.solve_ivp

    def spy(fun, t_span, y0, *args, **kw):
        seen.append(np.array(y0))
        return orig(fun, t_span, y0, *args, **kw)

    lind_mod.solve_ivp = spy
    try:
        sp = AnalogSimParams(observables=[Observable(Z(), 0)], elapsed_time=0.1, dt=0.1, num_traj=1, show_progress=False,
                             solver="Lindblad")
        simulator.run(MPS(length, state="basis", basis_string=basis), mpo, sp, None, parallel=False)
    finally:
        lind_mod.solve_ivp = orig
    dim = 2**length
    if len(seen) != 1 or seen[0].shape != (dim * dim,):
        res["lindblad"] = None
    else:
        p = single_nonzero(seen[0])
        res["lindblad"] = None if p is None else (p // dim, p % dim)
    # --- MCWF: wrap preprocess_mcwf in the simulator namespace
    ctxs = []
    orig_pre = simulator.preprocess_mcwf

    def spy_pre(*args, **kw):
        c = orig_pre(*args, **kw)
        ctxs.append(np.array(c.psi_initial))
        return c

    simulator.preprocess_mcwf = spy_pre
    try:
        sp = AnalogSimParams(observables=[Observable(Z(), 0)], elapsed_time=0.1, dt=0.1, num_traj=1, show_progress=False,
                             solver="MCWF")
        simulator.run(MPS(length, state="basis", basis_string=basis), mpo, sp, None, parallel=False)
    finally:
        simulator.preprocess_mcwf = orig_pre
    res["mcwf"] = single_nonzero(ctxs[0]) if len(ctxs) == 1 else None
    return res


def run_solvervec(inp):
    rng = random.Random(inp["sub"])
    if "basis" in inp:
        basis = inp["basis"]
    else:
        length = rng.randrange(2, 9)
        basis = "".join(rng.choice("01") for _ in range(length))
        if basis == basis[::-1]:
            basis = "1" + basis[1:-1] + "0" if length > 1 else basis
    length = len(basis)
    status, res = in_child(solver_vectors, (length, basis))
    if status != "ok":
        raise RuntimeError(f"solver_vectors {status}: {res}")
    want = int(basis, 2)
    b_s = " ".join(basis)
    pal = basis == basis[::-1]
    out = []
    lp = res["lindblad"]
    impl_l = "err" if lp is None or lp[0] != lp[1] else str(lp[0])
    out.append({"req": f"solver {b_s}", "impl": impl_l, "kind": "solver-lindblad",
                "oracle": {"ok": impl_l == str(want), "detail": f"rho0 handed to solve_ivp is |k><k| with k={lp}, operators expect k={want} for '{basis}'"},
                "sig": f"solver-lindblad:{length}:{pal}", "nontrivial": not pal})
    mp = res["mcwf"]
    impl_m = "err" if mp is None else str(mp)
    out.append({"req": f"solver {b_s}", "impl": impl_m, "kind": "solver-mcwf",
                "oracle": {"ok": impl_m == str(want), "detail": f"psi_initial of preprocess_mcwf is e_k with k={mp}, operators expect k={want} for '{basis}'"},
                "sig": f"solver-mcwf:{length}:{pal}", "nontrivial": not pal})
    return out


def small_matrix(rng, r, c, diagonal=False):
    vals = [0, 0, 1, 2, 3, -1, 5, 7, 0.5, -0.25, 11, 13]
    m = np.zeros((r, c))
    for i in range(r):
        for j in range(c):
            if diagonal and i != j:
                continue
            m[i, j] = rng.choice(vals)
    if not m.any():
        m[0, min(1, c - 1)] = 3
    return m


def mat_tokens(m):
    return f"{m.shape[0]} {m.shape[1]} " + " ".join(ib.frac(float(x)) for x in np.asarray(m).reshape(-1))


def pick_pairs(rng, dense, n_extra=6, cap=40):
    nz = list(zip(*np.nonzero(dense)))
    rng.shuffle(nz)
    ps = [(int(r), int(c)) for r, c in nz[:cap]]
    for _ in range(n_extra):
        ps.append((rng.randrange(dense.shape[0]), rng.randrange(dense.shape[1])))
    return ps


def entries_answer(result, pairs):
    if isinstance(result, str):
        return "err"
    return f"{result.shape[0]} {result.shape[1]} " + " ".join(ib.fmt(float(np.real(result[r, c]))) for r, c in pairs)


def call(fn, *args):
    try:
        r = fn(*args)
    except (ValueError, IndexError, NotImplementedError) as e:
        return type(e).__name__
    if hasattr(r, "toarray"):
        r = r.toarray()
    r = np.asarray(r)
    if np.abs(np.imag(r)).max(initial=0) != 0:
        raise RuntimeError("unexpected imaginary part in a real embedding")
    return r


class FakeGate:
    """stand-in for a gate object: the embedding functions only read `.matrix` (and `.name` nowhere)"""

    def __init__(self, m):
        self.matrix = m
        self.name = "custom"


class FakeObs:
    def __init__(self, m, sites):
        self.gate = FakeGate(m)
        self.sites = sites


def tie_embed(rng, req_head, mats, fns, pairs_from, sig, extra_oracle=None):
    """run every real embedding variant, one case per variant"""
    out = []
    base = None
    for name, fn in fns:
        res = fn()
        if base is None:
            base = res
        ps = pairs_from(res) if not isinstance(res, str) else [(0, 0)]
        req = f"{req_head} | " + " | ".join(mat_tokens(m) for m in mats) + " | " + " ".join(f"{r} {c}" for r, c in ps)
        out.append({"req": req, "impl": entries_answer(res, ps), "oracle": extra_oracle(res) if extra_oracle else None,
                    "kind": name, "sig": f"{name}:{sig}:{'err' if isinstance(res, str) else 'ok'}", "nontrivial": True})
    return out


def run_embed1(inp):
    rng = random.Random(inp["sub"])
    length = rng.randrange(1, 9)
    site = rng.randrange(length) if rng.random() < 0.93 else length + rng.randrange(2)
    m = small_matrix(rng, 2, 2, diagonal=rng.random() < 0.5)
    proc = {"name": "custom", "sites": [site], "strength": 0.1, "matrix": m.astype(complex)}
    obs_list = FakeObs(m.astype(complex), [site])
    obs_int = FakeObs(m.astype(complex), site)
    fns = [("embed1-op-dense", lambda: call(autils._embed_operator_dense, proc, length)),  # noqa: SLF001
           ("embed1-op-sparse", lambda: call(autils._embed_operator_sparse, proc, length)),  # noqa: SLF001
           ("embed1-obs-dense", lambda: call(autils._embed_observable_dense, obs_int, length)),  # noqa: SLF001
           ("embed1-obs-sparse", lambda: call(autils._embed_observable_sparse, obs_list, length))]  # noqa: SLF001

    def oracle(res):
        if isinstance(res, str):
            return {"ok": site >= length, "detail": f"raised {res} for site {site} of {length}"}
        ref = np.real(kron_at(length, {site: m.astype(complex)}))
        return {"ok": bool(res.shape == ref.shape and np.array_equal(res, ref)),
                "detail": f"embedded one-site operator vs explicit kron with site {site} of {length}"}

    return tie_embed(rng, f"embed1 {length} {site}", [m], fns, lambda r: pick_pairs(rng, r), f"{length}:{site == 0}:{site == length - 1}",
                     oracle)


def run_embed2(inp):
    rng = random.Random(inp["sub"])
    length = rng.randrange(2, 8)
    i = rng.randrange(length - 1)
    r = rng.random()
    if r < 0.4:
        sites = [i, i + 1]
    elif r < 0.8:
        sites = [i + 1, i]
    elif r < 0.92 and length > 2:
        a = rng.randrange(length - 2)
        sites = [a, a + 2 + rng.randrange(length - 2 - a)] if rng.random() < 0.5 else [a + 2, a]
    else:
        sites = [length - 1, length]  # second site out of range: the code silently builds a smaller matrix
    m = small_matrix(rng, 4, 4, diagonal=rng.random() < 0.3)
    proc = {"name": "custom", "sites": list(sites), "strength": 0.1, "matrix": m.astype(complex)}
    obs = FakeObs(m.astype(complex), list(sites))
    fns = [("embed2-op-dense", lambda: call(autils._embed_operator_dense, proc, length)),  # noqa: SLF001
           ("embed2-op-sparse", lambda: call(autils._embed_operator_sparse, proc, length)),  # noqa: SLF001
           ("embed2-obs-dense", lambda: call(autils._embed_observable_dense, obs, length)),  # noqa: SLF001
           ("embed2-obs-sparse", lambda: call(autils._embed_observable_sparse, obs, length))]  # noqa: SLF001
    s1, s2 = sorted(sites)

    def oracle(res):
        if s2 >= length:
            return None
        if isinstance(res, str):
            return {"ok": s2 != s1 + 1, "detail": f"raised {res} for sites {sites}"}
        ref = np.real(np.kron(np.kron(np.eye(2**s1), m), np.eye(2 ** (length - 1 - s2))))
        return {"ok": bool(s2 == s1 + 1 and res.shape == ref.shape and np.array_equal(res, ref)),
                "detail": f"embedded adjacent operator on {sites} of {length} vs explicit kron"}

    return tie_embed(rng, f"embed2 {length} {sites[0]} {sites[1]}", [m], fns, lambda r_: pick_pairs(rng, r_),
                     f"{length}:{sites[0] < sites[1]}:{s2 - s1}:{s2 >= length}", oracle)


def run_embedf(inp):
    rng = random.Random(inp["sub"])
    length = rng.randrange(2, 9)
    s1 = rng.randrange(length)
    s2 = rng.randrange(length)
    if rng.random() < 0.9:
        while s2 == s1:
            s2 = rng.randrange(length)
    if rng.random() < 0.05:
        s2 = length
    a = small_matrix(rng, 2, 2, diagonal=rng.random() < 0.4)
    b = small_matrix(rng, 2, 2, diagonal=rng.random() < 0.4)
    proc = {"name": "custom", "sites": [s1, s2], "strength": 0.1, "factors": (a.astype(complex), b.astype(complex))}
    fns = [("embedf-op-dense", lambda: call(autils._embed_operator_dense, proc, length)),  # noqa: SLF001
           ("embedf-op-sparse", lambda: call(autils._embed_operator_sparse, proc, length))]  # noqa: SLF001

    def oracle(res):
        if s1 == s2 or s2 >= length:
            return None
        if isinstance(res, str):
            return {"ok": False, "detail": f"raised {res} for factor sites {[s1, s2]}"}
        ref = np.real(kron_at(length, {s1: a.astype(complex), s2: b.astype(complex)}))
        return {"ok": bool(np.array_equal(res, ref)), "detail": f"factor pair on {[s1, s2]} of {length} vs explicit kron"}

    return tie_embed(rng, f"embedf {length} {s1} {s2}", [a, b], fns, lambda r_: pick_pairs(rng, r_),
                     f"{length}:{s1 < s2}:{s1 == s2}:{abs(s1 - s2) == 1}", oracle)


def run_mpo(inp):
    """product operator (bond dimension 1) through the real MPO.to_matrix / to_sparse_matrix"""
    rng = random.Random(inp["sub"])
    length = rng.randrange(1, 8)
    mixed = rng.random() < 0.4
    dims = [rng.choice([2, 3]) if mixed else 2 for _ in range(length)]
    while int(np.prod(dims)) > 400:
        dims[rng.randrange(length)] = 2
    primes = [2, 3, 5, 7, 11, 13, 17, 19, 23, 29, 31, 37, 41, 43, 47, 53, 59, 61, 67, 71, 73, 79, 83, 89]
    mats = []
    k = 0
    for d in dims:
        if rng.random() < 0.7:  # diagonal with distinct primes: the product identifies every digit
            m = np.diag([float(primes[(k + j) % len(primes)]) for j in range(d)])
            k += d
        else:
            m = small_matrix(rng, d, d)
        mats.append(m)
    out = []
    for name in ("mpo-to_matrix", "mpo-to_sparse_matrix"):
        mpo = MPO()
        mpo.custom([m.astype(complex).reshape(m.shape[0], m.shape[1], 1, 1) for m in mats], transpose=False)
        res = call(mpo.to_matrix) if name == "mpo-to_matrix" else call(mpo.to_sparse_matrix)
        ps = pick_pairs(rng, res) if not isinstance(res, str) else [(0, 0)]
        req = "kronall " + " ".join(f"{r} {c}" for r, c in ps) + " | " + " | ".join(mat_tokens(m) for m in mats)
        ref = np.eye(1)
        for m in mats:
            ref = np.kron(ref, m)
        orc = None if isinstance(res, str) else {"ok": bool(res.shape == ref.shape and np.array_equal(res, ref)),
                                                 "detail": f"{name} of a product operator vs explicit kron, dims {dims}"}
        out.append({"req": req, "impl": entries_answer(res, ps), "oracle": orc, "kind": name,
                    "sig": f"{name}:{length}:{mixed}", "nontrivial": length > 1})
    return out


def run_kronall(inp):
    rng = random.Random(inp["sub"])
    n = rng.randrange(0, 5)
    mats = [small_matrix(rng, rng.choice([1, 2, 3]), rng.choice([1, 2, 3])) for _ in range(n)]
    out = []
    for name, fn in (("kronall-dense", autils._kron_all_dense), ("kronall-sparse", autils._kron_all_sparse)):  # noqa: SLF001
        res = call(fn, [m.astype(complex) for m in mats])
        ps = pick_pairs(rng, res) if not isinstance(res, str) else []
        req = "kronall " + " ".join(f"{r} {c}" for r, c in ps) + "".join(" | " + mat_tokens(m) for m in mats)
        if n == 0:
            req = "kronall"  # no matrices: Python raises IndexError on ops[0], the model returns none
        out.append({"req": req, "impl": entries_answer(res, ps), "oracle": None, "kind": name,
                    "sig": f"{name}:{n}:{[m.shape for m in mats]}", "nontrivial": n > 1})
    return out


# --------------------------------------------------------------------------------------------------------------
# dynamics oracles
# --------------------------------------------------------------------------------------------------------------
def tol_for(solver, length):
    # measured on the clean tree (quick tier, seeds 0..7, plus probes): Lindblad <= 1.5e-9 (rtol 1e-9), MCWF <= 5e-14,
    # TJM <= 1e-13 for L <= 3, TJM <= 2.9e-4 for L in 4..5 (projector-splitting error of the dynamic TDVP that starts
    # from bond dimension 1, dt <= 0.1; independent of the truncation threshold and of the order)
    if solver == "Lindblad":
        return 1e-6
    if solver == "MCWF":
        return 1e-6
    return 1e-6 if length <= 3 else 5e-2


def dyn_problem(inp):
    rng = random.Random(inp["sub"])
    if "L" in inp:
        length = int(inp["L"])
        st = inp["state"]
        ham = inp["ham"]
        procs = [tuple(p) for p in inp.get("procs", [])]
        t_total, dt = float(inp.get("T", 0.5)), float(inp.get("dt", 0.1))
        return length, st, ham, procs, t_total, dt
    noisy = inp["kind"] != "dyn-free"
    length = rng.choice([2, 3, 3, 4]) if noisy else rng.choice([2, 3, 3, 4, 4, 5])
    st = rand_state(rng, length)
    ham = rand_ham(rng, length)
    procs = []
    if noisy:
        site = rng.choice([0, 0, length - 1, rng.randrange(length)])
        procs = [("lowering", site, round(rng.uniform(0.5, 3.0), 3))]
        if rng.random() < 0.4:
            procs.append((rng.choice(["pauli_z", "raising"]), rng.randrange(length), round(rng.uniform(0.1, 1.0), 3)))
    return length, st, ham, procs, rng.choice([0.5, 1.0]), rng.choice([0.1, 0.05])


def reversed_reference(length, basis, terms, procs, times):
    """what a solver that reads the chain backwards (D6) would report: site i of the reversed initial state"""
    return reference(length, basis[::-1], terms, procs, times)


def run_dyn(inp):
    length, st, ham, procs, t_total, dt = dyn_problem(inp)
    _, basis = make_state(length, st)
    terms = make_terms(ham, length)
    if inp["kind"] == "dyn-free":
        solvers = [("TJM", 1), ("TJM", 2), ("MCWF", 1), ("Lindblad", 1)]
        procs = []
    else:
        solvers = [("Lindblad", 1)]
    out = []
    ref = rev = None
    for solver, order in solvers:
        status, res = in_child(run_solver, (length, st, ham, procs, solver, order, t_total, dt, 1, False))
        if status == "timeout":
            raise RuntimeError(f"{solver} run timed out: {res}")
        if status == "exc":
            out.append({"req": None, "impl": None, "kind": f"{inp['kind']}-{solver}{order}",
                        "oracle": {"ok": False, "detail": f"{solver} order {order} raised {res} on L={length} state={st} ham={ham} procs={procs}"},
                        "sig": f"{inp['kind']}:{solver}{order}:exc"})
            continue
        vals, times = np.array(res[0]), np.array(res[1])
        if ref is None:
            ref = reference(length, basis, terms, procs, times)
            rev = reversed_reference(length, basis, terms, procs, times)
        tol = tol_for(solver, length)
        dev = float(np.abs(vals - ref).max()) if vals.shape == ref.shape else float("inf")
        sens = float(np.abs(ref - rev).max())
        out.append({"req": None, "impl": None, "kind": f"{inp['kind']}-{solver}{order}",
                    "oracle": {"ok": bool(dev <= tol),
                               "detail": f"{solver} order {order}: max |<Z_i>(t) - dense reference| = {dev:.3e} (tol {tol:g}) on L={length} "
                                         f"state '{basis}' ham={ham['kind']} procs={procs} T={t_total} dt={dt}; a reversed chain would differ by {sens:.2e}"},
                    "sig": f"{inp['kind']}:{solver}{order}:{length}:{st['kind']}:{ham['kind']}:{len(procs)}",
                    "nontrivial": sens > 10 * tol, "dev": dev})
    return out


def run_dyn_stat(inp):
    """noisy TJM / MCWF: a strong lowering process on one end of an asymmetric chain; the averaged trajectories must sit
    within 6 standard errors of the dense master equation (a reversed chain is off by O(1))"""
    rng = random.Random(inp["sub"])
    solver = inp["solver"]
    length = int(inp.get("L", 3))
    site = int(inp.get("site", rng.choice([0, length - 1])))
    basis = inp.get("basis") or "".join("1" if i == site else "0" for i in range(length))
    gamma = float(inp.get("gamma", 4.0))
    ham = inp.get("ham") or {"kind": "ising", "J": 1.0, "g": 0.0 if rng.random() < 0.5 else 0.3}
    ntraj = int(inp.get("ntraj", 144))
    t_total, dt = 0.5, 0.1
    procs = [("lowering", site, gamma)]
    status, res = in_child(run_solver, (length, {"kind": "basis", "string": basis}, ham, procs, solver, 2, t_total, dt, ntraj, True),
                           timeout=400)
    if status == "timeout":
        raise RuntimeError(f"noisy {solver} run timed out")
    if status == "exc":
        return {"req": None, "impl": None, "oracle": {"ok": False, "detail": f"noisy {solver} raised {res}"}, "sig": f"dyn-stat:{solver}:exc"}
    vals, times = np.array(res[0]), np.array(res[1])
    terms = make_terms(ham, length)
    ref = reference(length, basis, terms, procs, times)
    rev = reversed_reference(length, basis, terms, procs, times)
    tol = 6.0 / np.sqrt(ntraj)
    dev = float(np.abs(vals - ref).max())
    sens = float(np.abs(ref - rev).max())
    return {"req": None, "impl": None, "kind": f"dyn-stat-{solver}",
            "oracle": {"ok": bool(dev <= tol), "detail": f"noisy {solver}, {ntraj} trajectories, lowering(gamma={gamma}) on site {site} of '{basis}': "
                                                         f"max deviation from the dense master equation {dev:.3f} (6 sigma = {tol:.3f}); reversed chain would differ by {sens:.2f}"},
            "sig": f"dyn-stat:{solver}:{length}:{site}", "nontrivial": sens > 2 * tol}


def run(inp):
    res = run_inner(inp)
    if "corpus_file" in inp:  # keep the corpus marker on the cases (vcheck counts them by kind)
        for r in res if isinstance(res, list) else [res]:
            r["kind"] = "corpus:" + str(r.get("kind", inp["kind"]))
    return res


def run_inner(inp):
    k = inp["kind"]
    if k == "tovec":
        return run_tovec(inp)
    if k == "solvervec":
        return run_solvervec(inp)
    if k == "embed1":
        return run_embed1(inp)
    if k == "embed2":
        return run_embed2(inp)
    if k == "embedf":
        return run_embedf(inp)
    if k == "mpo":
        return run_mpo(inp)
    if k == "kronall":
        return run_kronall(inp)
    if k in ("dyn-free", "dyn-lind"):
        return run_dyn(inp)
    if k == "dyn-stat":
        return run_dyn_stat(inp)
    if k == "mastereq":
        return me.run_mastereq(inp)
    if k == "mastereq-step":
        return me.run_mastereq_step(inp)
    raise ValueError(k)


if __name__ == "__main__":
    ib.main("C06", gen, run, driver="Index",
            rule="seeded basis strings (L<=8, mixed local dimensions 2/3/4 for to_vec and product MPOs), one-site / adjacent (both "
                 "orders, non-adjacent, out of range) / factor-pair embeddings with small exactly-representable non-symmetric "
                 "matrices through all dense and sparse variants, the vectors handed to solve_ivp / MCWF, and dynamics of "
                 "asymmetric states under Ising / Heisenberg / site-dependent Pauli sums; distinct = distinct (kind, length, "
                 "position class, palindrome?, error?) signatures; non-trivial = not reversal-symmetric (index ties) resp. a "
                 "reversed chain would differ by > 100 tol (dynamics); extension (kinds me-*): 2-3 qubits, random Pauli-sum "
                 "Hamiltonians, process lists from the noise library (1-site / adjacent / long-range, zero / negative / duplicate "
                 "strengths, random order), random rational Hermitian and non-Hermitian rho through the captured lindblad_rhs "
                 "closure, l_dag_l_sum, jump_ops, heff, solve_ivp kwargs, Tr(O rho) on a known rho, one forced MCWF pass; "
                 "non-trivial = at least one process survives the strength filter (jumpops: at least one is dropped); extension 2 (kinds me2-*): "
                 "one fully observed MCWF pass — draws forced onto / next to the boundary r = p_jump (propagated state replaced by a dyadic "
                 "vector), p_jump = 0 and < 0, basis states with lowering and raising on the same site (exact zeros in the vector for "
                 "choice), total weights of order 1e-15 on both sides of the threshold, random complex states; compared: p_jump, branch, "
                 "vector for choice, the sequence of jump-operator products and their argument, the output state as a density matrix, "
                 "the returned columns; lindblad's y0 for complex product states",
            trusted_base=["numpy/scipy dense linear algebra (kron, eigh, expm) in the oracles",
                          "np.kron / scipy.sparse.kron entry rule A[i//rB, j//cB]*B[i%rB, j%cB] (value-tied through _kron_all_*)",
                          "me-* ties: scipy.sparse matmul / conj().T, np.vdot, np.trace (compared with the exact model at 1e-9); "
                          "np.sqrt(strength)**2 = strength up to rounding (sqrt_scaling_equiv assumes r*r = gamma exactly); "
                          "solve_ivp returns y0 unchanged at t_eval[0] = t0; expm_arnoldi is observed, not modelled (C19)"],
            assumptions=["RK45 / Arnoldi / TDVP accuracy is measured against the dense reference, not proved: tolerances 1e-6 "
                         "(Lindblad, MCWF, TJM L<=3) and 5e-2 (TJM L in 4..5) are >= 100x the largest deviation seen on the clean tree",
                         "noisy TJM/MCWF are compared statistically (6 standard errors)"],
            )
