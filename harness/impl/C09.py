"""C09 — implementation side: truncating splits of the real code vs Model.Rank, plus direct oracles.

value tie  : kept rank of split_mps_tensor / two_site_svd / truncated_right_svd / MPO.compress / from_matrix /
             decompose_theta vs the model, on the spectrum the implementation itself saw (recorded at the SVD
             call) or on a forced dyadic spectrum (exact in binary64, so `>` vs `>=` is decided, not skipped).
spec tie   : LAPACK SVD spec on every matrix seen (U diag(s) Vh = M, isometries, sorted, non-negative).
oracle     : reconstruction error^2 == discarded weight; weight <= threshold unless cap forces it;
             relative mode keeps exactly the values >= thr*s0 (clamped); three distributions same product;
             advertised factor isometric.
"""
from __future__ import annotations

import contextlib
from fractions import Fraction

import numpy as np

import implbase as ib
from mqt.yaqs.core.data_structures import networks as networks_mod
from mqt.yaqs.core.data_structures.networks import MPO, MPS
from mqt.yaqs.core.data_structures.simulation_parameters import StrongSimParams
from mqt.yaqs.core.methods import decompositions as dec_mod
from mqt.yaqs.core.methods import tdvp as tdvp_mod
from mqt.yaqs.digital.utils import mpo_utils as mpo_utils_mod

SPEC = {"n": 0, "bad": 0, "worst": 0.0, "detail": ""}


def check_svd_spec(m, u, s, vh):
    SPEC["n"] += 1
    scale = max(1.0, float(np.linalg.norm(m)))
    e1 = float(np.linalg.norm(u @ np.diag(s) @ vh - m)) / scale
    e2 = float(np.linalg.norm(u.conj().T @ u - np.eye(u.shape[1])))
    e3 = float(np.linalg.norm(vh @ vh.conj().T - np.eye(vh.shape[0])))
    ok = e1 < 1e-9 and e2 < 1e-9 and e3 < 1e-9 and bool(np.all(s >= 0)) and bool(np.all(np.diff(s) <= 1e-13 * scale))
    SPEC["worst"] = max(SPEC["worst"], e1, e2, e3)
    if not ok:
        SPEC["bad"] += 1
        SPEC["detail"] = f"recon {e1:.2e} UhU {e2:.2e} VVh {e3:.2e} s={s[:6]}"


@contextlib.contextmanager
def patched_svd(module, name, record, force=None):
    """Wrap `module.name` (an SVD returning (u, s, vh)); record (matrix, s) and optionally substitute s."""
    orig = getattr(module, name)

    def wrapper(a, *args, **kw):
        u, s, vh = orig(a, *args, **kw)
        check_svd_spec(np.asarray(a), u, s, vh)
        if force is not None:
            s = np.array(force[: len(s)] + [0.0] * max(0, len(s) - len(force)), dtype=np.float64)
        record.append(np.array(s, dtype=np.float64))
        return u, s, vh

    setattr(module, name, wrapper)
    try:
        yield
    finally:
        setattr(module, name, orig)


def dyadic_spectrum(rng, n):
    """descending dyadic values, with ties and zeros, exactly representable together with their squares and sums"""
    if n >= 3 and rng.random() < 0.3:
        # a few large values followed by a flat tail of equal small ones (each below, together above a threshold)
        m = rng.randrange(2, n)
        small = rng.choice([1, 1, 3]) / rng.choice([16, 32, 64])
        big = sorted((rng.choice([1, 2, 3, 4]) / rng.choice([1, 2]) for _ in range(n - m)), reverse=True)
        return [float(v) for v in big] + [float(small)] * m
    vals = sorted((rng.choice([0, 0, 1, 1, 2, 3, 4, 6, 8]) / rng.choice([1, 2, 4, 8, 16]) for _ in range(n)), reverse=True)
    return [float(v) for v in vals]


def dyadic_threshold(rng, s):
    """threshold that sits exactly on a partial sum of squares (smallest first), just off it, or random dyadic"""
    rev = list(reversed(s))
    sums, acc = [], Fraction(0)
    for v in rev:
        acc += Fraction(v) ** 2
        sums.append(acc)
    mode = rng.choice(["on", "on", "off+", "off-", "rand", "zero", "between", "between"])
    if mode == "between":
        # strictly between two consecutive partial sums (exact dyadic midpoint)
        j = rng.randrange(len(sums))
        lo = sums[j - 1] if j > 0 else Fraction(0)
        return float((lo + sums[j]) / 2)
    if mode == "zero":
        return 0.0
    if mode == "rand":
        return rng.choice([1, 3, 5, 9]) / rng.choice([8, 64, 512, 4096])
    base = float(rng.choice(sums))
    if mode == "on":
        return base
    return base + (2.0**-30 if mode == "off+" else -(2.0**-30))


def margin_edge(s, thr, strict_gt=True):
    """True when some partial sum of squares is within 1e-12 (relative) of thr without being exactly decidable in floats"""
    acc = Fraction(0)
    t = Fraction(thr)
    for v in reversed(list(s)):
        acc += Fraction(float(v)) ** 2
        if acc == t:
            # exact tie: decidable only if float arithmetic is exact here
            facc = 0.0
            for w in reversed(list(s)):
                facc += float(w) * float(w)
                if Fraction(facc) == acc:
                    break
            else:
                return True
            continue
        d = abs(acc - t)
        if d <= Fraction(1, 10**12) * max(abs(t), abs(acc)):
            return True
    return False


def float_sums_exact(s):
    acc, facc = Fraction(0), 0.0
    for w in reversed(list(s)):
        acc += Fraction(float(w)) ** 2
        facc = facc + float(w) * float(w)
        if Fraction(facc) != acc:
            return False
    return True


def random_unitary(nprng, n):
    z = nprng.normal(size=(n, n)) + 1j * nprng.normal(size=(n, n))
    q, r = np.linalg.qr(z)
    return q * (np.diag(r) / np.abs(np.diag(r)))


def tensor_with_spectrum(nprng, d0, d1, dl, dr, s):
    """tensor (d0*d1, dl, dr) whose split matrix (d0*dl) x (d1*dr) has singular values s"""
    m, n = d0 * dl, d1 * dr
    k = min(m, n)
    s = (list(s) + [0.0] * k)[:k]
    u = random_unitary(nprng, m)[:, :k]
    v = random_unitary(nprng, n)[:k, :]
    mat = u @ np.diag(s) @ v
    t = mat.reshape(d0, dl, d1, dr).transpose(0, 2, 1, 3).reshape(d0 * d1, dl, dr)
    return t, mat


def params(mode, thr, mn, mx):
    from mqt.yaqs.core.data_structures.simulation_parameters import Observable
    from mqt.yaqs.core.libraries.gate_library import Z

    return StrongSimParams([Observable(Z(), 0)], max_bond_dim=mx, min_bond_dim=mn, trunc_mode=mode, threshold=thr,
                           show_progress=False)


def gen(rng, tier):
    n = {"quick": 3000, "thorough": 40000, "search": 3000}.get(tier, 260)
    for i in range(n):
        r = rng.random()
        sub = rng.randrange(1 << 30)
        if r < 0.30:
            yield {"kind": "split-forced", "sub": sub}
        elif r < 0.55:
            yield {"kind": "split-real", "sub": sub}
        elif r < 0.70:
            yield {"kind": "two-forced", "sub": sub}
        elif r < 0.80:
            yield {"kind": "two-real", "sub": sub}
        elif r < 0.86:
            yield {"kind": "rsvd", "sub": sub}
        elif r < 0.91:
            yield {"kind": "truncate", "sub": sub}
        elif r < 0.95:
            yield {"kind": "compress", "sub": sub}
        elif r < 0.98:
            yield {"kind": "frommat", "sub": sub}
        else:
            yield {"kind": "dtheta", "sub": sub}


def shape_choice(rng):
    d0, d1 = rng.choice([(2, 2), (2, 2), (2, 3), (3, 2), (3, 3)])
    dl, dr = rng.choice([1, 1, 2, 3, 4]), rng.choice([1, 1, 2, 3, 4])
    return d0, d1, dl, dr


def run_split(inp, forced):
    import random

    rng = random.Random(inp["sub"])
    nprng = np.random.default_rng(inp["sub"])
    d0, d1, dl, dr = shape_choice(rng)
    k = min(d0 * dl, d1 * dr)
    mode = rng.choice(["discarded_weight", "discarded_weight", "relative"])
    mn = rng.choice([1, 1, 2, 2, 3, 4, 9])
    mx = rng.choice([1, 2, 3, 4, 5, 6, 7, 8, 64])
    dyn = rng.random() < 0.5
    dist = rng.choice(["left", "right", "sqrt"])
    if forced:
        s = dyadic_spectrum(rng, k)
        if rng.random() < 0.1:
            s = [0.0] * k
        thr = dyadic_threshold(rng, s) if mode == "discarded_weight" else rng.choice([0.0, 0.25, 0.5, 1.0, 0.125, 2.0**-20])
    else:
        kind = rng.choice(["geom", "geom", "flat", "deficient", "zero", "tiny"])
        if kind == "geom":
            s = sorted((rng.random() * 10.0 ** (-rng.uniform(0, 6) * j / k) for j in range(k)), reverse=True)
        elif kind == "flat":
            s = [1.0] * k
        elif kind == "deficient":
            r0 = rng.randrange(1, k + 1)
            s = sorted((rng.random() + 0.1 for _ in range(r0)), reverse=True) + [0.0] * (k - r0)
        elif kind == "zero":
            s = [0.0] * k
        else:
            s = sorted((rng.random() * 1e-7 for _ in range(k)), reverse=True)
        thr = rng.choice([0.0, 1e-12, 1e-9, 1e-6, 1e-3, 0.05, 0.3]) if mode == "discarded_weight" else rng.choice([1e-9, 1e-3, 0.1, 0.5, 0.9])
    tensor, mat = tensor_with_spectrum(nprng, d0, d1, dl, dr, s)
    sp = params(mode, thr, mn, mx)
    rec = []
    exc = None
    # one parameter object serves every split of a simulation: half of the cases first run an edge split (two singular values,
    # as at the end of a chain) on the SAME object, and no split may leave a trace on it
    warm = rng.random() < 0.5
    if warm:
        small, _ = tensor_with_spectrum(nprng, 2, 2, 1, 1, [1.0, 0.5])
        try:
            tdvp_mod.split_mps_tensor(small, dist, sp, [2, 2], dynamic=dyn)
        except Exception:  # noqa: BLE001, S110
            pass
    with patched_svd(tdvp_mod, "robust_svd", rec, force=s if forced else None):
        try:
            a0, a1 = tdvp_mod.split_mps_tensor(tensor.copy(), dist, sp, [d0, d1], dynamic=dyn)
        except Exception as e:  # noqa: BLE001
            exc = type(e).__name__
    params_after = (sp.trunc_mode, float(sp.threshold), int(sp.min_bond_dim), int(sp.max_bond_dim))
    params_changed = params_after != (mode, float(thr), int(mn), int(mx))
    seen = rec[0] if rec else np.array(s)
    rule = "dw" if mode == "discarded_weight" else "rel"
    req = f"{rule} {ib.frac(thr)} {mn} {mx} | {ib.fracs(seen)}"
    impl = "err" if exc else str(a0.shape[2])
    edge = False
    if mode == "discarded_weight":
        edge = margin_edge(seen, thr) and not (forced and float_sums_exact(seen))
    else:
        s0 = float(seen[0])
        if s0 > 0:
            edge = any(abs(float(v) / s0 - thr) <= 1e-12 * max(thr, 1e-300) and Fraction(float(v)) / Fraction(s0) != Fraction(thr) for v in seen)
            # float division may round across the threshold when the exact quotient is not a float
            edge = edge or any(Fraction(float(v) / s0) != Fraction(float(v)) / Fraction(s0) and abs(Fraction(float(v)) / Fraction(s0) - Fraction(thr)) < Fraction(1, 10**14) for v in seen)
    oracle = None
    if exc:
        oracle = {"ok": False, "detail": f"split_mps_tensor raised {exc} on shape {tensor.shape} mode={mode} thr={thr} min={mn} max={mx}"}
    elif forced:
        # direct check of the property on the decision the real code took for the spectrum it saw (exact arithmetic)
        keep = a0.shape[2]
        fs = [Fraction(float(v)) for v in seen]
        tail = sum((v * v for v in fs[keep:]), Fraction(0))
        probs = []
        if keep > max(mx, min(mn, len(fs))):
            probs.append(f"kept {keep} > max(max_bond={mx}, min_bond={mn})")
        if mode == "discarded_weight":
            if tail > Fraction(thr) and keep < min(len(fs), mx) and not edge:
                probs.append(f"discarded weight {float(tail):.6g} > threshold {thr:.6g} although the cap {mx} does not force it (kept {keep} of {len(fs)}, spectrum {[float(v) for v in seen]})")
        elif fs[0] > 0 and not edge:
            cnt = sum(1 for v in fs if v / fs[0] >= Fraction(thr))
            want = min(max(min(cnt, mx), mn), len(fs))
            if keep != want:
                probs.append(f"relative mode kept {keep}, but {cnt} values are >= thr*s0 and min/max = {mn}/{mx} (expected {want}); spectrum {[float(v) for v in seen]}")
        oracle = {"ok": not probs, "detail": "; ".join(probs) or f"forced spectrum: kept {keep}, discarded {float(tail):.3e} <= thr or cap-forced"}
    elif not forced:
        keep = a0.shape[2]
        theta = np.einsum("ilk,jkr->ilj r".replace(" ", ""), a0, a1).reshape(d0 * dl, d1 * dr)
        err2 = float(np.linalg.norm(theta - mat) ** 2)
        sv = np.linalg.svd(mat, compute_uv=False)
        tail = float(np.sum(sv[keep:] ** 2))
        tot = float(np.sum(sv**2))
        probs = []
        if abs(err2 - tail) > 1e-9 * (1 + tot):
            probs.append(f"reconstruction error^2 {err2:.3e} != discarded weight {tail:.3e}")
        allowed = max(mx, min(len(sv), mn))
        if keep > allowed:
            probs.append(f"kept {keep} > max(max_bond={mx}, min_bond={mn})")
        if mode == "discarded_weight":
            if keep < min(len(sv), mx) and tail > thr * (1 + 1e-9) + 1e-15 * tot:
                probs.append(f"discarded weight {tail:.3e} > threshold {thr:.3e} although cap {mx} does not force it (kept {keep})")
        else:
            s0 = sv[0]
            if s0 > 0:
                cnt = int(np.sum(sv / s0 >= thr * (1 + 1e-9))), int(np.sum(sv / s0 >= thr * (1 - 1e-9)))
                lo = min(max(min(cnt[0], mx), mn), len(sv))
                hi = min(max(min(cnt[1], mx), mn), len(sv))
                if not (lo <= keep <= hi):
                    probs.append(f"relative mode kept {keep}, expected {lo}..{hi}")
        # isometry of the advertised factor
        if dist == "right":
            am = a0.reshape(d0 * dl, keep)
            if np.linalg.norm(am.conj().T @ am - np.eye(keep)) > 1e-8:
                probs.append("left factor not isometric for distribution 'right'")
        if dist == "left":
            bm = a1.transpose(1, 0, 2).reshape(keep, d1 * dr)
            if np.linalg.norm(bm @ bm.conj().T - np.eye(keep)) > 1e-8:
                probs.append("right factor not isometric for distribution 'left'")
        # same product for the other distributions
        for other in ("left", "right", "sqrt"):
            if other == dist:
                continue
            b0, b1 = tdvp_mod.split_mps_tensor(tensor.copy(), other, sp, [d0, d1], dynamic=dyn)
            th2 = np.einsum("ilk,jkr->iljr", b0, b1).reshape(d0 * dl, d1 * dr)
            if b0.shape != a0.shape or np.linalg.norm(th2 - theta) > 1e-9 * (1 + np.sqrt(tot)):
                probs.append(f"distribution {other} gives a different product than {dist}")
        oracle = {"ok": not probs, "detail": "; ".join(probs) or f"err2={err2:.3e} tail={tail:.3e} keep={keep}"}
    if params_changed and oracle is not None:
        oracle = {"ok": False, "detail": f"split_mps_tensor wrote to the shared parameter object: (trunc_mode, threshold, min_bond_dim, "
                                         f"max_bond_dim) = {params_after} after the call, constructed with {(mode, thr, mn, mx)}; " + oracle["detail"]}
    sig = f"{rule}:{len(seen)}:{impl}:{mn}:{mx}:{thr != 0}:{forced}:{warm}"
    return {"req": req, "impl": impl, "oracle": oracle, "edge": bool(edge), "sig": sig,
            "nontrivial": impl not in ("err",) and 0 < int(impl) < len(seen) if impl != "err" else True,
            "meta": {"mode": mode, "dyn": dyn, "dist": dist, "shape": [d0, d1, dl, dr]}}


def run_two(inp, forced):
    import random

    rng = random.Random(inp["sub"])
    nprng = np.random.default_rng(inp["sub"])
    d0, d1, dl, dr = shape_choice(rng)
    if d0 * dl == 1 or d1 * dr == 1:
        dl, dr = 2, 2
    k = min(d0 * dl, d1 * dr)
    cap = rng.choice([None, None, 1, 2, 3, 5])
    if forced:
        s = dyadic_spectrum(rng, k)
        thr = dyadic_threshold(rng, s)
        if thr <= 0:
            thr = 2.0**-40
    else:
        r0 = rng.randrange(1, k + 1)
        s = sorted((rng.random() * 10.0 ** (-rng.uniform(0, 8)) for _ in range(r0)), reverse=True) + [0.0] * (k - r0)
        thr = rng.choice([1e-12, 1e-9, 1e-4, 0.02])
    chi = rng.choice([k, k, max(1, k - 1), k + 1])
    # a: (d0, dl, chi), b: (d1, chi, dr) with a.b == matrix with spectrum s (embed through bond chi >= rank)
    u = random_unitary(nprng, d0 * dl)
    v = random_unitary(nprng, d1 * dr)
    chi = max(chi, int(np.sum(np.array(s) > 0)), 1)
    sa = np.zeros((d0 * dl, chi), dtype=complex)
    sb = np.zeros((chi, d1 * dr), dtype=complex)
    for j in range(min(k, chi)):
        sa[:, j] = u[:, j] * np.sqrt(s[j]) if j < len(s) else 0
        sb[j, :] = v[j, :] * np.sqrt(s[j]) if j < len(s) else 0
    # matrix rows ordered (left, phys_i) in two_site_svd: theta.reshape(left*phys_i, phys_j*right) after tensordot (phys_i,left,phys_j,right)
    a = sa.reshape(d0, dl, chi)
    b = sb.reshape(chi, d1, dr).transpose(1, 0, 2)
    mat = np.tensordot(a, b, axes=(2, 1)).reshape(dl * d0, d1 * dr)
    rec = []
    exc = None
    with patched_svd(dec_mod, "robust_svd", rec, force=s if forced else None):
        try:
            an, bn = dec_mod.two_site_svd(a, b, thr, cap)
        except Exception as e:  # noqa: BLE001
            exc = type(e).__name__
    seen = rec[0] if rec else np.array(s)
    req = f"two {ib.frac(thr)} {'none' if cap is None else cap} | {ib.fracs(seen)}"
    impl = "err" if exc else str(an.shape[2])
    edge = margin_edge(seen, thr) and not (forced and float_sums_exact(seen))
    oracle = None
    if forced and not exc:
        keep = an.shape[2]
        fs = [Fraction(float(v)) for v in seen]
        tail = sum((v * v for v in fs[keep:]), Fraction(0))
        probs = []
        if cap is not None and keep > cap:
            probs.append(f"two_site_svd kept {keep} > cap {cap}")
        if tail > Fraction(thr) and (cap is None or keep < cap) and not edge:
            probs.append(f"two_site_svd discarded weight {float(tail):.6g} > threshold {thr:.6g} (kept {keep} of {len(fs)}, cap {cap}, spectrum {[float(v) for v in seen]})")
        oracle = {"ok": not probs, "detail": "; ".join(probs) or f"forced spectrum: kept {keep}, discarded {float(tail):.3e}"}
    if not forced and not exc:
        keep = an.shape[2]
        th = np.tensordot(an, bn, axes=(2, 1)).reshape(dl * d0, d1 * dr)
        err2 = float(np.linalg.norm(th - mat) ** 2)
        sv = np.linalg.svd(mat, compute_uv=False)
        tail = float(np.sum(sv[keep:] ** 2))
        probs = []
        if abs(err2 - tail) > 1e-9 * (1 + float(np.sum(sv**2))):
            probs.append(f"reconstruction error^2 {err2:.3e} != discarded weight {tail:.3e}")
        if (cap is None or keep < cap) and tail > thr * (1 + 1e-9) + 1e-28:
            probs.append(f"discarded weight {tail:.3e} > threshold {thr:.3e} (kept {keep}, cap {cap})")
        if cap is not None and keep > cap:
            probs.append(f"kept {keep} > cap {cap}")
        am = an.reshape(-1, keep)
        if np.linalg.norm(am.conj().T @ am - np.eye(keep)) > 1e-8:
            probs.append("left factor of two_site_svd not isometric")
        oracle = {"ok": not probs, "detail": "; ".join(probs) or f"err2={err2:.3e} tail={tail:.3e} keep={keep}"}
    return {"req": req, "impl": impl, "oracle": oracle, "edge": bool(edge),
            "sig": f"two:{len(seen)}:{impl}:{cap}:{forced}", "nontrivial": impl != "err" and int(impl) < len(seen)}


def run_rsvd(inp):
    import random

    rng = random.Random(inp["sub"])
    nprng = np.random.default_rng(inp["sub"])
    d, dl, dr = rng.choice([2, 3]), rng.choice([1, 2, 3]), rng.choice([1, 2, 3, 4])
    k = min(d * dl, dr)
    s = dyadic_spectrum(rng, k)
    thr = dyadic_threshold(rng, s)
    cap = rng.choice([None, 1, 2, 3])
    t = (nprng.normal(size=(d, dl, dr)) + 1j * nprng.normal(size=(d, dl, dr)))
    rec = []
    with patched_svd(np.linalg, "svd", rec, force=s):
        u, sv, v = dec_mod.truncated_right_svd(t, thr, cap)
    seen = rec[0]
    return {"req": f"rsvd {ib.frac(thr)} {'none' if cap is None else cap} | {ib.fracs(seen)}", "impl": str(len(sv)),
            "oracle": None, "edge": bool(margin_edge(seen, thr) and not float_sums_exact(seen)),
            "sig": f"rsvd:{len(seen)}:{len(sv)}:{cap}", "nontrivial": len(sv) < len(seen)}


def run_truncate(inp):
    """MPS.truncate: every two_site_svd call inside it is tied (trace of spectra and kept ranks)."""
    import random

    rng = random.Random(inp["sub"])
    L = rng.choice([2, 3, 4, 5])
    nprng = np.random.default_rng(inp["sub"])
    chi = rng.choice([2, 3, 4])
    dims = [1] + [chi] * (L - 1) + [1]
    tensors = [nprng.normal(size=(2, dims[i], dims[i + 1])) + 1j * nprng.normal(size=(2, dims[i], dims[i + 1])) for i in range(L)]
    # make the state low-rank across a random bond so that truncation has something to do
    mps = MPS(L, tensors=[t.copy() for t in tensors], physical_dimensions=[2] * L)
    centre = rng.randrange(L)
    mps.set_canonical_form(centre)
    thr = rng.choice([1e-12, 1e-6, 1e-2, 0.2])
    cap = rng.choice([None, 1, 2, 3])
    before = mps.to_vec()
    rec = []
    keeps = []
    orig = dec_mod.two_site_svd

    def spy(a, b, threshold, max_bond_dim=None):
        an, bn = orig(a, b, threshold, max_bond_dim)
        keeps.append(an.shape[2])
        return an, bn

    with patched_svd(dec_mod, "robust_svd", rec):
        networks_mod.two_site_svd = spy
        try:
            mps.truncate(threshold=thr, max_bond_dim=cap)
        finally:
            networks_mod.two_site_svd = orig
    after = mps.to_vec()
    out = []
    for j, (s, kk) in enumerate(zip(rec, keeps)):
        out.append({"req": f"two {ib.frac(thr)} {'none' if cap is None else cap} | {ib.fracs(s)}", "impl": str(kk),
                    "oracle": None, "edge": bool(margin_edge(s, thr)), "kind": "truncate-call",
                    "sig": f"trunc:{len(s)}:{kk}:{cap}", "nontrivial": kk < len(s)})
    # oracle: total change bounded by the sum of discarded weights when no cap; bonds under cap
    probs = []
    bonds = [t.shape[2] for t in mps.tensors[:-1]]
    if cap is not None and any(b > max(cap, 1) for b in bonds):
        probs.append(f"bond {bonds} exceeds cap {cap} after truncate")
    if cap is None:
        diff = float(np.linalg.norm(after - before))
        bound = float(np.sqrt(thr) * 2 * L + 1e-9) * max(1.0, float(np.linalg.norm(before)))
        if diff > bound:
            probs.append(f"truncate changed the state by {diff:.3e} > {bound:.3e}")
    out.append({"req": None, "impl": None, "oracle": {"ok": not probs, "detail": "; ".join(probs) or f"bonds {bonds}"},
                "kind": "truncate", "sig": f"truncate:{L}:{cap}:{bonds}"})
    return out


def run_compress(inp):
    import random

    rng = random.Random(inp["sub"])
    L = rng.choice([3, 4, 5])
    kind = rng.choice(["ising", "heis"])
    h = MPO.ising(L, 1.0, 0.5, n_sweeps=0) if kind == "ising" else MPO.heisenberg(L, 1.0, 0.7, 0.3, 0.2, n_sweeps=0)
    before = h.to_matrix()
    tol = rng.choice([1e-12, 1e-8, 1e-3, 0.5])
    cap = rng.choice([None, None, 2, 3])
    rec = []
    shapes_before = [t.shape for t in h.tensors]
    with patched_svd(np.linalg, "svd", rec):
        h._compress_one_sweep(direction=rng.choice(["lr", "rl"]), tol=tol, max_bond_dim=cap)  # noqa: SLF001
    out = []
    bonds = [t.shape[3] for t in h.tensors[:-1]]
    # the k-th recorded SVD belongs to the k-th bond visited; kept rank = new bond there. recover from shapes:
    # we cannot know which bond from the record alone; use the spy order = sweep order
    # (lr: bonds 0..L-2, rl: L-2..0) — the direction is re-derived from the seed
    rng2 = random.Random(inp["sub"])
    rng2.choice([3, 4, 5]); rng2.choice(["ising", "heis"]); rng2.choice([1e-12, 1e-8, 1e-3, 0.5]); rng2.choice([None, None, 2, 3])
    direction = rng2.choice(["lr", "rl"])
    order = list(range(L - 1)) if direction == "lr" else list(range(L - 2, -1, -1))
    for s, bidx in zip(rec, order):
        out.append({"req": f"compress {ib.frac(tol)} {'none' if cap is None else cap} | {ib.fracs(s)}", "impl": str(bonds[bidx]),
                    "oracle": None, "edge": bool(any(abs(float(v) - tol) <= 1e-12 * tol for v in s)), "kind": "compress-call",
                    "sig": f"compress:{len(s)}:{bonds[bidx]}:{cap}", "nontrivial": bonds[bidx] < len(s)})
    after = h.to_matrix()
    probs = []
    if cap is None:
        d = float(np.linalg.norm(after - before))
        if d > (tol * 4 * L + 1e-9) * max(1.0, float(np.linalg.norm(before))):
            probs.append(f"compression sweep changed the operator by {d:.3e} with tol {tol}")
    out.append({"req": None, "impl": None, "oracle": {"ok": not probs, "detail": "; ".join(probs) or f"bonds {bonds} from {shapes_before}"},
                "kind": "compress", "sig": f"compress:{kind}:{L}:{tol}:{cap}"})
    return out


def run_frommat(inp):
    import random

    rng = random.Random(inp["sub"])
    nprng = np.random.default_rng(inp["sub"])
    n = rng.choice([2, 3])
    dim = 2**n
    m = nprng.normal(size=(dim, dim)) + 1j * nprng.normal(size=(dim, dim))
    if rng.random() < 0.5:  # low rank structure: product operator plus small perturbation
        a = nprng.normal(size=(2, 2))
        m = a
        for _ in range(n - 1):
            m = np.kron(m, nprng.normal(size=(2, 2)))
        m = m + 1e-6 * (nprng.normal(size=(dim, dim)))
    cutoff = rng.choice([0.0, 1e-12, 1e-4, 0.5])
    cap = rng.choice([None, None, 1, 2, 3])
    rec = []
    with patched_svd(np.linalg, "svd", rec):
        mpo = MPO.from_matrix(m, 2, max_bond=cap, cutoff=cutoff)
    if rng.random() < 0.3 and rec:
        # cutoff equal, bit for bit, to a singular value of the first splitting step (`s > cutoff` is strict)
        cutoff = float(rec[0][rng.randrange(len(rec[0]))])
        rec = []
        with patched_svd(np.linalg, "svd", rec):
            mpo = MPO.from_matrix(m, 2, max_bond=cap, cutoff=cutoff)
    bonds = [t.shape[3] for t in mpo.tensors[:-1]]
    out = []
    for s, b in zip(rec, bonds):
        out.append({"req": f"frommat {ib.frac(cutoff)} {'none' if cap is None else cap} | {ib.fracs(s)}", "impl": str(b),
                    "oracle": None, "edge": bool(any(abs(float(v) - cutoff) <= 1e-12 * cutoff and float(v) != cutoff for v in s) if cutoff else False),
                    "kind": "frommat-call", "sig": f"frommat:{len(s)}:{b}:{cap}", "nontrivial": b < len(s)})
    back = mpo.to_matrix()
    probs = []
    if cap is None:
        d = float(np.linalg.norm(back - m))
        if d > (cutoff * 4 * n + 1e-9) * max(1.0, float(np.linalg.norm(m))):
            probs.append(f"from_matrix round trip differs by {d:.3e} at cutoff {cutoff}")
    out.append({"req": None, "impl": None, "oracle": {"ok": not probs, "detail": "; ".join(probs) or f"bonds {bonds}"},
                "kind": "frommat", "sig": f"frommat:{n}:{cutoff}:{cap}"})
    return out


def run_dtheta(inp):
    import random

    rng = random.Random(inp["sub"])
    nprng = np.random.default_rng(inp["sub"])
    dims = (2, 2, rng.choice([1, 2, 3]), 2, 2, rng.choice([1, 2, 3]))
    # theta index order expected by decompose_theta: (0,1,2,3,4,5) -> transposed (0,3,2,1,4,5)
    theta = nprng.normal(size=dims) + 1j * nprng.normal(size=dims)
    thr = rng.choice([1e-13, 1e-6, 0.5, 2.0])
    rec = []
    with patched_svd(np.linalg, "svd", rec):
        u, m = mpo_utils_mod.decompose_theta(theta, thr)
    s = rec[0]
    exact_tie = rng.random() < 0.35
    if exact_tie:
        # the threshold IS one of the singular values (bit for bit): `s > threshold` is strict, the equal value is discarded
        thr = float(s[rng.randrange(len(s))])
        rec = []
        with patched_svd(np.linalg, "svd", rec):
            u, m = mpo_utils_mod.decompose_theta(theta, thr)
        s = rec[0]
    near = any(abs(float(v) - thr) <= 1e-12 * thr and float(v) != thr for v in s)
    return {"req": f"dtheta {ib.frac(thr)} | {ib.fracs(s)}", "impl": str(u.shape[3]), "oracle": None,
            "edge": bool(near), "sig": f"dtheta:{len(s)}:{u.shape[3]}:{exact_tie}",
            "nontrivial": u.shape[3] < len(s)}


def run(inp):
    k = inp["kind"]
    if k == "split-forced":
        return run_split(inp, True)
    if k == "split-real":
        return run_split(inp, False)
    if k == "two-forced":
        return run_two(inp, True)
    if k == "two-real":
        return run_two(inp, False)
    if k == "rsvd":
        return run_rsvd(inp)
    if k == "truncate":
        return run_truncate(inp)
    if k == "compress":
        return run_compress(inp)
    if k == "frommat":
        return run_frommat(inp)
    if k == "dtheta":
        return run_dtheta(inp)
    if k == "fixed":
        return run_fixed(inp)
    raise ValueError(k)


def run_fixed(inp):
    """corpus entries: explicit spectrum / parameters through the real split_mps_tensor (forced spectrum)"""
    s = [float(x) for x in inp["s"]]
    mode, thr, mn, mx, dyn = inp["mode"], float(inp["thr"]), int(inp["min"]), int(inp["max"]), bool(inp.get("dynamic", False))
    d0 = d1 = 2
    dl = dr = max(1, (len(s) + 1) // 2)
    nprng = np.random.default_rng(1)
    tensor, _ = tensor_with_spectrum(nprng, d0, d1, dl, dr, s)
    k = min(d0 * dl, d1 * dr)
    s = (s + [0.0] * k)[:k]
    sp = params(mode, thr, mn, mx)
    rec = []
    exc = None
    with patched_svd(tdvp_mod, "robust_svd", rec, force=s):
        try:
            a0, _ = tdvp_mod.split_mps_tensor(tensor, "right", sp, [d0, d1], dynamic=dyn)
        except Exception as e:  # noqa: BLE001
            exc = type(e).__name__
    rule = "dw" if mode == "discarded_weight" else "rel"
    impl = "err" if exc else str(a0.shape[2])
    probs = []
    if exc:
        probs.append(f"raised {exc}")
    elif a0.shape[2] > max(mx, min(mn, len(s))):
        probs.append(f"kept {a0.shape[2]} > max(max_bond {mx}, min_bond {mn})")
    return {"req": f"{rule} {ib.frac(thr)} {mn} {mx} | {ib.fracs(s)}", "impl": impl,
            "oracle": {"ok": not probs, "detail": "; ".join(probs) or "ok"}, "sig": f"fixed:{inp.get('name')}"}


def spec():
    return [{"name": "LAPACK SVD spec on every matrix seen (U diag(s) Vh = M, UhU = 1, Vh Vh^H = 1, s sorted, s >= 0)",
             "ok": SPEC["bad"] == 0, "n": SPEC["n"], "worst_residual": SPEC["worst"], "detail": SPEC["detail"]}]


if __name__ == "__main__":
    ib.main("C09", gen, run, driver="Rank",
            rule="seeded spectra (dyadic forced: ties, zeros, thresholds exactly on/off partial sums; real: geometric, flat, "
                 "rank-deficient, zero, tiny) x shapes x modes x min/max bond x dynamic x distribution; distinct = distinct "
                 "(rule, length, kept rank, bounds, forced) signatures; non-trivial = kept rank strictly between 0 and len",
            trusted_base=["SVD spec (checked on every matrix seen this run)", "numpy dense linear algebra in the oracles"],
            assumptions=["spectra handed to the model are the binary64 values the implementation saw, as exact rationals"],
            spec=spec)
