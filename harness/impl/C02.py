"""C02 — implementation side: noise-free circuit simulation equals the exact unitary semantics.

trace tie  : order of the REAL `apply_single_qubit_gate` / `apply_two_qubit_gate` calls (gate, sites in qargs order)
             and of the `evaluate_observables` columns inside `simulator.run` → `digital_tjm`, on random circuits
             (widths 2–6, ≤ 12 instructions, all supported gates, both orientations, plain / labelled barriers and
             measurements sprinkled, every supported initial product state) vs `Layers.runCircuit` (mode strongPlain).
             MPS site = circuit qubit is part of the compared tokens (`reverse_bits` in `_run_circuit`).
value tie  : the REAL `process_layer` on the REAL DAG (singles / even / odd groups in their sorted order, number of
             sampling barriers, nodes left in the DAG) vs `Layers.layerOrder`;  `construct_generator_mpo`
             (first/last site, which generator factor sits where — read off the MPO it returns) vs `genPlacement`;
             `apply_window` bounds vs `window`.
oracle     : `simulator.run` (threshold 1e-15, max_bond_dim 4096) vs qiskit `Statevector`: expectations of all 1-site
             and adjacent 2-site Paulis, final state up to a global phase (get_state=True), independence of num_traj.
Every run of the simulator happens in a forked child with a hard kill timeout (layers_common.run_many).

xg02 extension — ONE `apply_two_qubit_gate` call is exact (theorems C02.5–C02.11 of Props/C02.lean, model `Model/GateWindow.lean`):
trace tie  : kind `gate-plan` — the REAL `apply_two_qubit_gate` on a random entangled right-canonical MPS (L = 2..6, every gate
             of the library, both orientations, every position, thresholds 1e-30 so nothing is truncated) with
             `construct_generator_mpo`, `apply_window`, `two_site_tdvp`, `merge_mps_tensors`, `update_site`, `split_mps_tensor`
             wrapped (gatewin_common.observe_gate): generator placement, window, gate position inside it and the whole step
             trace of the sweep (merge / pair step / split / backward site step, site index, dt) **with the role of every
             `update_site` call measured on its arguments** (identity blocks? MPO tensor = 1⊗A, A⊗B, B⊗1, A, B?) vs the model's
             `gplan` — the hypotheses of `heff_pair_identity_left/right`, `heff_gate_pair` observed at every call.
value tie  : kinds `merge-ket`, `merge-op`, `pair-apply`, `pair-idleft`, `pair-idright`, `pair-gate` — the REAL
             `merge_mps_tensors`, `merge_mpo_tensors`, `project_site` on half-integer tensors vs `mergeKet`, `mergeOp`,
             `projectSite ∘ pairDims` of the model (exact).
oracles    : `gate-plan`: new dense state = (qiskit's gate matrix on the two sites)·old dense state to 1e-10, per gate
             application;  `gate-step`: the same for the window state across the gate's own pair step;  `gate-cancel`: the
             dense window state after "pair step; split; backward site step" on an identity-left pair, resp. after "backward
             site step; merge; pair step; split" on an identity-right pair, equals the state before to 1e-10 (the
             cancellations of `gate_sweep_cancel_left/right` observed on the real code);  `pair-id*`: lemma 1 / 2 as exact
             identities between real `project_site` calls.
"""
from __future__ import annotations

import copy
import json
import random

import numpy as np

import implbase as ib
import layers_common as lc
import gatewin_common as gw

TOL_EXP = 1e-7     # clean tree: worst deviation observed over seeds 0..9 is < 5e-13 (see evidence `worst_*`)
TOL_FID = 1e-9
PRE: dict[str, list] = {}
WORST = {"exp": 0.0, "infid": 0.0, "norm": 0.0}
TOL_GATE = 1e-10   # clean tree: worst deviation of the three gate oracles over seeds 0..9 is < 1e-13 (largest seen 9.1e-14; see evidence `worst_gate_*`)
WORST_GATE = {"apply": 0.0, "step": 0.0, "cancel": 0.0, "excursion_min": None, "applications": 0, "cancel_groups": 0}


def key_of(inp) -> str:
    return json.dumps({k: v for k, v in inp.items() if k not in ("corpus_file",)}, sort_keys=True, default=str)


def jobs_for(inp):
    kind = inp["kind"]
    if kind == "sim":
        return [{"spec": inp["spec"], "mode": "sp", "num_traj": inp.get("num_traj", 1)}]
    if kind == "ntraj":
        return [{"spec": inp["spec"], "mode": "sp", "num_traj": 1},
                {"spec": inp["spec"], "mode": "sp", "num_traj": inp.get("num_traj", 7)}]
    return []


def gen(rng, tier):
    n_sim, n_layer, n_traj = {"quick": (80, 30, 10), "thorough": (700, 300, 60), "search": (160, 0, 20)}.get(tier, (80, 30, 10))
    inputs = []
    for _ in range(n_sim):
        r = rng.random()
        if r < 0.25:      # pure gate circuits, deeper
            spec = lc.random_circuit(rng, max_ops=12, p_marker=0.0)
        elif r < 0.40:    # two-qubit heavy: every orientation / parity
            spec = lc.random_circuit(rng, max_ops=10, p_marker=0.15)
            spec["ops"] = [lc.random_gate(rng, spec["n"], "two") if op["op"] == "g1" and rng.random() < 0.7 else op
                           for op in spec["ops"]]
        else:
            spec = lc.random_circuit(rng, max_ops=12, p_marker=0.3)
        inputs.append({"kind": "sim", "spec": spec, "num_traj": rng.choice([1, 1, 3, 50, 1000])})
    # wide circuits: several independent sub-circuits advance side by side, so one DAG front layer holds two-qubit gates
    # of both bond parities far apart, with unequal entanglement on the bonds between them (3 brickwork steps)
    for _ in range({"quick": 3, "thorough": 20, "search": 8}.get(tier, 3)):
        n = 8
        ops = []
        for q in range(n):
            ops.append({"op": "g1", "name": "ry", "q": q, "params": [rng.uniform(0.2, 2.9)]})
            ops.append({"op": "g1", "name": "rz", "q": q, "params": [rng.uniform(0.2, 2.9)]})

        def two(q):
            g = lc.random_gate(rng, 2, "two")
            return dict(g, a=q + g["a"], b=q + g["b"])

        for step in range(3):
            ops += [two(0), two(2), two(4), two(6)]          # even bonds of the brickwork + the side pair
            ops += [two(1), two(3), two(6)]                  # odd bonds of the brickwork + the side pair again (an even bond)
            for q in range(n):
                ops.append({"op": "g1", "name": "rx", "q": q, "params": [rng.uniform(0.2, 1.5)]})
        inputs.append({"kind": "sim", "spec": {"n": n, "init": "zeros", "ops": ops}, "num_traj": 1})
    for _ in range(n_traj):
        inputs.append({"kind": "ntraj", "spec": lc.random_circuit(rng, max_ops=10, p_marker=0.2),
                       "num_traj": rng.choice([2, 7, 100, 1000])})
    for _ in range(n_layer):
        inputs.append({"kind": "layer", "spec": lc.random_circuit(rng, nmax=7, max_ops=14, p_marker=0.35)})
    rng.shuffle(inputs)
    jobs, owner = [], []
    for i, inp in enumerate(inputs):
        for j in jobs_for(inp):
            jobs.append(j)
            owner.append(i)
    res = lc.run_many(jobs) if jobs else []
    for i, inp in enumerate(inputs):
        PRE[key_of(inp)] = [r for r, o in zip(res, owner) if o == i]
    # xg02: single gate applications (every L, position, orientation, gate) and the merge / pair-projector value ties;
    # generated after everything above so that the inputs above are the same as before the extension
    extra = gen_gate_inputs(rng, tier)
    gate_in = [x for x in extra if x["kind"] == "gapply"]
    for inp, r in zip(gate_in, gw.run_gate_jobs(gate_in)):
        PRE[key_of(inp)] = [r]
    yield from inputs
    yield from extra


# ------------------------------------------------------------------------------------------------- oracles
def compare_with_statevector(spec, res):
    """model-independent: the real run against qiskit's Statevector of the gate-only circuit"""
    if res.get("hang"):
        return {"ok": False, "detail": f"simulator.run does not terminate (killed after {res['timeout']} s)"}
    if res.get("crash"):
        return {"ok": False, "detail": "simulator.run crashed the child: " + res["crash"][-300:]}
    if res.get("exc"):
        return {"ok": False, "detail": "simulator.run raised " + res["exc"]}
    n = spec["n"]
    ref = lc.reference_state(spec)
    want = lc.reference_expectations(n, ref)
    got = [r[-1] for r in res["results"]]
    if len(got) != len(want) or any(len(r) != 1 for r in res["results"]):
        return {"ok": False, "detail": f"result shape: {len(got)} observables, columns {[len(r) for r in res['results']][:4]}"}
    dev = float(np.max(np.abs(np.array(got) - np.array(want))))
    WORST["exp"] = max(WORST["exp"], dev)
    vec = lc.vec_of(res)
    if vec is None:
        return {"ok": False, "detail": "get_state=True but no output state: " + str(res.get("vec_exc"))}
    nrm = float(np.linalg.norm(vec))
    infid = abs(1.0 - abs(np.vdot(ref, vec)))
    WORST["infid"] = max(WORST["infid"], infid)
    WORST["norm"] = max(WORST["norm"], abs(nrm - 1))
    labs = lc.observable_list(n)
    if dev > TOL_EXP:
        k = int(np.argmax(np.abs(np.array(got) - np.array(want))))
        return {"ok": False, "detail": f"<{labs[k][0]}@{labs[k][1]}> = {got[k]:.12g}, exact state vector gives {want[k]:.12g} (dev {dev:.3g})"}
    if infid > TOL_FID or abs(nrm - 1) > TOL_FID:
        return {"ok": False, "detail": f"final state: |<exact|mps>| = {1 - infid:.12g}, norm {nrm:.12g}"}
    return {"ok": True, "detail": f"max dev {dev:.2e}, infidelity {infid:.2e}"}


def spec_sig(spec):
    ops = spec["ops"]
    return "n%d:%s:%s" % (spec["n"], spec["init"], " ".join(
        (op["name"] + ("<" if op["op"] == "g2" and op["a"] > op["b"] else "") if op["op"] in ("g1", "g2")
         else op["op"]) + ":" + str(op.get("q", op.get("a", op.get("qs")))) for op in ops))


def run_sim(inp, results):
    spec = inp["spec"]
    res = results[0]
    cases = []
    tied = lc.ascii_labels(spec["ops"])
    cases.append({
        "kind": "sim-trace",
        "req": lc.request("run new sp", spec["ops"]) if tied else None,
        "impl": lc.events_string(res, spec, "sp"),
        "oracle": compare_with_statevector(spec, res),
        "sig": spec_sig(spec),
        "nontrivial": sum(op["op"] in ("g1", "g2") for op in spec["ops"]) >= 2,
    })
    seen = set()
    for sites, first, last, m0, m1, others, length in res.get("gens", []) if isinstance(res, dict) else []:
        a, b = sites
        if (a, b) in seen:
            continue
        seen.add((a, b))
        kf = sites.index(first) if first in sites else -1
        kl = sites.index(last) if last in sites else -1
        ok = kf >= 0 and kl >= 0 and [m0, m1][kf] and [m0, m1][kl] and others
        cases.append({
            "kind": "gen-placement",
            "req": f"gen {a} {b}",
            "impl": f"{first} {last} {kf if [m0, m1][kf] else 'x'} {kl if [m0, m1][kl] else 'x'}",
            "oracle": {"ok": bool(ok), "detail": f"sites {sites}: MPO carries generator[k] on sites[k]: {m0},{m1}; identity elsewhere: {others}"},
            "sig": f"gen:{a}:{b}:{length}", "nontrivial": True,
        })
    seenw = set()
    for length, first, last, wsize, win, short_len in res.get("wins", []) if isinstance(res, dict) else []:
        if (length, first, last) in seenw or wsize != 1:
            continue
        seenw.add((length, first, last))
        ok = win[0] <= first and last <= win[1] < length and short_len == win[1] - win[0] + 1 and short_len >= 2
        cases.append({
            "kind": "window",
            "req": f"win {length} {first} {last}",
            "impl": f"{win[0]} {win[1]}",
            "oracle": {"ok": bool(ok), "detail": f"window {win} for sites ({first},{last}) on {length} sites, short state {short_len}"},
            "sig": f"win:{length}:{first}:{last}", "nontrivial": True,
        })
    return cases


def run_ntraj(inp, results):
    spec = inp["spec"]
    a, b = results
    o1, o2 = compare_with_statevector(spec, a), compare_with_statevector(spec, b)
    if not o1["ok"] or not o2["ok"]:
        orc = o1 if not o1["ok"] else o2
    else:
        ra, rb = np.array(a["results"]), np.array(b["results"])
        va, vb = lc.vec_of(a), lc.vec_of(b)
        d = float(np.max(np.abs(ra - rb)))
        dv = float(np.max(np.abs(va - vb)))
        same_trace = lc.events_string(a, spec, "sp") == lc.events_string(b, spec, "sp")
        ok = d <= 1e-12 and dv <= 1e-12 and same_trace
        orc = {"ok": ok, "detail": f"num_traj=1 vs {inp.get('num_traj')}: max result diff {d:.2e}, state diff {dv:.2e}, same gate trace {same_trace}"}
    return [{"kind": "num-traj", "req": None, "impl": None, "oracle": orc, "sig": "nt:" + spec_sig(spec), "nontrivial": True}]


def run_layer(inp):
    """value tie of `process_layer` on the real DAG the simulator would build (no loop → cannot hang)"""
    from mqt.yaqs.digital import digital_tjm as dt_mod

    spec = inp["spec"]
    if not lc.ascii_labels(spec["ops"]):
        return []
    tags = lc.tag_table(spec["ops"])
    qc = copy.deepcopy(lc.build_circuit(spec).reverse_bits())
    dag = lc.circuit_to_dag(qc)
    singles, evens, odds, sbs = dt_mod.process_layer(dag)
    left = len(dag.op_nodes())
    toks = (["S"] + lc.dag_nodes_tokens(singles, tags) + ["E"] + lc.dag_nodes_tokens(evens, tags) + ["O"] +
            lc.dag_nodes_tokens(odds, tags) + ["B", str(len(sbs)), "R", str(left)])
    return [{"kind": "process-layer", "req": lc.request("layer", spec["ops"], tags), "impl": " ".join(toks), "oracle": None,
             "sig": "pl:" + spec_sig(spec), "nontrivial": len(singles) + len(evens) + len(odds) >= 2}]



# ------------------------------------------------------------------------------------------------- xg02: one gate application
def gen_gate_inputs(rng, tier):
    reps = {"quick": 1, "thorough": 4, "search": 1}.get(tier, 1)
    n_merge = {"quick": 8, "thorough": 40, "search": 0}.get(tier, 8)
    names = sorted(lc.G2)
    out = []
    for _ in range(reps):
        for length in range(2, 7):
            for q in range(length - 1):
                for a, b in ((q, q + 1), (q + 1, q)):
                    for name in names:
                        out.append({"kind": "gapply", "L": length, "a": a, "b": b, "name": name,
                                    "params": [rng.uniform(-3.2, 3.2) for _ in range(lc.G2[name][1])],
                                    "chi": rng.choice([1, 2, 3, 4, 4]), "seed": rng.randrange(2 ** 31)})
    for what in ("ket", "op", "apply", "idleft", "idright", "gate"):
        for _ in range(n_merge):
            out.append({"kind": "merge", "what": what, "p0": rng.choice([2, 2, 3]), "p1": rng.choice([2, 2, 3]),
                        "a": rng.randrange(1, 4), "m": rng.randrange(1, 4), "b": rng.randrange(1, 4),
                        "l": rng.randrange(1, 3), "r": rng.randrange(1, 3), "seed": rng.randrange(2 ** 31)})
    return out


def run_gapply(inp, r):
    length, a, b = inp["L"], inp["a"], inp["b"]
    sig = f"ga:{length}:{a}:{b}:{inp['name']}"
    req = f"gplan {length} {a} {b}"
    what = f"{inp['name']}{inp['params']} on sites ({a},{b}) of {length}, bond cap {inp['chi']}, state seed {inp['seed']}"
    bad = None
    if r.get("hang"):
        bad, impl = f"apply_two_qubit_gate does not return (batch killed after {r.get('timeout')} s)", "hang"
    elif r.get("crash"):
        bad, impl = "observation crashed: " + r["crash"][-300:], "crash"
    elif r.get("exc"):
        bad, impl = "apply_two_qubit_gate raised " + r["exc"], "exc=" + r["exc"].split(":")[0]
    elif r.get("incomplete"):
        bad, impl = "apply_two_qubit_gate did not call construct_generator_mpo / apply_window", "incomplete"
    if bad:
        return [{"kind": "gate-plan", "req": req, "impl": impl, "oracle": {"ok": False, "detail": f"{what}: {bad}"},
                 "sig": sig, "nontrivial": True}]
    toks = []
    for t in r["toks"]:
        if isinstance(t, (list, tuple)):
            kind, idx, dt, role = t
            toks.append(f"{kind}:{idx}:{ib.frac(dt)}:{role}")
        else:
            toks.append(str(t))
    impl = " ".join([" ".join(str(x) for x in r["head"]), "|"] + toks)
    dev = r["apply_dev"]
    WORST_GATE["apply"] = max(WORST_GATE["apply"], dev)
    WORST_GATE["applications"] += 1
    ret_ok = r.get("ret") == [r["head"][0], r["head"][1]]
    ok = dev <= TOL_GATE and ret_ok
    cases = [{
        "kind": "gate-plan", "req": req, "impl": impl,
        "oracle": {"ok": bool(ok), "detail": f"{what}: max |new - G.old| = {dev:.2e} over the dense chain (the gate moved the state by "
                                              f"{r['changed']:.2e}); returned sites {r.get('ret')}; bonds before {r['dims']}, splits kept/full {r['splits']}"},
        "sig": sig, "nontrivial": r["changed"] > 1e-6,
    }]
    if r.get("gate_step"):
        idx, gdev, moved = r["gate_step"]
        WORST_GATE["step"] = max(WORST_GATE["step"], gdev)
        cases.append({"kind": "gate-step", "req": None, "impl": None,
                      "oracle": {"ok": bool(gdev <= TOL_GATE),
                                 "detail": f"{what}: window state after the pair step on pair {idx} and its split vs (G on the pair).state before: {gdev:.2e} (moved {moved:.2e})"},
                      "sig": "gs:" + sig, "nontrivial": moved > 1e-6})
    if r.get("cancel"):
        worst = max(c[2] for c in r["cancel"])
        exc_min = min(c[3] for c in r["cancel"])
        WORST_GATE["cancel"] = max(WORST_GATE["cancel"], worst)
        WORST_GATE["cancel_groups"] += len(r["cancel"])
        WORST_GATE["excursion_min"] = exc_min if WORST_GATE["excursion_min"] is None else min(WORST_GATE["excursion_min"], exc_min)
        cases.append({"kind": "gate-cancel", "req": None, "impl": None,
                      "oracle": {"ok": bool(worst <= TOL_GATE),
                                 "detail": f"{what}: cancelling groups [side, site, |state after - state before|, excursion in between] = "
                                           + str([[c[0], c[1], float(f'{c[2]:.2e}'), float(f'{c[3]:.2e}')] for c in r["cancel"]])},
                      "sig": "gc:" + sig, "nontrivial": max(c[3] for c in r["cancel"]) > 1e-6})
    return cases


def _flat(x):
    return " ".join(ib.cfrac(z) for z in np.asarray(x).reshape(-1))


def run_merge(inp):
    """value ties of the model's `mergeKet`, `mergeOp`, `projectSite ∘ pairDims` with the REAL functions (pure numpy: cannot hang)"""
    from mqt.yaqs.core.methods import tdvp

    g = np.random.default_rng(inp["seed"])
    p0, p1, a, m, b, l, r = (inp[k] for k in ("p0", "p1", "a", "m", "b", "l", "r"))
    what = inp["what"]

    def rt(*shape):   # half-integers: every product / sum below is exact in binary64
        return (g.integers(-4, 5, size=shape) + 1j * g.integers(-4, 5, size=shape)) / 2.0

    def id_env(n):
        e = np.zeros((n, 1, n), dtype=complex)
        e[np.arange(n), 0, np.arange(n)] = 1
        return e

    def id_op(d):
        w = np.zeros((d, d, 1, 1), dtype=complex)
        w[:, :, 0, 0] = np.eye(d)
        return w

    sig = f"mg:{what}:{p0}{p1}{a}{m}{b}{l}{r}:{inp['seed'] % 997}"
    if what == "ket":
        a0, a1 = rt(p0, a, m), rt(p1, m, b)
        out = np.asarray(tdvp.merge_mps_tensors(a0, a1))
        ref = np.einsum("sac,tcb->stab", a0, a1).reshape(p0 * p1, a, b)
        return [{"kind": "merge-ket", "req": f"mergeket {p0} {p1} {a} {m} {b} | {_flat(a0)} | {_flat(a1)}",
                 "impl": " ".join(map(str, out.shape)) + " " + _flat(out),
                 "oracle": {"ok": bool(out.shape == ref.shape and np.array_equal(out, ref)), "detail": "merge_mps_tensors vs explicit sum"},
                 "sig": sig, "nontrivial": True}]
    if what == "op":
        w0, w1 = rt(p0, p0, l, m), rt(p1, p1, m, r)
        out = np.asarray(tdvp.merge_mpo_tensors(w0, w1))
        ref = np.einsum("oplk,qtkr->oqptlr", w0, w1).reshape(p0 * p1, p0 * p1, l, r)
        return [{"kind": "merge-op", "req": f"mergeop {p0} {p0} {p1} {p1} {l} {m} {r} | {_flat(w0)} | {_flat(w1)}",
                 "impl": " ".join(map(str, out.shape)) + " " + _flat(out),
                 "oracle": {"ok": bool(out.shape == ref.shape and np.array_equal(out, ref)), "detail": "merge_mpo_tensors vs explicit sum"},
                 "sig": sig, "nontrivial": True}]
    # pair projector: project_site(L, R, merge_mpo_tensors(W0, W1), merge_mps_tensors(A0, A1))
    a0, a1 = rt(p0, a, m), rt(p1, m, b)
    le, re, w0, w1 = rt(a, l, a), rt(b, r, b), rt(p0, p0, l, 1), rt(p1, p1, 1, r)
    kind, orc = "pair-apply", None
    if what == "idleft":
        l = 1
        le, w0 = id_env(a), id_op(p0)
        kind = "pair-idleft"
    elif what == "idright":
        r = 1
        re, w1 = id_env(b), id_op(p1)
        kind = "pair-idright"
    elif what == "gate":
        l = r = 1
        le, re, w0, w1 = id_env(a), id_env(b), rt(p0, p0, 1, 1), rt(p1, p1, 1, 1)
        kind = "pair-gate"
    theta = np.asarray(tdvp.merge_mps_tensors(a0, a1))
    out = np.asarray(tdvp.project_site(le, re, tdvp.merge_mpo_tensors(w0, w1), theta))
    th4 = theta.reshape(p0, p1, a, b)
    if what == "idleft":     # lemma 1: the pair's projector = the site-(i+1) projector on every slice of the merged tensor
        ref = np.stack([np.asarray(tdvp.project_site(le, re, w1, th4[s])) for s in range(p0)]).reshape(p0 * p1, a, b)
        orc = {"ok": bool(np.array_equal(out, ref)), "detail": "project_site(pair, 1⊗W1, L = 1) = project_site(site i+1) on every slice (exact arithmetic on half-integers)"}
    elif what == "idright":
        ref = np.stack([np.asarray(tdvp.project_site(le, re, w0, th4[:, t])) for t in range(p1)], axis=1).reshape(p0 * p1, a, b)
        orc = {"ok": bool(np.array_equal(out, ref)), "detail": "project_site(pair, W0⊗1, R = 1) = project_site(site i) on every slice"}
    elif what == "gate":
        ref = np.einsum("os,qt,stab->oqab", w0[:, :, 0, 0], w1[:, :, 0, 0], th4).reshape(p0 * p1, a, b)
        orc = {"ok": bool(np.array_equal(out, ref)), "detail": "project_site(pair, A⊗B, L = R = 1) = (A⊗B) on the two physical legs"}
    return [{"kind": kind,
             "req": f"pairapply {p0} {p1} {a} {m} {b} {l} {r} | {_flat(le)} | {_flat(re)} | {_flat(w0)} | {_flat(w1)} | {_flat(a0)} | {_flat(a1)}",
             "impl": " ".join(map(str, out.shape)) + " " + _flat(out), "oracle": orc, "sig": sig, "nontrivial": True}]


def run(inp):
    kind = str(inp["kind"]).split(":")[-1]      # "replay:corpus:modes" → "modes"
    inp = dict(inp, kind=kind)
    if kind == "layer":
        return run_layer(inp)
    if kind == "merge":
        return run_merge(inp)
    if kind == "gapply":
        res = PRE.pop(key_of(inp), None)
        if res is None:
            res = gw.run_gate_jobs([inp])
        cases = run_gapply(inp, res[0])
        if "corpus_file" in inp:
            for c in cases:
                c["kind"] = "corpus:" + c["kind"]
        return cases
    results = PRE.pop(key_of(inp), None)
    if results is None:
        results = lc.run_many(jobs_for(inp))
    if kind == "sim":
        cases = run_sim(inp, results)
    elif kind == "ntraj":
        cases = run_ntraj(inp, results)
    else:
        raise ValueError(f"unknown kind {kind}")
    if "corpus_file" in inp:
        for c in cases:
            c["kind"] = "corpus:" + c["kind"]
    return cases


def spec_report():
    return [{"name": "oracle deviations on this run (clean tree: exp < 5e-13, infidelity < 5e-13)", "ok": True,
             "worst_expectation_dev": WORST["exp"], "worst_infidelity": WORST["infid"], "worst_norm_dev": WORST["norm"],
             "tolerances": {"expectation": TOL_EXP, "fidelity": TOL_FID}},
            {"name": "single gate applications (clean tree, seeds 0..9: all three deviations < 1e-13): |new - G.old| per apply_two_qubit_gate call, "
                     "across the gate's own pair step, and across every cancelling group of the sweep", "ok": True,
             "worst_gate_apply_dev": WORST_GATE["apply"], "worst_gate_step_dev": WORST_GATE["step"],
             "worst_gate_cancel_dev": WORST_GATE["cancel"], "smallest_excursion_inside_a_cancelling_group": WORST_GATE["excursion_min"],
             "applications": WORST_GATE["applications"], "cancelling_groups": WORST_GATE["cancel_groups"], "tolerance": TOL_GATE}]


if __name__ == "__main__":
    random.seed(0)
    ib.main(
        "C02", gen, run, driver="Layers",
        rule="distinct = different (width, initial state, instruction sequence with gate names, sites and orientation); "
             "nontrivial = at least two gates (trace) / at least two gates in the front layer (process-layer); "
             "gate applications: distinct = different (length, sites in qargs order, gate); nontrivial = the gate moved the dense state by > 1e-6",
        trusted_base=[
            "qiskit circuit_to_dag / front_layer / remove_op_node modelled as the wire-dependency front of an instruction list (tied on every run through the real DAG)",
            "gate matrices / generators: C18 (each apply_* call realises the gate's unitary); checked here only through the Statevector oracle",
            "qiskit Statevector as the reference semantics of the gate set",
            "single gate applications: qiskit's `to_matrix()` of the gate class as the reference operator; exact Krylov exponential and untruncated, isometric splits are hypotheses of gate_sweep_exact_* (C19, C09), observed through the 1e-10 oracles",
        ],
        assumptions=[
            "gates on disjoint qubits commute (hypothesis of schedule_sound; true for tensor-product operators)",
            "labels are ASCII (the label predicate is modelled on code points < 128)",
            "the state handed to apply_two_qubit_gate is right-canonical (form B), as digital_tjm keeps it (hypothesis of heff_* / gate_sweep_exact_*; the tie normalises its random states the same way)",
        ],
        spec=spec_report,
    )
