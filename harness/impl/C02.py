"""C02 — implementation side: noise-free circuit simulation equals the exact unitary semantics.

trace tie  : order of the REAL `apply_single_qubit_gate` / `apply_two_qubit_gate` calls (gate, sites in qargs order)
             and of the `evaluate_observables` columns inside `simulator.run` → `digital_tjm`, on random circuits
             (widths 2–6, ≤ 12 instructions, all supported gates, both orientations, plain / labelled barriers and
             measurements sprinkled, every supported initial product state) vs `Layers.runCircuit` (mode strongPlain).
             MPS site = circuit qubit is part of the compared tokens (`reverse_bits` in `_run_circuit`).
value tie  : the REAL `process_layer` on the REAL DAG (singles / even / odd groups in their sorted order, number of
             sampling barriers, nodes left in the DAG) vs `Layers.layerOrder`;  `construct_generator_mpo`
             (first/last site, which generator factor sits where — read off the MPO it returns) vs `genPlacement`;
             `apply_window` bounds vs `window`.
oracle     : `simulator.run` (threshold 1e-15, max_bond_dim 4096) vs qiskit `Statevector`: expectations of all 1-site
             and adjacent 2-site Paulis, final state up to a global phase (get_state=True), independence of num_traj.
Every run of the simulator happens in a forked child with a hard kill timeout (layers_common.run_many).
"""
from __future__ import annotations

import copy
import json
import random

import numpy as np

import implbase as ib
import layers_common as lc

TOL_EXP = 1e-7     # clean tree: worst deviation observed over seeds 0..9 is < 5e-13 (see evidence `worst_*`)
TOL_FID = 1e-9
PRE: dict[str, list] = {}
WORST = {"exp": 0.0, "infid": 0.0, "norm": 0.0}


def key_of(inp) -> str:
    return json.dumps({k: v for k, v in inp.items() if k not in ("corpus_file",)}, sort_keys=True, default=str)


def jobs_for(inp):
    kind = inp["kind"]
    if kind == "sim":
        return [{"spec": inp["spec"], "mode": "sp", "num_traj": inp.get("num_traj", 1)}]
    if kind == "ntraj":
        return [{"spec": inp["spec"], "mode": "sp", "num_traj": 1},
                {"spec": inp["spec"], "mode": "sp", "num_traj": inp.get("num_traj", 7)}]
    return []


def gen(rng, tier):
    n_sim, n_layer, n_traj = {"quick": (80, 30, 10), "thorough": (700, 300, 60), "search": (160, 0, 20)}.get(tier, (80, 30, 10))
    inputs = []
    for _ in range(n_sim):
        r = rng.random()
        if r < 0.25:      # pure gate circuits, deeper
            spec = lc.random_circuit(rng, max_ops=12, p_marker=0.0)
        elif r < 0.40:    # two-qubit heavy: every orientation / parity
            spec = lc.random_circuit(rng, max_ops=10, p_marker=0.15)
            spec["ops"] = [lc.random_gate(rng, spec["n"], "two") if op["op"] == "g1" and rng.random() < 0.7 else op
                           for op in spec["ops"]]
        else:
            spec = lc.random_circuit(rng, max_ops=12, p_marker=0.3)
        inputs.append({"kind": "sim", "spec": spec, "num_traj": rng.choice([1, 1, 3, 50, 1000])})
    # wide circuits: several independent sub-circuits advance side by side, so one DAG front layer holds two-qubit gates
    # of both bond parities far apart, with unequal entanglement on the bonds between them (3 brickwork steps)
    for _ in range({"quick": 3, "thorough": 20, "search": 8}.get(tier, 3)):
        n = 8
        ops = []
        for q in range(n):
            ops.append({"op": "g1", "name": "ry", "q": q, "params": [rng.uniform(0.2, 2.9)]})
            ops.append({"op": "g1", "name": "rz", "q": q, "params": [rng.uniform(0.2, 2.9)]})

        def two(q):
            g = lc.random_gate(rng, 2, "two")
            return dict(g, a=q + g["a"], b=q + g["b"])

        for step in range(3):
            ops += [two(0), two(2), two(4), two(6)]          # even bonds of the brickwork + the side pair
            ops += [two(1), two(3), two(6)]                  # odd bonds of the brickwork + the side pair again (an even bond)
            for q in range(n):
                ops.append({"op": "g1", "name": "rx", "q": q, "params": [rng.uniform(0.2, 1.5)]})
        inputs.append({"kind": "sim", "spec": {"n": n, "init": "zeros", "ops": ops}, "num_traj": 1})
    for _ in range(n_traj):
        inputs.append({"kind": "ntraj", "spec": lc.random_circuit(rng, max_ops=10, p_marker=0.2),
                       "num_traj": rng.choice([2, 7, 100, 1000])})
    for _ in range(n_layer):
        inputs.append({"kind": "layer", "spec": lc.random_circuit(rng, nmax=7, max_ops=14, p_marker=0.35)})
    rng.shuffle(inputs)
    jobs, owner = [], []
    for i, inp in enumerate(inputs):
        for j in jobs_for(inp):
            jobs.append(j)
            owner.append(i)
    res = lc.run_many(jobs) if jobs else []
    for i, inp in enumerate(inputs):
        PRE[key_of(inp)] = [r for r, o in zip(res, owner) if o == i]
    yield from inputs


# ------------------------------------------------------------------------------------------------- oracles
def compare_with_statevector(spec, res):
    """model-independent: the real run against qiskit's Statevector of the gate-only circuit"""
    if res.get("hang"):
        return {"ok": False, "detail": f"simulator.run does not terminate (killed after {res['timeout']} s)"}
    if res.get("crash"):
        return {"ok": False, "detail": "simulator.run crashed the child: " + res["crash"][-300:]}
    if res.get("exc"):
        return {"ok": False, "detail": "simulator.run raised " + res["exc"]}
    n = spec["n"]
    ref = lc.reference_state(spec)
    want = lc.reference_expectations(n, ref)
    got = [r[-1] for r in res["results"]]
    if len(got) != len(want) or any(len(r) != 1 for r in res["results"]):
        return {"ok": False, "detail": f"result shape: {len(got)} observables, columns {[len(r) for r in res['results']][:4]}"}
    dev = float(np.max(np.abs(np.array(got) - np.array(want))))
    WORST["exp"] = max(WORST["exp"], dev)
    vec = lc.vec_of(res)
    if vec is None:
        return {"ok": False, "detail": "get_state=True but no output state: " + str(res.get("vec_exc"))}
    nrm = float(np.linalg.norm(vec))
    infid = abs(1.0 - abs(np.vdot(ref, vec)))
    WORST["infid"] = max(WORST["infid"], infid)
    WORST["norm"] = max(WORST["norm"], abs(nrm - 1))
    labs = lc.observable_list(n)
    if dev > TOL_EXP:
        k = int(np.argmax(np.abs(np.array(got) - np.array(want))))
        return {"ok": False, "detail": f"<{labs[k][0]}@{labs[k][1]}> = {got[k]:.12g}, exact state vector gives {want[k]:.12g} (dev {dev:.3g})"}
    if infid > TOL_FID or abs(nrm - 1) > TOL_FID:
        return {"ok": False, "detail": f"final state: |<exact|mps>| = {1 - infid:.12g}, norm {nrm:.12g}"}
    return {"ok": True, "detail": f"max dev {dev:.2e}, infidelity {infid:.2e}"}


def spec_sig(spec):
    ops = spec["ops"]
    return "n%d:%s:%s" % (spec["n"], spec["init"], " ".join(
        (op["name"] + ("<" if op["op"] == "g2" and op["a"] > op["b"] else "") if op["op"] in ("g1", "g2")
         else op["op"]) + ":" + str(op.get("q", op.get("a", op.get("qs")))) for op in ops))


def run_sim(inp, results):
    spec = inp["spec"]
    res = results[0]
    cases = []
    tied = lc.ascii_labels(spec["ops"])
    cases.append({
        "kind": "sim-trace",
        "req": lc.request("run new sp", spec["ops"]) if tied else None,
        "impl": lc.events_string(res, spec, "sp"),
        "oracle": compare_with_statevector(spec, res),
        "sig": spec_sig(spec),
        "nontrivial": sum(op["op"] in ("g1", "g2") for op in spec["ops"]) >= 2,
    })
    seen = set()
    for sites, first, last, m0, m1, others, length in res.get("gens", []) if isinstance(res, dict) else []:
        a, b = sites
        if (a, b) in seen:
            continue
        seen.add((a, b))
        kf = sites.index(first) if first in sites else -1
        kl = sites.index(last) if last in sites else -1
        ok = kf >= 0 and kl >= 0 and [m0, m1][kf] and [m0, m1][kl] and others
        cases.append({
            "kind": "gen-placement",
            "req": f"gen {a} {b}",
            "impl": f"{first} {last} {kf if [m0, m1][kf] else 'x'} {kl if [m0, m1][kl] else 'x'}",
            "oracle": {"ok": bool(ok), "detail": f"sites {sites}: MPO carries generator[k] on sites[k]: {m0},{m1}; identity elsewhere: {others}"},
            "sig": f"gen:{a}:{b}:{length}", "nontrivial": True,
        })
    seenw = set()
    for length, first, last, wsize, win, short_len in res.get("wins", []) if isinstance(res, dict) else []:
        if (length, first, last) in seenw or wsize != 1:
            continue
        seenw.add((length, first, last))
        ok = win[0] <= first and last <= win[1] < length and short_len == win[1] - win[0] + 1 and short_len >= 2
        cases.append({
            "kind": "window",
            "req": f"win {length} {first} {last}",
            "impl": f"{win[0]} {win[1]}",
            "oracle": {"ok": bool(ok), "detail": f"window {win} for sites ({first},{last}) on {length} sites, short state {short_len}"},
            "sig": f"win:{length}:{first}:{last}", "nontrivial": True,
        })
    return cases


def run_ntraj(inp, results):
    spec = inp["spec"]
    a, b = results
    o1, o2 = compare_with_statevector(spec, a), compare_with_statevector(spec, b)
    if not o1["ok"] or not o2["ok"]:
        orc = o1 if not o1["ok"] else o2
    else:
        ra, rb = np.array(a["results"]), np.array(b["results"])
        va, vb = lc.vec_of(a), lc.vec_of(b)
        d = float(np.max(np.abs(ra - rb)))
        dv = float(np.max(np.abs(va - vb)))
        same_trace = lc.events_string(a, spec, "sp") == lc.events_string(b, spec, "sp")
        ok = d <= 1e-12 and dv <= 1e-12 and same_trace
        orc = {"ok": ok, "detail": f"num_traj=1 vs {inp.get('num_traj')}: max result diff {d:.2e}, state diff {dv:.2e}, same gate trace {same_trace}"}
    return [{"kind": "num-traj", "req": None, "impl": None, "oracle": orc, "sig": "nt:" + spec_sig(spec), "nontrivial": True}]


def run_layer(inp):
    """value tie of `process_layer` on the real DAG the simulator would build (no loop → cannot hang)"""
    from mqt.yaqs.digital import digital_tjm as dt_mod

    spec = inp["spec"]
    if not lc.ascii_labels(spec["ops"]):
        return []
    tags = lc.tag_table(spec["ops"])
    qc = copy.deepcopy(lc.build_circuit(spec).reverse_bits())
    dag = lc.circuit_to_dag(qc)
    singles, evens, odds, sbs = dt_mod.process_layer(dag)
    left = len(dag.op_nodes())
    toks = (["S"] + lc.dag_nodes_tokens(singles, tags) + ["E"] + lc.dag_nodes_tokens(evens, tags) + ["O"] +
            lc.dag_nodes_tokens(odds, tags) + ["B", str(len(sbs)), "R", str(left)])
    return [{"kind": "process-layer", "req": lc.request("layer", spec["ops"], tags), "impl": " ".join(toks), "oracle": None,
             "sig": "pl:" + spec_sig(spec), "nontrivial": len(singles) + len(evens) + len(odds) >= 2}]


def run(inp):
    kind = str(inp["kind"]).split(":")[-1]      # "replay:corpus:modes" → "modes"
    inp = dict(inp, kind=kind)
    if kind == "layer":
        return run_layer(inp)
    results = PRE.pop(key_of(inp), None)
    if results is None:
        results = lc.run_many(jobs_for(inp))
    if kind == "sim":
        cases = run_sim(inp, results)
    elif kind == "ntraj":
        cases = run_ntraj(inp, results)
    else:
        raise ValueError(f"unknown kind {kind}")
    if "corpus_file" in inp:
        for c in cases:
            c["kind"] = "corpus:" + c["kind"]
    return cases


def spec_report():
    return [{"name": "oracle deviations on this run (clean tree: exp < 5e-13, infidelity < 5e-13)", "ok": True,
             "worst_expectation_dev": WORST["exp"], "worst_infidelity": WORST["infid"], "worst_norm_dev": WORST["norm"],
             "tolerances": {"expectation": TOL_EXP, "fidelity": TOL_FID}}]


if __name__ == "__main__":
    random.seed(0)
    ib.main(
        "C02", gen, run, driver="Layers",
        rule="distinct = different (width, initial state, instruction sequence with gate names, sites and orientation); "
             "nontrivial = at least two gates (trace) / at least two gates in the front layer (process-layer)",
        trusted_base=[
            "qiskit circuit_to_dag / front_layer / remove_op_node modelled as the wire-dependency front of an instruction list (tied on every run through the real DAG)",
            "gate matrices / generators: C18 (each apply_* call realises the gate's unitary); checked here only through the Statevector oracle",
            "qiskit Statevector as the reference semantics of the gate set",
        ],
        assumptions=[
            "gates on disjoint qubits commute (hypothesis of schedule_sound; true for tensor-product operators)",
            "labels are ASCII (the label predicate is modelled on code points < 128)",
        ],
        spec=spec_report,
    )
